//! Differential test, model side: storage / TTL scenario (must print exactly what
//! /verif/realhost/src/bin/difftest.rs prints for the same seed).
#[path = "/verif/difftests/collections.rs"]
mod collections;
use soroban_sdk::model::world;
use soroban_sdk::Env;
use std::panic;

struct Lcg(u64);
impl Lcg {
    fn next(&mut self, n: u64) -> u64 {
        self.0 = self.0.wrapping_mul(6364136223846793005).wrapping_add(1442695040888963407);
        (self.0 >> 33) % n
    }
}

fn ttl(e: &Env, dur: u64, k: u32) -> String {
    let live = if dur == 0 { e.storage().persistent().has(&k) } else { e.storage().temporary().has(&k) };
    if !live {
        return "-".into();
    }
    let w = world();
    let key = soroban_sdk::model::key_of(&k);
    for s in w.slots.iter() {
        if s.claimed && s.dur == dur as u8 && s.key == key {
            return format!("{}", s.live_until - w.seq);
        }
    }
    "?".into()
}

fn main() {
    let args: Vec<String> = std::env::args().collect();
    let seed: u64 = args.get(1).map(|s| s.parse().unwrap()).unwrap_or(1);
    let steps: u64 = args.get(2).map(|s| s.parse().unwrap()).unwrap_or(400);
    let min_temp: u32 = args.get(3).map(|s| s.parse().unwrap()).unwrap_or(1);
    panic::set_hook(Box::new(|_| {}));
    if args.get(4).map(|s| s.as_str()) == Some("collections") {
        collections::run(&Env::default(), seed, steps);
        return;
    }
    let mut r = Lcg(seed);
    let e = Env::default();
    {
        let w = world();
        w.seq = 100;
        w.min_temp_ttl = min_temp;
        w.min_pers_ttl = 50;
        w.max_ttl = 200;
    }
    for step in 0..steps {
        let op = r.next(7);
        let dur = r.next(2); // 0 persistent, 1 temporary
        let k = r.next(3) as u32;
        let res: String = match op {
            0 | 1 => {
                let v = r.next(1000) as u32;
                if dur == 0 { e.storage().persistent().set(&k, &v) } else { e.storage().temporary().set(&k, &v) }
                format!("set {} {} {} -> ok", dur, k, v)
            }
            2 => {
                let v: Option<u32> = if dur == 0 { e.storage().persistent().get(&k) } else { e.storage().temporary().get(&k) };
                format!("get {} {} -> {:?}", dur, k, v)
            }
            3 => {
                if dur == 0 { e.storage().persistent().remove(&k) } else { e.storage().temporary().remove(&k) }
                format!("remove {} {} -> ok", dur, k)
            }
            4 | 5 => {
                let a = r.next(260) as u32;
                let b = r.next(260) as u32;
                let (thr, ext) = if r.next(4) == 0 { (a, b) } else { (a.min(b), a.max(b)) };
                let ok = panic::catch_unwind(|| {
                    let e = Env::default();
                    if dur == 0 { e.storage().persistent().extend_ttl(&k, thr, ext) } else { e.storage().temporary().extend_ttl(&k, thr, ext) }
                })
                .is_ok();
                format!("extend {} {} {} {} -> {}", dur, k, thr, ext, if ok { "ok" } else { "trap" })
            }
            _ => {
                // persistent entries must stay live (archival is outside the model): advance only while every
                // present persistent entry survives
                let d = r.next(12) as u32;
                let w = world();
                let mut ok = true;
                for s in w.slots.iter() {
                    if s.claimed && s.present && s.dur == 0 && s.live_until < w.seq + d {
                        ok = false;
                    }
                }
                if ok {
                    w.seq += d;
                }
                format!("advance {} -> {}", d, if ok { "ok" } else { "skipped" })
            }
        };
        let t: Vec<String> = (0..3).map(|k| ttl(&e, 1, k)).collect();
        let p: Vec<String> = (0..3).map(|k| ttl(&e, 0, k)).collect();
        println!("{:4} seq={} {} | t[{}] p[{}]", step, world().seq, res, t.join(","), p.join(","));
    }
}
