//! Differential test, real-host side (real soroban-sdk testutils): same script as /verif/modelrun.
#[path = "/verif/difftests/collections.rs"]
mod collections;
use soroban_sdk::testutils::storage::{Persistent as _, Temporary as _};
use soroban_sdk::testutils::Ledger as _;
use soroban_sdk::{contract, contractimpl, Env};

struct Lcg(u64);
impl Lcg {
    fn next(&mut self, n: u64) -> u64 {
        self.0 = self.0.wrapping_mul(6364136223846793005).wrapping_add(1442695040888963407);
        (self.0 >> 33) % n
    }
}

#[contract]
pub struct D;
#[contractimpl]
impl D {
    pub fn set(e: Env, dur: u32, k: u32, v: u32) {
        if dur == 0 { e.storage().persistent().set(&k, &v) } else { e.storage().temporary().set(&k, &v) }
    }
    pub fn get(e: Env, dur: u32, k: u32) -> Option<u32> {
        if dur == 0 { e.storage().persistent().get(&k) } else { e.storage().temporary().get(&k) }
    }
    pub fn remove(e: Env, dur: u32, k: u32) {
        if dur == 0 { e.storage().persistent().remove(&k) } else { e.storage().temporary().remove(&k) }
    }
    pub fn extend(e: Env, dur: u32, k: u32, thr: u32, ext: u32) {
        if dur == 0 { e.storage().persistent().extend_ttl(&k, thr, ext) } else { e.storage().temporary().extend_ttl(&k, thr, ext) }
    }
    pub fn ttl(e: Env, dur: u32, k: u32) -> Option<u32> {
        if dur == 0 {
            if e.storage().persistent().has(&k) { Some(e.storage().persistent().get_ttl(&k)) } else { None }
        } else if e.storage().temporary().has(&k) {
            Some(e.storage().temporary().get_ttl(&k))
        } else {
            None
        }
    }
}

fn main() {
    let args: Vec<String> = std::env::args().collect();
    let seed: u64 = args.get(1).map(|s| s.parse().unwrap()).unwrap_or(1);
    let steps: u64 = args.get(2).map(|s| s.parse().unwrap()).unwrap_or(400);
    let min_temp: u32 = args.get(3).map(|s| s.parse().unwrap()).unwrap_or(1);
    std::panic::set_hook(Box::new(|_| {}));
    if args.get(4).map(|s| s.as_str()) == Some("collections") {
        let e = Env::default();
        e.cost_estimate().budget().reset_unlimited();
        collections::run(&e, seed, steps);
        return;
    }
    let mut r = Lcg(seed);
    let e = Env::default();
    e.ledger().with_mut(|l| {
        l.sequence_number = 100;
        l.min_temp_entry_ttl = min_temp;
        l.min_persistent_entry_ttl = 50;
        l.max_entry_ttl = 200;
    });
    let id = e.register(D, ());
    let c = DClient::new(&e, &id);
    // live_until of persistent entries as the host reports them, to decide whether an advance is allowed
    for step in 0..steps {
        let op = r.next(7);
        let dur = r.next(2) as u32;
        let k = r.next(3) as u32;
        let res: String = match op {
            0 | 1 => {
                let v = r.next(1000) as u32;
                c.set(&dur, &k, &v);
                format!("set {} {} {} -> ok", dur, k, v)
            }
            2 => format!("get {} {} -> {:?}", dur, k, c.get(&dur, &k)),
            3 => {
                c.remove(&dur, &k);
                format!("remove {} {} -> ok", dur, k)
            }
            4 | 5 => {
                let a = r.next(260) as u32;
                let b = r.next(260) as u32;
                let (thr, ext) = if r.next(4) == 0 { (a, b) } else { (a.min(b), a.max(b)) };
                let ok = c.try_extend(&dur, &k, &thr, &ext).is_ok();
                format!("extend {} {} {} {} -> {}", dur, k, thr, ext, if ok { "ok" } else { "trap" })
            }
            _ => {
                let d = r.next(12) as u32;
                let mut ok = true;
                for kk in 0..3u32 {
                    if let Some(t) = c.ttl(&0, &kk) {
                        if t < d {
                            ok = false;
                        }
                    }
                }
                if ok {
                    e.ledger().with_mut(|l| l.sequence_number += d);
                }
                format!("advance {} -> {}", d, if ok { "ok" } else { "skipped" })
            }
        };
        let f = |dur: u32| -> String {
            (0..3u32).map(|k| c.ttl(&dur, &k).map(|t| t.to_string()).unwrap_or("-".into())).collect::<Vec<_>>().join(",")
        };
        println!("{:4} seq={} {} | t[{}] p[{}]", step, e.ledger().sequence(), res, f(1), f(0));
    }
}
