//! Runs the REAL compiled fixed-point functions (real soroban-sdk host for the I256 path) on concrete inputs.
//! stdin, one request per line; stdout: the result, `NONE` (checked variant returned None) or `ERR` (panic / host trap).
//!   <fn> <x> <y> <d>                       i128 functions: mul_div_floor|mul_div_ceil|mul_div|checked_mul_div_floor|…
//!   i256 <fn> <x limbs> <y limbs> <d limbs> I256 functions; a limb group is `hi_hi:hi_lo:lo_hi:lo_lo` (i64:u64:u64:u64)
//!   wad <op> <a> <b>                        checked_mul|checked_div|from_ratio|checked_mul_int|checked_div_int|from_integer
use std::io::{self, BufRead};
use std::panic;

use soroban_sdk::{Env, I256};
use stellar_contract_utils::math::wad::Wad;
use stellar_contract_utils::math::{checked_mul_div_i128, checked_mul_div_i256, mul_div_i128, mul_div_i256, Rounding};

fn i256(e: &Env, s: &str) -> I256 {
    let p: Vec<&str> = s.split(':').collect();
    I256::from_parts(e, p[0].parse().unwrap(), p[1].parse().unwrap(), p[2].parse().unwrap(), p[3].parse().unwrap())
}
fn show(v: &I256) -> String {
    let b = v.to_be_bytes();
    let mut s = String::from("0x");
    for x in b.iter() {
        s.push_str(&format!("{:02x}", x));
    }
    s
}
fn rounding(f: &str) -> Rounding {
    if f.ends_with("floor") { Rounding::Floor } else if f.ends_with("ceil") { Rounding::Ceil } else { Rounding::Truncate }
}

fn main() {
    panic::set_hook(Box::new(|_| {}));
    let stdin = io::stdin();
    for line in stdin.lock().lines() {
        let line = line.unwrap();
        let p: Vec<String> = line.split_whitespace().map(|s| s.to_string()).collect();
        if p.is_empty() {
            continue;
        }
        let r = panic::catch_unwind(move || -> Option<String> {
            let e = Env::default();
            if p[0] == "i256" {
                let (x, y, d) = (i256(&e, &p[2]), i256(&e, &p[3]), i256(&e, &p[4]));
                let f = p[1].as_str();
                if f.starts_with("checked") {
                    checked_mul_div_i256(&e, x, y, d, rounding(f)).map(|v| show(&v))
                } else {
                    Some(show(&mul_div_i256(&e, x, y, d, rounding(f))))
                }
            } else if p[0] == "wad" {
                let a: i128 = p[2].parse().unwrap();
                let b: i128 = p.get(3).map(|s| s.parse().unwrap()).unwrap_or(0);
                match p[1].as_str() {
                    "checked_mul" => Wad::from_raw(a).checked_mul(&e, Wad::from_raw(b)).map(|w| w.raw().to_string()),
                    "checked_div" => Wad::from_raw(a).checked_div(&e, Wad::from_raw(b)).map(|w| w.raw().to_string()),
                    "from_ratio" => Some(Wad::from_ratio(&e, a, b).raw().to_string()),
                    "checked_mul_int" => Wad::from_raw(a).checked_mul_int(b).map(|w| w.raw().to_string()),
                    "checked_div_int" => Wad::from_raw(a).checked_div_int(b).map(|w| w.raw().to_string()),
                    "from_integer" => Some(Wad::from_integer(&e, a).raw().to_string()),
                    _ => panic!("unknown"),
                }
            } else {
                let (x, y, d): (i128, i128, i128) = (p[1].parse().unwrap(), p[2].parse().unwrap(), p[3].parse().unwrap());
                let f = p[0].as_str();
                if f.starts_with("checked") {
                    checked_mul_div_i128(&e, x, y, d, rounding(f)).map(|v| v.to_string())
                } else {
                    Some(mul_div_i128(&e, x, y, d, rounding(f)).to_string())
                }
            }
        });
        match r {
            Ok(Some(v)) => println!("{}", v),
            Ok(None) => println!("NONE"),
            Err(_) => println!("ERR"),
        }
    }
}
