//! Runs the REAL compiled fixed-point functions (real soroban-sdk host for the I256 path) on concrete inputs.
//! stdin: one request per line `<fn> <x> <y> <d>`; stdout: the result, `NONE` (checked variant) or `ERR` (panic).
use std::io::{self, BufRead};
use std::panic;

use soroban_sdk::Env;
use stellar_contract_utils::math::{checked_mul_div_i128, mul_div_i128, Rounding};

fn main() {
    panic::set_hook(Box::new(|_| {}));
    let stdin = io::stdin();
    for line in stdin.lock().lines() {
        let line = line.unwrap();
        let p: Vec<&str> = line.split_whitespace().collect();
        if p.len() != 4 {
            continue;
        }
        let (x, y, d): (i128, i128, i128) = (p[1].parse().unwrap(), p[2].parse().unwrap(), p[3].parse().unwrap());
        let f = p[0].to_string();
        let r = panic::catch_unwind(move || {
            let e = Env::default();
            match f.as_str() {
                "mul_div_floor" => Some(mul_div_i128(&e, x, y, d, Rounding::Floor)),
                "mul_div_ceil" => Some(mul_div_i128(&e, x, y, d, Rounding::Ceil)),
                "mul_div" => Some(mul_div_i128(&e, x, y, d, Rounding::Truncate)),
                "checked_mul_div_floor" => checked_mul_div_i128(&e, x, y, d, Rounding::Floor),
                "checked_mul_div_ceil" => checked_mul_div_i128(&e, x, y, d, Rounding::Ceil),
                "checked_mul_div" => checked_mul_div_i128(&e, x, y, d, Rounding::Truncate),
                _ => panic!("unknown"),
            }
        });
        match r {
            Ok(Some(v)) => println!("{}", v),
            Ok(None) => println!("NONE"),
            Err(_) => println!("ERR"),
        }
    }
}
