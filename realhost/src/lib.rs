#![no_std]
