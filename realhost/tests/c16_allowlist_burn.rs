//! C16 on the real host: the allow-list example must vet the holder on burn / burn_from as on transfer.
//! (Found by the Kani harnesses gates::allow_ex_burn::{burn, burn_from}.)
use soroban_sdk::{testutils::Address as _, Address, Env, String};

#[allow(dead_code)]
#[path = "/repo/examples/fungible-allowlist/src/contract.rs"]
mod contract;
use contract::{ExampleContract, ExampleContractClient};

#[test]
fn disallowed_holder_cannot_burn_or_be_burned_from() {
    let e = Env::default();
    e.mock_all_auths();
    let (admin, manager, user, spender) = (Address::generate(&e), Address::generate(&e), Address::generate(&e), Address::generate(&e));
    let id = e.register(
        ExampleContract,
        (String::from_str(&e, "T"), String::from_str(&e, "T"), admin.clone(), manager.clone(), 1000i128),
    );
    let c = ExampleContractClient::new(&e, &id);
    c.allow_user(&user, &manager);
    c.transfer(&admin, &user, &100);
    c.approve(&user, &spender, &50, &1000);
    c.disallow_user(&user, &manager);
    assert!(c.try_transfer(&user, &admin, &10).is_err(), "sanity: transfer by a disallowed user is refused");
    assert!(c.try_burn(&user, &10).is_err(), "a disallowed holder burned tokens");
    assert!(c.try_burn_from(&spender, &user, &10).is_err(), "tokens of a disallowed holder were burned by allowance");
    assert_eq!(c.balance(&user), 100);
}
