//! C07 on the real host: a replaced offer must not be acceptable after its own live_until_ledger.
//! (History found by the Kani harness handshake::own::offer_then_accept.)
use soroban_sdk::{contract, contractimpl, testutils::{Address as _, Ledger as _}, Address, Env};
use stellar_access::ownable;

#[contract]
pub struct C;
#[contractimpl]
impl C {
    pub fn init(e: Env, owner: Address) { ownable::set_owner(&e, &owner); }
    pub fn offer(e: Env, new: Address, until: u32) { ownable::transfer_ownership(&e, &new, until); }
    pub fn accept(e: Env) { ownable::accept_ownership(&e); }
    pub fn owner(e: Env) -> Option<Address> { ownable::get_owner(&e) }
}

#[test]
fn replaced_offer_expiry_is_honoured() {
    let e = Env::default();
    e.ledger().with_mut(|l| { l.sequence_number = 100; l.min_temp_entry_ttl = 1; l.min_persistent_entry_ttl = 4096; l.max_entry_ttl = 100_000; });
    let id = e.register(C, ());
    let c = CClient::new(&e, &id);
    let (o, a, b) = (Address::generate(&e), Address::generate(&e), Address::generate(&e));
    e.mock_all_auths();
    c.init(&o);
    c.offer(&a, &1100);
    e.ledger().with_mut(|l| l.sequence_number = 150);
    c.offer(&b, &160);
    e.ledger().with_mut(|l| l.sequence_number = 500);
    let r = c.try_accept();
    assert!(r.is_err(), "offer to b expired at ledger 160 but was accepted at ledger 500");
    assert_eq!(c.owner(), Some(o));
}
