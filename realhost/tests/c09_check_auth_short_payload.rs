//! C09 on the real host: an empty / short operation-descriptor payload must not authorize anything on behalf
//! of a self-administered TimelockController. (Found by the Kani harnesses timelock_ctrl::c09_check_auth_{1x0,2x0,2x1_open}.)
use soroban_sdk::{auth::{Context, ContractContext}, symbol_short, testutils::{Address as _, BytesN as _}, vec, Address, BytesN, Env, IntoVal, Vec};

#[allow(dead_code)]
#[path = "/repo/examples/timelock-controller/src/contract.rs"]
mod contract;
use contract::{OperationMeta, TimelockController};

#[test]
fn empty_descriptor_list_authorizes_nothing() {
    let e = Env::default();
    let proposer = Address::generate(&e);
    let executor = Address::generate(&e);
    // admin = None: the controller administers itself
    let id = e.register(
        TimelockController,
        (10u32, vec![&e, proposer.clone()], vec![&e, executor.clone()], None::<Address>),
    );
    let payload = BytesN::<32>::random(&e);
    let ctx = Context::Contract(ContractContext { contract: id.clone(), fn_name: symbol_short!("upd_delay"), args: (0u32,).into_val(&e) });
    let r = e.try_invoke_contract_check_auth::<soroban_sdk::Error>(&id, &payload, Vec::<OperationMeta>::new(&e).into_val(&e), &vec![&e, ctx]);
    assert!(r.is_err(), "__check_auth accepted a context without any operation descriptor");
}
