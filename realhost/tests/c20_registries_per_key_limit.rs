//! C20 on the real host: "Maximum number of registries allowed per signing key" (20) must be reachable exactly.
//! (Found by the Kani harness registries::claim_issuer::allow_key_registries_limit_reachable.)
use soroban_sdk::{contract, contractimpl, Address, Bytes, Env};
use stellar_tokens::rwa::claim_issuer::{self as ci, MAX_REGISTRIES_PER_KEY};

#[contract]
pub struct Registry;
#[contractimpl]
impl Registry {
    pub fn has_claim_topic(_e: Env, _issuer: Address, _topic: u32) -> bool {
        true
    }
}
#[contract]
pub struct Issuer;
#[contractimpl]
impl Issuer {
    pub fn allow(e: Env, key: Bytes, registry: Address, scheme: u32, topic: u32) {
        ci::allow_key(&e, &key, &registry, scheme, topic);
    }
}

#[test]
fn twentieth_registry_of_a_key_is_accepted_and_the_next_refused() {
    let e = Env::default();
    e.mock_all_auths();
    e.cost_estimate().budget().reset_unlimited();
    let issuer = e.register(Issuer, ());
    let c = IssuerClient::new(&e, &issuer);
    let key = Bytes::from_array(&e, &[7u8; 32]);
    let mut accepted = 0u32;
    for _ in 0..(MAX_REGISTRIES_PER_KEY + 1) {
        let r = e.register(Registry, ());
        if c.try_allow(&key, &r, &101u32, &1u32).is_ok() {
            accepted += 1;
        }
    }
    assert_eq!(accepted, MAX_REGISTRIES_PER_KEY, "limit enforced at {accepted}, documented {MAX_REGISTRIES_PER_KEY}");
}
