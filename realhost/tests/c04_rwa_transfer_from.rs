//! C04 on the real host: an allowance-based RWA transfer must pass the same gates as a direct transfer.
//! (Found by the Kani harness rwa::c04_transfer_from.)
use soroban_sdk::{contract, contractimpl, testutils::Address as _, Address, Env};
use stellar_contract_utils::pausable;
use stellar_tokens::{fungible::Base, rwa::RWA};

#[contract]
pub struct Compliance;
#[contractimpl]
impl Compliance {
    pub fn transferred(_e: Env, _from: Address, _to: Address, _amount: i128, _token: Address) {}
    pub fn can_transfer(_e: Env, _from: Address, _to: Address, _amount: i128, _token: Address) -> bool {
        false
    }
}
#[contract]
pub struct Idv;
#[contractimpl]
impl Idv {
    pub fn verify_identity(_e: Env, _account: Address) {
        panic!("nobody is verified")
    }
}
#[contract]
pub struct Token;
#[contractimpl]
impl Token {
    pub fn init(e: Env, compliance: Address, idv: Address) {
        RWA::set_compliance(&e, &compliance);
        RWA::set_identity_verifier(&e, &idv);
    }
    pub fn raw_mint(e: Env, to: Address, amount: i128) {
        Base::mint(&e, &to, amount);
    }
    pub fn approve(e: Env, owner: Address, spender: Address, amount: i128, until: u32) {
        Base::approve(&e, &owner, &spender, amount, until);
    }
    pub fn pause(e: Env) {
        pausable::pause(&e);
    }
    pub fn freeze(e: Env, a: Address) {
        RWA::set_address_frozen(&e, &a, true);
    }
    pub fn freeze_part(e: Env, a: Address, amount: i128) {
        RWA::freeze_partial_tokens(&e, &a, amount);
    }
    pub fn transfer_from(e: Env, spender: Address, from: Address, to: Address, amount: i128) {
        RWA::transfer_from(&e, &spender, &from, &to, amount);
    }
    pub fn balance(e: Env, a: Address) -> i128 {
        Base::balance(&e, &a)
    }
    pub fn frozen(e: Env, a: Address) -> i128 {
        RWA::get_frozen_tokens(&e, &a)
    }
}

fn setup() -> (Env, TokenClient<'static>, Address, Address, Address) {
    let e = Env::default();
    e.mock_all_auths();
    let c = e.register(Compliance, ());
    let i = e.register(Idv, ());
    let t = e.register(Token, ());
    let tc = TokenClient::new(&e, &t);
    tc.init(&c, &i);
    let (from, to, spender) = (Address::generate(&e), Address::generate(&e), Address::generate(&e));
    tc.raw_mint(&from, &100);
    tc.approve(&from, &spender, &100, &1000);
    (e, tc, from, to, spender)
}

#[test]
fn paused_token_refuses_transfer_from() {
    let (_e, tc, from, to, spender) = setup();
    tc.pause();
    assert!(tc.try_transfer_from(&spender, &from, &to, &60).is_err(), "paused token moved 60 by allowance");
}

#[test]
fn frozen_and_unverified_parties_refuse_transfer_from() {
    let (_e, tc, from, to, spender) = setup();
    tc.freeze(&from);
    tc.freeze(&to);
    tc.freeze_part(&from, &100);
    assert!(tc.try_transfer_from(&spender, &from, &to, &60).is_err());
    assert!(tc.frozen(&from) <= tc.balance(&from), "frozen tokens exceed the balance");
}
