//! C15 on the real host: a required claim topic that has NO trusted issuer must not be satisfied vacuously.
//! (Found by the Kani harness identity::c15_verify_identity.)
use soroban_sdk::{contract, contractimpl, map, testutils::Address as _, vec, Address, BytesN, Env, Map, Vec};
use stellar_tokens::rwa::identity_verifier::storage as idv;

#[contract]
pub struct Irs;
#[contractimpl]
impl Irs {
    pub fn stored_identity(e: Env, _account: Address) -> Address {
        e.storage().instance().get(&0u32).unwrap()
    }
    pub fn set(e: Env, identity: Address) {
        e.storage().instance().set(&0u32, &identity);
    }
}
#[contract]
pub struct Cti;
#[contractimpl]
impl Cti {
    pub fn get_claim_topics_and_issuers(e: Env) -> Map<u32, Vec<Address>> {
        map![&e, (1u32, vec![&e])]
    }
}
#[contract]
pub struct Identity;
#[contractimpl]
impl Identity {
    pub fn get_claim_ids_by_topic(e: Env, _topic: u32) -> Vec<BytesN<32>> {
        vec![&e]
    }
}
#[contract]
pub struct Verifier;
#[contractimpl]
impl Verifier {
    pub fn init(e: Env, irs: Address, cti: Address) {
        idv::set_identity_registry_storage(&e, &irs);
        idv::set_claim_topics_and_issuers(&e, &cti);
    }
    pub fn verify_identity(e: Env, account: Address) {
        idv::verify_identity(&e, &account);
    }
}

#[test]
fn required_topic_without_trusted_issuer_is_not_satisfied() {
    let e = Env::default();
    e.mock_all_auths();
    let irs = e.register(Irs, ());
    let cti = e.register(Cti, ());
    let ident = e.register(Identity, ());
    let v = e.register(Verifier, ());
    IrsClient::new(&e, &irs).set(&ident);
    let vc = VerifierClient::new(&e, &v);
    vc.init(&irs, &cti);
    let account = Address::generate(&e);
    assert!(vc.try_verify_identity(&account).is_err(), "an identity without any claim passed verification of a required topic");
}
