//! C10 on the real host: minting an id that already has an owner is accepted and leaves two accounts credited
//! for one token (found by the Kani harnesses nft::base_mint, nft::base_sequential_mint,
//! nft_enum::enum_non_sequential_mint, nft_enum::enum_sequential_mint). The tests PASS when the violation
//! is present (they assert the broken post-state).
use soroban_sdk::{contract, contractimpl, testutils::Address as _, Address, Env};
use stellar_tokens::non_fungible::{enumerable::Enumerable, Base};

#[contract]
pub struct Nft;
#[contractimpl]
impl Nft {
    pub fn mint(e: Env, to: Address, id: u32) {
        Base::mint(&e, &to, id);
    }
    pub fn seq_mint(e: Env, to: Address) -> u32 {
        Base::sequential_mint(&e, &to)
    }
    pub fn balance(e: Env, a: Address) -> u32 {
        Base::balance(&e, &a)
    }
    pub fn owner_of(e: Env, id: u32) -> Address {
        Base::owner_of(&e, id)
    }
    pub fn emint(e: Env, to: Address, id: u32) {
        Enumerable::non_sequential_mint(&e, &to, id);
    }
    pub fn eseq_mint(e: Env, to: Address) -> u32 {
        Enumerable::sequential_mint(&e, &to)
    }
    pub fn supply(e: Env) -> u32 {
        Enumerable::total_supply(&e)
    }
    pub fn global(e: Env, i: u32) -> u32 {
        Enumerable::get_token_id(&e, i)
    }
    pub fn owned(e: Env, a: Address, i: u32) -> u32 {
        Enumerable::get_owner_token_id(&e, &a, i)
    }
}

#[test]
#[ignore = "observation only: Base::mint / sequential_mint document id uniqueness as the integrator's duty (outside C10's quantifier)"]
fn base_explicit_mint_then_sequential_mint_reissues_the_id() {
    let e = Env::default();
    let c = e.register(Nft, ());
    let cl = NftClient::new(&e, &c);
    let (a, b) = (Address::generate(&e), Address::generate(&e));
    cl.mint(&a, &0); // explicit fresh id 0 (the counter does not learn about it)
    assert_eq!(cl.owner_of(&0), a);
    let id = cl.seq_mint(&b); // the counter hands out 0 again
    assert_eq!(id, 0);
    assert_eq!(cl.owner_of(&0), b); // a's token changed owner without a's authorization
    assert_eq!(cl.balance(&a), 1); // a is still credited for a token it no longer owns
    assert_eq!(cl.balance(&b), 1);
}

#[test]
#[ignore = "observation only: Base::mint / sequential_mint document id uniqueness as the integrator's duty (outside C10's quantifier)"]
fn base_mint_of_an_owned_id_is_accepted() {
    let e = Env::default();
    let c = e.register(Nft, ());
    let cl = NftClient::new(&e, &c);
    let (a, b) = (Address::generate(&e), Address::generate(&e));
    cl.mint(&a, &7);
    cl.mint(&b, &7);
    assert_eq!(cl.owner_of(&7), b);
    assert_eq!((cl.balance(&a), cl.balance(&b)), (1, 1)); // two balances for one token
}

#[test]
#[ignore = "observation only: Base::mint / sequential_mint document id uniqueness as the integrator's duty (outside C10's quantifier)"]
fn enumerable_mint_of_an_owned_id_lists_the_token_twice() {
    let e = Env::default();
    let c = e.register(Nft, ());
    let cl = NftClient::new(&e, &c);
    let (a, b) = (Address::generate(&e), Address::generate(&e));
    cl.emint(&a, &0);
    let id = cl.eseq_mint(&b); // sequential counter still at 0
    assert_eq!(id, 0);
    assert_eq!(cl.supply(), 2); // one token, supply 2
    assert_eq!((cl.global(&0), cl.global(&1)), (0, 0)); // the global list contains token 0 twice
    assert_eq!((cl.owned(&a, &0), cl.owned(&b, &0)), (0, 0)); // and it sits in both owners' lists
    assert_eq!(cl.owner_of(&0), b);
}
