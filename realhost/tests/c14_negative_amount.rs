//! C14, OUTSIDE the property's quantifier (it ranges over non-negative amounts): on the real host a `transfer`
//! context with a NEGATIVE amount is accepted by the spending-limit policy and booked as negative spending, which
//! raises the budget of later transfers in the same window (found by kani policies::sl_enforce_negative_amount,
//! clause C14.spending.enforce.negative_amount_refused; see checks/reg_policies.py REPORT_NEGATIVE_AMOUNT).
//! The test asserts the DESIRED behaviour (refusal), so it fails on the current tree; it is #[ignore]d:
//! run with `cargo test --offline --test c14_negative_amount -- --ignored`.
use soroban_sdk::{auth::{Context, ContractContext}, contract, contractimpl, symbol_short, testutils::{Address as _, Ledger as _}, vec, Address, Env, IntoVal, String, Vec};
use stellar_accounts::policies::spending_limit as sl;
use stellar_accounts::smart_account::{ContextRule, ContextRuleType, Signer};

#[contract]
pub struct P;
#[contractimpl]
impl P {
    pub fn install(e: Env, p: sl::SpendingLimitAccountParams, r: ContextRule, a: Address) { sl::install(&e, &p, &r, &a) }
    pub fn can_enforce(e: Env, c: Context, s: Vec<Signer>, r: ContextRule, a: Address) -> bool { sl::can_enforce(&e, &c, &s, &r, &a) }
    pub fn enforce(e: Env, c: Context, s: Vec<Signer>, r: ContextRule, a: Address) { sl::enforce(&e, &c, &s, &r, &a) }
    pub fn data(e: Env, id: u32, a: Address) -> sl::SpendingLimitData { sl::get_spending_limit_data(&e, id, &a) }
}

#[test]
#[ignore]
fn negative_amount_must_not_raise_the_budget() {
    let e = Env::default();
    e.ledger().with_mut(|l| l.sequence_number = 1000);
    let id = e.register(P, ());
    let p = PClient::new(&e, &id);
    let acct = Address::generate(&e);
    let signer = Signer::Delegated(Address::generate(&e));
    let rule = ContextRule { id: 1, context_type: ContextRuleType::Default, name: String::from_str(&e, "r"), signers: vec![&e, signer.clone()], policies: vec![&e, id.clone()], valid_until: None };
    e.mock_all_auths();
    p.install(&sl::SpendingLimitAccountParams { spending_limit: 1000, period_ledgers: 100 }, &rule, &acct);
    let other = Address::generate(&e);
    let tr = |contract: &Address, amount: i128| Context::Contract(ContractContext { contract: contract.clone(), fn_name: symbol_short!("transfer"), args: vec![&e, acct.clone().into_val(&e), other.clone().into_val(&e), amount.into_val(&e)] });
    let evil = Address::generate(&e);
    let token = Address::generate(&e);
    let signers = vec![&e, signer];
    // a 1500 transfer is over the 1000 limit
    assert!(!p.can_enforce(&tr(&token, 1500), &signers, &rule, &acct));
    // "transfer" of -500 on some other contract: must be refused (today: accepted and booked as -500)
    assert!(!p.can_enforce(&tr(&evil, -500), &signers, &rule, &acct), "can_enforce accepts a negative amount");
    assert!(p.try_enforce(&tr(&evil, -500), &signers, &rule, &acct).is_err(), "enforce accepts a negative amount");
    // (today the same 1500 transfer then passes inside the same window: history [(-500, 1000), (1500, 1000)], cache 1000)
    assert!(!p.can_enforce(&tr(&token, 1500), &signers, &rule, &acct));
}
