use crate::{model, Arb, Env, Flat};

/// A symbol is the tagged 56-bit FNV hash of its text (computed without loops).
#[derive(Clone, Copy, Debug, PartialEq, Eq, PartialOrd, Ord, Hash)]
pub struct Symbol {
    pub w: u64,
}
macro_rules! step {
    ($h:ident, $b:ident, $($i:expr),*) => { $( if $i < $b.len() { $h ^= $b[$i] as u64; $h = $h.wrapping_mul(0x100000001b3); } )* };
}
pub const fn fnv56(s: &str) -> u64 {
    let b = s.as_bytes();
    let mut h: u64 = 0xcbf29ce484222325;
    step!(h, b, 0, 1, 2, 3, 4, 5, 6, 7, 8, 9, 10, 11, 12, 13, 14, 15, 16, 17, 18, 19, 20, 21, 22, 23, 24, 25, 26, 27, 28, 29, 30, 31);
    h & ((1u64 << 56) - 1)
}
impl Symbol {
    pub const fn from_word(w: u64) -> Self {
        Symbol { w }
    }
    pub const fn new(_e: &Env, s: &str) -> Self {
        Symbol { w: (model::TAG_SYM << 56) | fnv56(s) }
    }
    pub const fn short(s: &str) -> Self {
        Symbol { w: (model::TAG_SYM << 56) | fnv56(s) }
    }
    pub const fn of(s: &str) -> u64 {
        (model::TAG_SYM << 56) | fnv56(s)
    }
}
impl Flat for Symbol {
    const W: usize = 1;
    const TY: u64 = model::TY_SYMBOL;
    #[inline(always)]
    fn put(&self, out: &mut [u64]) {
        out[0] = self.w;
    }
    #[inline(always)]
    fn unflat(inp: &[u64]) -> Self {
        if inp[0] >> 56 != model::TAG_SYM {
            model::trap_conversion()
        }
        Symbol { w: inp[0] }
    }
}
impl Arb for Symbol {
    fn arb() -> Self {
        Symbol { w: (model::TAG_SYM << 56) | (model::arb_u64() & ((1u64 << 56) - 1)) }
    }
}
