use crate::model::{self, BYTES_CAP};
use crate::{Arb, Env, Flat};

/// loop over `0..$n` in steps of 8 with the body unrolled (keeps loop trip counts small for the
/// bounded model checker; `$n` is always a constant)
macro_rules! for8 {
    ($i:ident, $n:expr, $body:block) => {{
        let mut __c = 0usize;
        while __c < $n {
            { let $i = __c; if $i < $n $body }
            { let $i = __c + 1; if $i < $n $body }
            { let $i = __c + 2; if $i < $n $body }
            { let $i = __c + 3; if $i < $n $body }
            { let $i = __c + 4; if $i < $n $body }
            { let $i = __c + 5; if $i < $n $body }
            { let $i = __c + 6; if $i < $n $body }
            { let $i = __c + 7; if $i < $n $body }
            __c += 8;
        }
    }};
}

const BW: usize = BYTES_CAP / 8;

/// Inline bounded byte string; bytes at positions >= len are zero (canonical form).
#[derive(Clone, Debug)]
pub struct Bytes {
    len: u32,
    b: [u8; BYTES_CAP],
}
impl Bytes {
    pub fn new(_e: &Env) -> Self {
        Bytes { len: 0, b: [0; BYTES_CAP] }
    }
    pub fn env(&self) -> &Env {
        &Env
    }
    pub fn from_array<const N: usize>(e: &Env, a: &[u8; N]) -> Self {
        let mut r = Bytes::new(e);
        if N > BYTES_CAP {
            model::overflow()
        }
        for8!(i, N, { r.b[i] = a[i]; });
        r.len = N as u32;
        r
    }
    pub fn from_slice(e: &Env, a: &[u8]) -> Self {
        let mut r = Bytes::new(e);
        if a.len() > BYTES_CAP {
            model::overflow()
        }
        for8!(i, BYTES_CAP, { if i < a.len() { r.b[i] = a[i]; } });
        r.len = a.len() as u32;
        r
    }
    #[inline(always)]
    pub fn len(&self) -> u32 {
        self.len
    }
    #[inline(always)]
    pub fn is_empty(&self) -> bool {
        self.len == 0
    }
    pub fn get(&self, i: u32) -> Option<u8> {
        if i >= self.len {
            return None;
        }
        let mut r = 0u8;
        for8!(k, BYTES_CAP, { if k as u32 == i { r = self.b[k]; } });
        Some(r)
    }
    pub fn get_unchecked(&self, i: u32) -> u8 {
        match self.get(i) {
            Some(x) => x,
            None => model::trap(0xffff_0012),
        }
    }
    pub fn first(&self) -> Option<u8> {
        self.get(0)
    }
    pub fn last(&self) -> Option<u8> {
        if self.len == 0 { None } else { self.get(self.len - 1) }
    }
    pub fn set(&mut self, i: u32, v: u8) {
        if i >= self.len {
            model::trap(0xffff_0012)
        }
        for8!(k, BYTES_CAP, { if k as u32 == i { self.b[k] = v; } });
    }
    pub fn push_back(&mut self, v: u8) {
        if self.len as usize >= BYTES_CAP {
            model::overflow()
        }
        let l = self.len;
        for8!(k, BYTES_CAP, { if k as u32 == l { self.b[k] = v; } });
        self.len += 1;
    }
    /// append `n` bytes read through `src(j)`; when `self.len` is concrete all indices are
    fn append_with(&mut self, n: usize, src: &[u8]) {
        if self.len as usize + n > BYTES_CAP {
            model::overflow()
        }
        let l = self.len as usize;
        for8!(j, BYTES_CAP, {
            if j < n {
                let v = src[j];
                // target position l + j
                let t = l + j;
                for8!(k, BYTES_CAP, { if k == t { self.b[k] = v; } });
            }
        });
        self.len += n as u32;
    }
    /// feature `bytesdirect`: index the target directly (`b[l + j]`). Same result; linear instead of
    /// quadratic symbolic-execution cost when all lengths are concrete (e.g. hashing fixed-width
    /// serialisations). With SYMBOLIC lengths it produces symbolic array indices (slow in the solver),
    /// so only profiles whose byte-string lengths are concrete should enable it.
    #[cfg(feature = "bytesdirect")]
    pub fn append(&mut self, o: &Bytes) {
        let n = o.len as usize;
        if self.len as usize + n > BYTES_CAP {
            model::overflow()
        }
        let l = self.len as usize;
        // n <= BYTES_CAP - l: at most BYTES_CAP / 8 trips
        for8!(j, n, {
            self.b[l + j] = o.b[j];
        });
        self.len += n as u32;
    }
    #[cfg(not(feature = "bytesdirect"))]
    pub fn append(&mut self, o: &Bytes) {
        let n = o.len as usize;
        if self.len as usize + n > BYTES_CAP {
            model::overflow()
        }
        let l = self.len as usize;
        // target byte k takes o.b[k - l] for l <= k < l + n
        let mut nb = self.b;
        for8!(k, BYTES_CAP, {
            if k >= l && k < l + n {
                let s = k - l;
                let mut v = 0u8;
                for8!(q, BYTES_CAP, { if q == s { v = o.b[q]; } });
                nb[k] = v;
            }
        });
        self.b = nb;
        self.len += n as u32;
    }
    pub fn extend_from_array<const N: usize>(&mut self, a: &[u8; N]) {
        let o = Bytes::from_array(&Env, a);
        self.append(&o)
    }
    pub fn extend_from_slice(&mut self, a: &[u8]) {
        let o = Bytes::from_slice(&Env, a);
        self.append(&o)
    }
    pub fn slice(&self, r: impl core::ops::RangeBounds<u32>) -> Bytes {
        use core::ops::Bound::*;
        let lo = match r.start_bound() {
            Included(x) => *x,
            Excluded(x) => *x + 1,
            Unbounded => 0,
        };
        let hi = match r.end_bound() {
            Included(x) => *x + 1,
            Excluded(x) => *x,
            Unbounded => self.len,
        };
        if lo > hi || hi > self.len {
            model::trap(0xffff_0012)
        }
        let mut out = Bytes::new(&Env);
        let n = (hi - lo) as usize;
        let lo = lo as usize;
        // feature `slicedirect`: read the source directly (`b[k + lo]`). Same result; linear instead of
        // quadratic symbolic-execution cost when the lower bound is concrete (it is a literal in all
        // library uses); a symbolic lower bound would give symbolic array indices.
        #[cfg(feature = "slicedirect")]
        {
            for8!(k, BYTES_CAP, {
                if k < n {
                    out.b[k] = self.b[k + lo];
                }
            });
        }
        #[cfg(not(feature = "slicedirect"))]
        {
            for8!(k, BYTES_CAP, {
                if k < n {
                    let s = k + lo;
                    let mut v = 0u8;
                    for8!(q, BYTES_CAP, { if q == s { v = self.b[q]; } });
                    out.b[k] = v;
                }
            });
        }
        out.len = n as u32;
        out
    }
    pub fn copy_into_slice(&self, dst: &mut [u8]) {
        if dst.len() != self.len as usize {
            model::trap(0xffff_0012)
        }
        for8!(k, BYTES_CAP, { if k < dst.len() { dst[k] = self.b[k]; } });
    }
    pub fn to_buffer<const B: usize>(&self) -> BytesBuffer<B> {
        if self.len as usize > B {
            model::trap(0xffff_0012)
        }
        let mut buf = [0u8; B];
        for8!(k, BYTES_CAP, { if k < B && (k as u32) < self.len { buf[k] = self.b[k]; } });
        BytesBuffer { buf, len: self.len as usize }
    }
    pub fn iter(&self) -> BytesIter {
        BytesIter { b: self.clone(), i: 0 }
    }
    pub fn raw(&self) -> &[u8; BYTES_CAP] {
        &self.b
    }
    /// big-endian packed words of the content (zero padded) for the hash oracle
    pub fn words(&self) -> [u64; BW] {
        let mut w = [0u64; BW];
        let mut c = 0;
        while c < BW {
            let mut x = 0u64;
            let mut j = 0;
            while j < 8 {
                x = (x << 8) | self.b[c * 8 + j] as u64;
                j += 1;
            }
            w[c] = x;
            c += 1;
        }
        w
    }
}
pub struct BytesBuffer<const B: usize> {
    buf: [u8; B],
    len: usize,
}
impl<const B: usize> BytesBuffer<B> {
    pub fn as_slice(&self) -> &[u8] {
        &self.buf[..self.len]
    }
    pub fn as_mut_slice(&mut self) -> &mut [u8] {
        &mut self.buf[..self.len]
    }
}
pub struct BytesIter {
    b: Bytes,
    i: u32,
}
impl Iterator for BytesIter {
    type Item = u8;
    fn next(&mut self) -> Option<u8> {
        let k = self.i;
        if (k as usize) < BYTES_CAP + 1 {
            self.i += 1;
        }
        if k as usize >= BYTES_CAP {
            return None;
        }
        self.b.get(k)
    }
}
impl PartialEq for Bytes {
    fn eq(&self, o: &Self) -> bool {
        let mut r = self.len == o.len;
        for8!(k, BYTES_CAP, { r &= self.b[k] == o.b[k]; });
        r
    }
}
impl Eq for Bytes {}
impl PartialOrd for Bytes {
    fn partial_cmp(&self, o: &Self) -> Option<core::cmp::Ordering> {
        Some(self.cmp(o))
    }
}
impl Ord for Bytes {
    fn cmp(&self, o: &Self) -> core::cmp::Ordering {
        use core::cmp::Ordering::*;
        let mut r = Equal;
        for8!(k, BYTES_CAP, {
            if r == Equal && ((k as u32) < self.len || (k as u32) < o.len) {
                if (k as u32) >= self.len { r = Less; }
                else if (k as u32) >= o.len { r = Greater; }
                else if self.b[k] < o.b[k] { r = Less; }
                else if self.b[k] > o.b[k] { r = Greater; }
            }
        });
        r
    }
}
impl Flat for Bytes {
    const W: usize = 1 + BW;
    const TY: u64 = model::TY_BYTES;
    fn put(&self, out: &mut [u64]) {
        out[0] = model::tag_u32(self.len);
        let w = self.words();
        let mut c = 0;
        while c < BW {
            out[1 + c] = w[c];
            c += 1;
        }
    }
    fn unflat(inp: &[u64]) -> Self {
        let len = model::untag_u32(inp[0]);
        if len as usize > BYTES_CAP {
            model::trap_conversion()
        }
        let mut b = [0u8; BYTES_CAP];
        let mut c = 0;
        while c < BW {
            let x = inp[1 + c];
            let mut j = 0;
            while j < 8 {
                b[c * 8 + j] = (x >> (8 * (7 - j))) as u8;
                j += 1;
            }
            c += 1;
        }
        Bytes { len, b }
    }
}
impl Arb for Bytes {
    fn arb() -> Self {
        let len = model::arb_below(BYTES_CAP as u32 + 1);
        let mut b = [0u8; BYTES_CAP];
        for8!(k, BYTES_CAP, { if (k as u32) < len { b[k] = model::arb_u64() as u8; } });
        Bytes { len, b }
    }
}

/// Fixed-size byte array.
#[derive(Clone, Debug)]
pub struct BytesN<const N: usize> {
    b: [u8; N],
}
impl<const N: usize> BytesN<N> {
    pub fn from_array(_e: &Env, a: &[u8; N]) -> Self {
        BytesN { b: *a }
    }
    pub fn to_array(&self) -> [u8; N] {
        self.b
    }
    pub fn env(&self) -> &Env {
        &Env
    }
    pub fn len(&self) -> u32 {
        N as u32
    }
    pub fn is_empty(&self) -> bool {
        N == 0
    }
    pub fn get(&self, i: u32) -> Option<u8> {
        if i as usize >= N {
            return None;
        }
        let mut r = 0u8;
        for8!(k, N, { if k as u32 == i { r = self.b[k]; } });
        Some(r)
    }
    pub fn copy_into_slice(&self, dst: &mut [u8; N]) {
        *dst = self.b;
    }
    pub fn as_bytes(&self) -> Bytes {
        Bytes::from_array(&Env, &self.b)
    }
    pub fn iter(&self) -> BytesIter {
        self.as_bytes().iter()
    }
}
impl<const N: usize> PartialEq for BytesN<N> {
    fn eq(&self, o: &Self) -> bool {
        let mut r = true;
        for8!(k, N, { r &= self.b[k] == o.b[k]; });
        r
    }
}
impl<const N: usize> Eq for BytesN<N> {}
impl<const N: usize> PartialOrd for BytesN<N> {
    fn partial_cmp(&self, o: &Self) -> Option<core::cmp::Ordering> {
        Some(self.cmp(o))
    }
}
impl<const N: usize> Ord for BytesN<N> {
    fn cmp(&self, o: &Self) -> core::cmp::Ordering {
        use core::cmp::Ordering::*;
        let mut r = Equal;
        for8!(k, N, {
            if r == Equal {
                if self.b[k] < o.b[k] { r = Less; } else if self.b[k] > o.b[k] { r = Greater; }
            }
        });
        r
    }
}
impl<const N: usize> From<BytesN<N>> for Bytes {
    fn from(x: BytesN<N>) -> Bytes {
        x.as_bytes()
    }
}
impl<const N: usize> From<&BytesN<N>> for Bytes {
    fn from(x: &BytesN<N>) -> Bytes {
        x.as_bytes()
    }
}
impl<const N: usize> From<BytesN<N>> for [u8; N] {
    fn from(x: BytesN<N>) -> [u8; N] {
        x.b
    }
}
impl<const N: usize> TryFrom<Bytes> for BytesN<N> {
    type Error = crate::ConversionError;
    fn try_from(x: Bytes) -> Result<Self, Self::Error> {
        (&x).try_into()
    }
}
impl<const N: usize> TryFrom<&Bytes> for BytesN<N> {
    type Error = crate::ConversionError;
    fn try_from(x: &Bytes) -> Result<Self, Self::Error> {
        if x.len() as usize != N {
            return Err(crate::ConversionError);
        }
        if N > BYTES_CAP {
            model::overflow()
        }
        let mut b = [0u8; N];
        for8!(k, N, { b[k] = x.b[k]; });
        Ok(BytesN { b })
    }
}
impl<const N: usize> Flat for BytesN<N> {
    const W: usize = (N + 7) / 8;
    const TY: u64 = model::TY_BYTES;
    fn put(&self, out: &mut [u64]) {
        let mut c = 0;
        while c < (N + 7) / 8 {
            let mut x = 0u64;
            let mut j = 0;
            while j < 8 {
                let i = c * 8 + j;
                x = (x << 8) | (if i < N { self.b[i] } else { 0 }) as u64;
                j += 1;
            }
            out[c] = x;
            c += 1;
        }
    }
    fn unflat(inp: &[u64]) -> Self {
        let mut b = [0u8; N];
        let mut c = 0;
        while c < (N + 7) / 8 {
            let x = inp[c];
            let mut j = 0;
            while j < 8 {
                let i = c * 8 + j;
                if i < N {
                    b[i] = (x >> (8 * (7 - j))) as u8;
                }
                j += 1;
            }
            c += 1;
        }
        BytesN { b }
    }
}
impl<const N: usize> Arb for BytesN<N> {
    fn arb() -> Self {
        let mut w = [0u64; 16];
        let mut c = 0;
        while c < (N + 7) / 8 {
            w[c] = model::arb_u64();
            c += 1;
        }
        <Self as Flat>::unflat(&w[..(N + 7) / 8])
    }
}

/// Soroban `String`: an inline bounded byte string.
#[derive(Clone, Debug, PartialEq, Eq, PartialOrd, Ord)]
pub struct String {
    inner: Bytes,
}
impl String {
    pub fn from_str(e: &Env, s: &str) -> Self {
        String { inner: Bytes::from_slice(e, s.as_bytes()) }
    }
    pub fn from_bytes(e: &Env, b: &[u8]) -> Self {
        String { inner: Bytes::from_slice(e, b) }
    }
    pub fn len(&self) -> u32 {
        self.inner.len()
    }
    pub fn is_empty(&self) -> bool {
        self.inner.is_empty()
    }
    pub fn copy_into_slice(&self, dst: &mut [u8]) {
        self.inner.copy_into_slice(dst)
    }
    pub fn to_bytes(&self) -> Bytes {
        self.inner.clone()
    }
    pub fn env(&self) -> &Env {
        &Env
    }
}
impl From<Bytes> for String {
    fn from(b: Bytes) -> Self {
        String { inner: b }
    }
}
impl From<String> for Bytes {
    fn from(s: String) -> Self {
        s.inner
    }
}
impl From<&String> for Bytes {
    fn from(s: &String) -> Self {
        s.inner.clone()
    }
}
impl Flat for String {
    const W: usize = <Bytes as Flat>::W;
    const TY: u64 = model::TY_STRING;
    fn put(&self, out: &mut [u64]) {
        self.inner.put(out)
    }
    fn unflat(inp: &[u64]) -> Self {
        String { inner: Bytes::unflat(inp) }
    }
}
impl Arb for String {
    fn arb() -> Self {
        String { inner: Bytes::arb() }
    }
}
