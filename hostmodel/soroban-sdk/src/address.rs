use crate::{model, Arb, Bytes, Env, Flat, String, Val, Vec};

/// An address is an opaque id; ids below `model::NADDR` are the principals a harness reasons about.
#[derive(Clone, Debug, PartialEq, Eq, PartialOrd, Ord, Hash)]
pub struct Address {
    pub id: u32,
}

impl Address {
    pub const fn from_id(id: u32) -> Self {
        Address { id }
    }
    pub fn require_auth(&self) {
        model::require_auth(self)
    }
    pub fn require_auth_for_args(&self, args: Vec<Val>) {
        let mut a = model::ArgBuf::new();
        a.push(&args);
        model::require_auth_for_args(self, &a)
    }
    pub fn env(&self) -> Env {
        Env
    }
    pub fn to_xdr(self, e: &Env) -> Bytes {
        crate::xdr::ToXdr::to_xdr(self, e)
    }
    pub fn from_str(_e: &Env, _s: &str) -> Self {
        model::overflow()
    }
    pub fn from_string(_s: &String) -> Self {
        model::overflow()
    }
}
impl Flat for Address {
    const W: usize = 1;
    const TY: u64 = model::TY_ADDRESS;
    #[inline(always)]
    fn put(&self, out: &mut [u64]) {
        out[0] = (model::TAG_ADDR << 56) | self.id as u64;
    }
    #[inline(always)]
    fn unflat(inp: &[u64]) -> Self {
        if inp[0] >> 56 != model::TAG_ADDR {
            model::trap_conversion()
        }
        Address { id: inp[0] as u32 }
    }
}
impl Arb for Address {
    fn arb() -> Self {
        Address { id: model::arb_below(model::NADDR as u32) }
    }
}

#[derive(Clone, Debug, PartialEq, Eq)]
pub struct MuxedAddress {
    pub addr: Address,
    pub mux: Option<u64>,
}
impl MuxedAddress {
    pub fn address(&self) -> Address {
        self.addr.clone()
    }
    pub fn id(&self) -> Option<u64> {
        self.mux
    }
}
impl From<Address> for MuxedAddress {
    fn from(a: Address) -> Self {
        MuxedAddress { addr: a, mux: None }
    }
}
impl From<&Address> for MuxedAddress {
    fn from(a: &Address) -> Self {
        MuxedAddress { addr: a.clone(), mux: None }
    }
}
impl From<&MuxedAddress> for MuxedAddress {
    fn from(a: &MuxedAddress) -> Self {
        a.clone()
    }
}
impl Flat for MuxedAddress {
    const W: usize = 1 + <Option<u64> as Flat>::W;
    const TY: u64 = model::TY_ADDRESS;
    fn put(&self, out: &mut [u64]) {
        self.addr.put(&mut out[0..1]);
        self.mux.put(&mut out[1..3]);
    }
    fn unflat(inp: &[u64]) -> Self {
        MuxedAddress { addr: Address::unflat(&inp[0..1]), mux: Option::<u64>::unflat(&inp[1..3]) }
    }
}
impl Arb for MuxedAddress {
    fn arb() -> Self {
        MuxedAddress { addr: Address::arb(), mux: Option::<u64>::arb() }
    }
}
