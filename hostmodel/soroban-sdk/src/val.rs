use crate::model::{self, VALW};
use crate::{Arb, Env, Flat, Vec};

/// A host value as user code sees it: a type id plus at most `VALW` payload words.
#[derive(Clone, Copy, Debug, PartialEq, Eq)]
pub struct Val {
    pub ty: u64,
    pub w: [u64; VALW],
}
impl Val {
    pub const VOID: Val = Val { ty: model::TY_VOID, w: [0; VALW] };
    pub fn from_flat<T: Flat>(x: &T) -> Val {
        if T::TY == model::TY_VAL {
            let mut buf = [0u64; 1 + VALW];
            x.put(&mut buf[..]);
            let mut w = [0u64; VALW];
            let mut i = 0;
            while i < VALW {
                w[i] = buf[1 + i];
                i += 1;
            }
            return Val { ty: buf[0], w };
        }
        if T::W > VALW {
            // feature `valdigest`: a value wider than a Val's payload (e.g. a nested `Vec<Val>`) becomes
            // an opaque handle: the injective oracle's digest of its flat words (equal values <-> equal
            // Vals). It cannot be converted back (`to_flat` still reports a capacity overflow).
            #[cfg(feature = "valdigest")]
            {
                if T::W > model::HW {
                    model::overflow()
                }
                let mut buf = [0u64; model::HW];
                x.put(&mut buf[..T::W]);
                return Val { ty: T::TY, w: model::hash_oracle(3, T::W as u32, &buf) };
            }
            #[cfg(not(feature = "valdigest"))]
            model::overflow();
        }
        let mut w = [0u64; VALW];
        x.put(&mut w[..T::W]);
        Val { ty: T::TY, w }
    }
    pub fn to_flat<T: Flat>(&self) -> Result<T, ConversionError> {
        if T::TY == model::TY_VAL {
            let mut buf = [0u64; 1 + VALW];
            buf[0] = self.ty;
            let mut i = 0;
            while i < VALW {
                buf[1 + i] = self.w[i];
                i += 1;
            }
            return Ok(T::unflat(&buf[..]));
        }
        if self.ty != T::TY {
            return Err(ConversionError);
        }
        if T::W > VALW {
            model::overflow()
        }
        Ok(T::unflat(&self.w[..T::W]))
    }
    pub fn is_void(&self) -> bool {
        self.ty == model::TY_VOID
    }
}
impl Flat for Val {
    const W: usize = 1 + VALW;
    const TY: u64 = model::TY_VAL;
    fn put(&self, out: &mut [u64]) {
        out[0] = self.ty;
        let mut i = 0;
        while i < VALW {
            out[1 + i] = self.w[i];
            i += 1;
        }
    }
    fn unflat(inp: &[u64]) -> Self {
        let mut w = [0u64; VALW];
        let mut i = 0;
        while i < VALW {
            w[i] = inp[1 + i];
            i += 1;
        }
        Val { ty: inp[0], w }
    }
}
impl Arb for Val {
    fn arb() -> Self {
        let mut w = [0u64; VALW];
        let mut i = 0;
        while i < VALW {
            w[i] = model::arb_u64();
            i += 1;
        }
        Val { ty: model::arb_u64(), w }
    }
}

#[derive(Clone, Copy, Debug, PartialEq, Eq, PartialOrd, Ord)]
pub struct ConversionError;

/// contract error code (or a host error, code >= 0xffff_0000)
#[derive(Clone, Copy, Debug, PartialEq, Eq, PartialOrd, Ord)]
pub struct Error {
    code: u32,
}
impl Error {
    pub const fn from_contract_error(code: u32) -> Self {
        Error { code }
    }
    pub const fn code(&self) -> u32 {
        self.code
    }
    pub const fn get_code(&self) -> u32 {
        self.code
    }
}
impl From<ConversionError> for Error {
    fn from(_: ConversionError) -> Self {
        Error { code: 0xffff_0001 }
    }
}
impl From<core::convert::Infallible> for Error {
    fn from(_: core::convert::Infallible) -> Self {
        Error { code: 0xffff_0000 }
    }
}
impl Flat for Error {
    const W: usize = 1;
    const TY: u64 = model::TY_ERROR;
    fn put(&self, out: &mut [u64]) {
        out[0] = model::tag_u32(self.code);
    }
    fn unflat(inp: &[u64]) -> Self {
        Error { code: model::untag_u32(inp[0]) }
    }
}

#[derive(Clone, Copy, Debug, PartialEq, Eq, PartialOrd, Ord)]
pub enum InvokeError {
    Abort,
    Contract(u32),
}
impl From<Error> for InvokeError {
    fn from(e: Error) -> Self {
        InvokeError::Contract(e.code())
    }
}

pub trait IntoVal<E, T> {
    fn into_val(&self, e: &E) -> T;
    #[doc(hidden)]
    const __W: usize = usize::MAX;
    #[doc(hidden)]
    fn __put(&self, _out: &mut [u64]) {
        model::overflow()
    }
}
pub trait TryFromVal<E, V>: Sized {
    type Error;
    fn try_from_val(e: &E, v: &V) -> Result<Self, Self::Error>;
    #[doc(hidden)]
    const __W: usize = usize::MAX;
    #[doc(hidden)]
    fn __take(_inp: &[u64]) -> Self {
        model::overflow()
    }
}
pub trait FromVal<E, V>: Sized {
    fn from_val(e: &E, v: &V) -> Self;
}
pub trait TryIntoVal<E, T> {
    type Error;
    fn try_into_val(&self, e: &E) -> Result<T, Self::Error>;
}

impl<T: Flat> IntoVal<Env, Val> for T {
    fn into_val(&self, _e: &Env) -> Val {
        Val::from_flat(self)
    }
    const __W: usize = T::W;
    fn __put(&self, out: &mut [u64]) {
        self.put(out)
    }
}
impl<T: Flat> TryFromVal<Env, Val> for T {
    type Error = ConversionError;
    fn try_from_val(_e: &Env, v: &Val) -> Result<Self, ConversionError> {
        v.to_flat::<T>()
    }
    const __W: usize = T::W;
    fn __take(inp: &[u64]) -> Self {
        T::unflat(inp)
    }
}
impl<T: TryFromVal<Env, Val>> FromVal<Env, Val> for T {
    fn from_val(e: &Env, v: &Val) -> Self {
        match T::try_from_val(e, v) {
            Ok(x) => x,
            Err(_) => model::trap_conversion(),
        }
    }
}
impl<T: IntoVal<Env, Val>> TryIntoVal<Env, Val> for T {
    type Error = ConversionError;
    fn try_into_val(&self, e: &Env) -> Result<Val, ConversionError> {
        Ok(self.into_val(e))
    }
}

// tuples -> argument vectors
macro_rules! tuple_args {
    ($($n:ident : $i:tt),*) => {
        impl<$($n: IntoVal<Env, Val>),*> IntoVal<Env, Vec<Val>> for ($($n,)*) {
            #[allow(unused_assignments, unused_mut, unused_variables)]
            fn into_val(&self, e: &Env) -> Vec<Val> {
                // feature `valdigest`: an argument tuple with more elements than `CAP` becomes a
                // ONE-element vector holding the injective oracle's digest of all element Vals
                // (only equality of argument lists is observable: auth / call logs)
                #[cfg(feature = "valdigest")]
                {
                    let n: usize = <[usize]>::len(&[$($i),*]);
                    if n > model::CAP {
                        if n * (1 + VALW) > model::HW {
                            model::overflow()
                        }
                        let mut buf = [0u64; model::HW];
                        let mut o = 0usize;
                        $(
                            let x: Val = self.$i.into_val(e);
                            <Val as Flat>::put(&x, &mut buf[o..o + 1 + VALW]);
                            o += 1 + VALW;
                        )*
                        let mut v = Vec::new(e);
                        v.push_back(Val { ty: model::TY_TUPLE, w: model::hash_oracle(4, n as u32, &buf) });
                        return v;
                    }
                }
                #[allow(unused_mut)]
                let mut v = Vec::new(e);
                $( v.push_back(self.$i.into_val(e)); )*
                v
            }
        }
    };
}
tuple_args!();
tuple_args!(A:0);
tuple_args!(A:0, B:1);
tuple_args!(A:0, B:1, C:2);
tuple_args!(A:0, B:1, C:2, D:3);
tuple_args!(A:0, B:1, C:2, D:3, E:4);
tuple_args!(A:0, B:1, C:2, D:3, E:4, F:5);
tuple_args!(A:0, B:1, C:2, D:3, E:4, F:5, G:6);
impl IntoVal<Env, Vec<Val>> for Vec<Val> {
    fn into_val(&self, _e: &Env) -> Vec<Val> {
        self.clone()
    }
}

macro_rules! val_from {
    ($($t:ty),*) => { $(
        impl From<$t> for Val { fn from(x: $t) -> Val { Val::from_flat(&x) } }
        impl From<&$t> for Val { fn from(x: &$t) -> Val { Val::from_flat(x) } }
    )* };
}
val_from!(u32, i32, u64, i64, u128, i128, bool, (), crate::Address, crate::Symbol, Error);
