use crate::{contracttype, Address, BytesN, Env, Symbol, Val, Vec};

#[contracttype]
#[derive(Clone, Debug, PartialEq, Eq)]
pub enum Context {
    Contract(ContractContext),
    CreateContractHostFn(CreateContractHostFnContext),
    CreateContractWithCtorHostFn(CreateContractWithConstructorHostFnContext),
}
#[contracttype]
#[derive(Clone, Debug, PartialEq, Eq)]
pub struct ContractContext {
    pub contract: Address,
    pub fn_name: Symbol,
    pub args: Vec<Val>,
}
#[contracttype]
#[derive(Clone, Debug, PartialEq, Eq)]
pub struct CreateContractHostFnContext {
    pub executable: ContractExecutable,
    pub salt: BytesN<32>,
}
#[contracttype]
#[derive(Clone, Debug, PartialEq, Eq)]
pub struct CreateContractWithConstructorHostFnContext {
    pub executable: ContractExecutable,
    pub salt: BytesN<32>,
    pub constructor_args: Vec<Val>,
}
#[contracttype]
#[derive(Clone, Debug, PartialEq, Eq)]
pub enum ContractExecutable {
    Wasm(BytesN<32>),
}
#[derive(Clone, Debug, PartialEq, Eq)]
pub enum InvokerContractAuthEntry {
    Contract(SubContractInvocation),
}
#[derive(Clone, Debug, PartialEq, Eq)]
pub struct SubContractInvocation {
    pub context: ContractContext,
    /// nested sub-invocations are not modelled (the recursion is cut here)
    pub sub_invocations: Vec<()>,
}

pub trait CustomAccountInterface {
    type Signature;
    type Error: Into<crate::Error>;
    fn __check_auth(
        env: Env,
        signature_payload: crate::crypto::Hash<32>,
        signatures: Self::Signature,
        auth_contexts: Vec<Context>,
    ) -> Result<(), Self::Error>;
}
