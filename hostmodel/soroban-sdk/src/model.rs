//! The world of the host model: storage slots, ledger, authorization, event log,
//! foreign-call log, hash oracle. Heap-free, dyn-free, recursion-free; every array is
//! accessed at concrete indices inside scanning loops (see /verif/DESIGN.md §1, §2).
#![allow(static_mut_refs)]

use crate::{Address, Flat};

// ---------------------------------------------------------------- capacities
#[cfg(feature = "ns24")]
pub const NS: usize = 24;
#[cfg(all(feature = "ns16", not(feature = "ns24")))]
pub const NS: usize = 16;
#[cfg(not(any(feature = "ns16", feature = "ns24")))]
pub const NS: usize = 12;

/// key words
#[cfg(feature = "kw32")]
pub const KW: usize = 32;
#[cfg(not(feature = "kw32"))]
pub const KW: usize = 6;

#[cfg(feature = "vw128")]
pub const VW: usize = 128;
#[cfg(all(feature = "vw96", not(feature = "vw128")))]
pub const VW: usize = 96;
#[cfg(all(feature = "vw48", not(any(feature = "vw96", feature = "vw128"))))]
pub const VW: usize = 48;
#[cfg(all(feature = "vw24", not(any(feature = "vw48", feature = "vw96", feature = "vw128"))))]
pub const VW: usize = 24;
/// vw4: for families whose stored values are at most 4 words and whose slot keys are symbolic (every write is a
/// multiplexer over all slots: the cost is proportional to VW)
#[cfg(all(feature = "vw4", not(any(feature = "vw24", feature = "vw48", feature = "vw96", feature = "vw128"))))]
pub const VW: usize = 4;
#[cfg(not(any(feature = "vw4", feature = "vw24", feature = "vw48", feature = "vw96", feature = "vw128")))]
pub const VW: usize = 12;

/// capacity of Vec / Map (cap21 = one more than the documented maxima of 20 of the RWA registries, cap100 = one
/// full token-binder bucket; C20)
#[cfg(feature = "cap100")]
pub const CAP: usize = 100;
#[cfg(all(feature = "cap21", not(feature = "cap100")))]
pub const CAP: usize = 21;
#[cfg(all(feature = "cap8", not(any(feature = "cap21", feature = "cap100"))))]
pub const CAP: usize = 8;
#[cfg(all(feature = "cap3", not(any(feature = "cap8", feature = "cap21", feature = "cap100"))))]
pub const CAP: usize = 3;
#[cfg(all(feature = "cap2", not(any(feature = "cap3", feature = "cap8", feature = "cap21", feature = "cap100"))))]
pub const CAP: usize = 2;
#[cfg(not(any(feature = "cap2", feature = "cap3", feature = "cap8", feature = "cap21", feature = "cap100")))]
pub const CAP: usize = 4;

/// capacity (bytes) of Bytes / String; multiple of 8
#[cfg(feature = "bytes192")]
pub const BYTES_CAP: usize = 192;
#[cfg(all(feature = "bytes64", not(feature = "bytes192")))]
pub const BYTES_CAP: usize = 64;
#[cfg(all(feature = "bytes32", not(any(feature = "bytes64", feature = "bytes192"))))]
pub const BYTES_CAP: usize = 32;
#[cfg(not(any(feature = "bytes32", feature = "bytes64", feature = "bytes192")))]
pub const BYTES_CAP: usize = 16;

/// number of distinct addresses the model knows (ids 0..NADDR)
pub const NADDR: usize = 5;
/// event log
#[cfg(feature = "ne8")]
pub const NE: usize = 8;
#[cfg(not(feature = "ne8"))]
pub const NE: usize = 4;
/// ew160: the smart account's ContextRuleAdded event with vectors of capacity 21 (139 words; C20 limit harnesses)
#[cfg(feature = "ew160")]
pub const EW: usize = 160;
#[cfg(all(feature = "ew64", not(feature = "ew160")))]
pub const EW: usize = 64;
#[cfg(all(feature = "ew32", not(any(feature = "ew64", feature = "ew160"))))]
pub const EW: usize = 32;
#[cfg(not(any(feature = "ew32", feature = "ew64", feature = "ew160")))]
pub const EW: usize = 10;
/// foreign-call log
#[cfg(feature = "nc12")]
pub const NC: usize = 12;
#[cfg(not(feature = "nc12"))]
pub const NC: usize = 8;
#[cfg(feature = "aw96")]
pub const AW: usize = 96;
#[cfg(all(feature = "aw40", not(feature = "aw96")))]
pub const AW: usize = 40;
#[cfg(not(any(feature = "aw40", feature = "aw96")))]
pub const AW: usize = 16;
/// auth log
pub const NAUTH: usize = 6;
/// payload words of a Val
pub const VALW: usize = 4;
/// hash oracle table
#[cfg(feature = "nh24")]
pub const NH: usize = 24;
#[cfg(all(feature = "nh12", not(feature = "nh24")))]
pub const NH: usize = 12;
#[cfg(not(any(feature = "nh12", feature = "nh24")))]
pub const NH: usize = 6;
#[cfg(feature = "hw32")]
pub const HW: usize = 32;
#[cfg(not(feature = "hw32"))]
pub const HW: usize = 10;

// ---------------------------------------------------------------- tags
pub const TAG_U32: u64 = 1;
pub const TAG_ADDR: u64 = 2;
pub const TAG_SYM: u64 = 3;
pub const TAG_BOOL: u64 = 4;
pub const TAG_VOID: u64 = 5;

pub const TY_VOID: u64 = 100;
pub const TY_BOOL: u64 = 101;
pub const TY_U32: u64 = 102;
pub const TY_I32: u64 = 103;
pub const TY_U64: u64 = 104;
pub const TY_I64: u64 = 105;
pub const TY_U128: u64 = 106;
pub const TY_I128: u64 = 107;
pub const TY_ADDRESS: u64 = 108;
pub const TY_SYMBOL: u64 = 109;
pub const TY_BYTES: u64 = 110;
pub const TY_STRING: u64 = 111;
pub const TY_VEC: u64 = 112;
pub const TY_MAP: u64 = 113;
pub const TY_ERROR: u64 = 114;
pub const TY_VAL: u64 = 115;
pub const TY_OPTION: u64 = 116;
pub const TY_TUPLE: u64 = 117;
pub const TY_I256: u64 = 118;
pub const TY_U256: u64 = 119;

#[inline(always)]
pub const fn tag_u32(x: u32) -> u64 {
    (TAG_U32 << 56) | x as u64
}
#[inline(always)]
pub fn untag_u32(w: u64) -> u32 {
    if (w >> 56) != TAG_U32 {
        trap_conversion()
    }
    w as u32
}
pub const fn max_usize(a: usize, b: usize) -> usize {
    if a > b {
        a
    } else {
        b
    }
}

// ---------------------------------------------------------------- records
#[derive(Clone, Copy)]
pub struct Slot {
    pub claimed: bool,
    pub present: bool,
    /// 0 persistent, 1 temporary, 2 instance
    pub dur: u8,
    pub key: [u64; KW],
    pub val: [u64; VW],
    pub live_until: u32,
}
pub const EMPTY_SLOT: Slot =
    Slot { claimed: false, present: false, dur: 0, key: [0; KW], val: [0; VW], live_until: 0 };

#[derive(Clone, Copy)]
pub struct EventRec {
    pub id: u64,
    pub w: [u64; EW],
}
#[derive(Clone, Copy)]
pub struct ArgBuf {
    pub n: u32,
    pub w: [u64; AW],
}
impl ArgBuf {
    pub const fn new() -> Self {
        ArgBuf { n: 0, w: [0; AW] }
    }
    /// append the flat words of `x` at the current (concrete along every path) offset
    pub fn push<T: Flat>(&mut self, x: &T) {
        let o = self.n as usize;
        if o + T::W > AW {
            overflow()
        }
        x.put(&mut self.w[o..o + T::W]);
        self.n += T::W as u32;
    }
    pub fn eq(&self, o: &ArgBuf) -> bool {
        if self.n != o.n {
            return false;
        }
        let mut i = 0;
        while i < AW {
            if self.w[i] != o.w[i] {
                return false;
            }
            i += 1;
        }
        true
    }
}
#[derive(Clone, Copy)]
pub struct CallRec {
    pub callee: u32,
    pub func: u64,
    pub args: ArgBuf,
    pub failed: bool,
    pub ret: [u64; VW],
}
#[derive(Clone, Copy)]
pub struct AuthRec {
    pub addr: u32,
    pub with_args: bool,
    pub args: ArgBuf,
}
#[derive(Clone, Copy)]
pub struct HashRec {
    pub kind: u8,
    pub len: u32,
    pub inp: [u64; HW],
    pub out: [u64; 4],
}

pub struct World {
    pub slots: [Slot; NS],
    pub seq: u32,
    pub timestamp: u64,
    pub max_ttl: u32,
    pub min_temp_ttl: u32,
    pub min_pers_ttl: u32,
    pub network_id: [u64; 4],
    /// id of the currently executing contract
    pub contract: u32,
    /// symbolic set of addresses that authorize the current invocation (plain require_auth)
    pub authorized: [bool; NADDR],
    /// per address: the one argument tuple it authorizes for require_auth_for_args
    pub auth_args_set: [bool; NADDR],
    pub auth_args: [ArgBuf; NADDR],
    pub auth_log: [AuthRec; NAUTH],
    pub n_auth: u32,
    pub events: [EventRec; NE],
    pub n_events: u32,
    pub calls: [CallRec; NC],
    pub n_calls: u32,
    /// harness-pinned answers for the i-th foreign call (else arbitrary)
    pub preset: [bool; NC],
    pub preset_failed: [bool; NC],
    pub preset_ret: [[u64; VW]; NC],
    pub hashes: [HashRec; NH],
    pub n_hashes: u32,
    pub overflow: bool,
    pub must_succeed: bool,
    pub wasm_updates: u32,
}

const EMPTY_ARGS: ArgBuf = ArgBuf::new();
static mut WORLD: World = World {
    slots: [EMPTY_SLOT; NS],
    seq: 0,
    timestamp: 0,
    max_ttl: 3_110_400,
    min_temp_ttl: 1,
    min_pers_ttl: 1,
    network_id: [0; 4],
    contract: 0,
    authorized: [false; NADDR],
    auth_args_set: [false; NADDR],
    auth_args: [EMPTY_ARGS; NADDR],
    auth_log: [AuthRec { addr: 0, with_args: false, args: EMPTY_ARGS }; NAUTH],
    n_auth: 0,
    events: [EventRec { id: 0, w: [0; EW] }; NE],
    n_events: 0,
    calls: [CallRec { callee: 0, func: 0, args: EMPTY_ARGS, failed: false, ret: [0; VW] }; NC],
    n_calls: 0,
    preset: [false; NC],
    preset_failed: [false; NC],
    preset_ret: [[0; VW]; NC],
    hashes: [HashRec { kind: 0, len: 0, inp: [0; HW], out: [0; 4] }; NH],
    n_hashes: 0,
    overflow: false,
    must_succeed: false,
    wasm_updates: 0,
};

#[inline(always)]
pub fn world() -> &'static mut World {
    unsafe { &mut WORLD }
}

// ---------------------------------------------------------------- failure
/// feature `traphook`: called with the error code at the start of every trap (see `trap`)
#[cfg(feature = "traphook")]
pub static mut ON_TRAP: Option<fn(u32)> = None;
/// the code touched something outside the harness' declared universe / model capacity
pub fn overflow() -> ! {
    world().overflow = true;
    #[cfg(kani)]
    {
        kani::assert(false, "MODEL-OVERFLOW: model capacity exceeded");
        kani::assume(false);
    }
    panic!("model capacity exceeded")
}

/// a failed host invocation (contract error, host trap). In may-fail mode the path ends
/// (the host rolls the invocation back); in must-succeed mode it is a failed check.
pub fn trap(_code: u32) -> ! {
    // feature `traphook`: a harness-installed observer runs first (it lets a converse claim report the trap
    // under its own clause name); off by default, the default build is unchanged
    #[cfg(feature = "traphook")]
    {
        if let Some(f) = unsafe { ON_TRAP } {
            f(_code)
        }
    }
    #[cfg(kani)]
    {
        if world().must_succeed {
            kani::assert(false, "PROP:must-succeed: the invocation trapped");
        }
        kani::assume(false);
    }
    panic!("host trap")
}
pub fn trap_conversion() -> ! {
    trap(0xffff_0001)
}
pub fn trap_auth() -> ! {
    trap(0xffff_0002)
}
pub fn trap_storage() -> ! {
    trap(0xffff_0003)
}

// ---------------------------------------------------------------- arbitrary values
#[cfg(kani)]
pub fn arb_u64() -> u64 {
    kani::any()
}
#[cfg(not(kani))]
pub fn arb_u64() -> u64 {
    // native (non-Kani) builds have no source of arbitrary values
    panic!("arbitrary value requested outside Kani")
}
pub fn arb_bool() -> bool {
    arb_u64() & 1 == 1
}
pub fn arb_below(n: u32) -> u32 {
    let x = arb_u64() as u32;
    assume(x < n);
    x
}
#[cfg(kani)]
pub fn assume(c: bool) {
    kani::assume(c)
}
#[cfg(not(kani))]
pub fn assume(c: bool) {
    if !c {
        panic!("assumption violated")
    }
}

// ---------------------------------------------------------------- storage
fn key_eq(a: &[u64; KW], b: &[u64; KW]) -> bool {
    // feature `getmux`: keys of different kinds (first word = variant / type word, concrete in most harnesses) are
    // told apart before the word loop; same result
    #[cfg(feature = "getmux")]
    if a[0] != b[0] {
        return false;
    }
    let mut i = 0;
    let mut r = true;
    while i < KW {
        r &= a[i] == b[i];
        i += 1;
    }
    r
}
pub fn key_of<K: Flat>(k: &K) -> [u64; KW] {
    let mut out = [0u64; KW];
    if K::W > KW {
        overflow()
    }
    k.put(&mut out[..K::W]);
    out
}
pub fn val_of<V: Flat>(v: &V) -> [u64; VW] {
    let mut out = [0u64; VW];
    if V::W > VW {
        overflow()
    }
    v.put(&mut out[..V::W]);
    out
}
#[inline(always)]
fn live(s: &Slot, seq: u32) -> bool {
    s.present && (s.dur != 1 || s.live_until >= seq)
}
#[inline(always)]
fn hit(s: &Slot, dur: u8, k: &[u64; KW]) -> bool {
    s.claimed && s.dur == dur && key_eq(&s.key, k)
}

#[cfg(not(feature = "getmux"))]
pub fn st_has(dur: u8, key: &[u64; KW]) -> bool {
    #[cfg(feature = "lazyfam")]
    if let Some(i) = lazy_index(dur, key) {
        return i < lazy().n;
    }
    let w = world();
    let seq = w.seq;
    let mut i = 0;
    while i < NS {
        let s = &w.slots[i];
        if hit(s, dur, key) {
            return live(s, seq);
        }
        i += 1;
    }
    false
}
pub fn st_get<V: Flat>(dur: u8, key: &[u64; KW]) -> Option<V> {
    let w = world();
    let seq = w.seq;
    let mut i = 0;
    while i < NS {
        let s = &w.slots[i];
        if hit(s, dur, key) {
            return if live(s, seq) { Some(V::unflat(&s.val[..V::W])) } else { None };
        }
        i += 1;
    }
    None
}
#[cfg(not(feature = "getmux"))]
pub fn st_set(dur: u8, key: &[u64; KW], val: &[u64; VW]) {
    #[cfg(feature = "lazyfam")]
    if lazy_index(dur, key).is_some() {
        overflow() // writes to a lazy family are outside what it models
    }
    let w = world();
    let seq = w.seq;
    let fresh = match dur {
        1 => seq.saturating_add(w.min_temp_ttl).saturating_sub(1),
        _ => seq.saturating_add(w.min_pers_ttl).saturating_sub(1),
    };
    let mut i = 0;
    while i < NS {
        if hit(&w.slots[i], dur, key) {
            let was_live = live(&w.slots[i], seq);
            let s = &mut w.slots[i];
            s.val = *val;
            if !was_live {
                s.live_until = fresh;
            }
            s.present = true;
            return;
        }
        i += 1;
    }
    let mut j = 0;
    while j < NS {
        if !w.slots[j].claimed {
            w.slots[j] =
                Slot { claimed: true, present: true, dur, key: *key, val: *val, live_until: fresh };
            return;
        }
        j += 1;
    }
    overflow()
}
#[cfg(not(feature = "getmux"))]
pub fn st_remove(dur: u8, key: &[u64; KW]) {
    let w = world();
    let mut i = 0;
    while i < NS {
        if hit(&w.slots[i], dur, key) {
            w.slots[i].present = false;
            return;
        }
        i += 1;
    }
}
/// soroban-env-host 25.0.1 `Storage::extend_ttl` semantics
#[cfg(not(feature = "getmux"))]
pub fn st_extend_ttl(dur: u8, key: &[u64; KW], threshold: u32, extend_to: u32) {
    if threshold > extend_to {
        trap_storage()
    }
    #[cfg(feature = "lazyfam")]
    if let Some(i) = lazy_index(dur, key) {
        if i >= lazy().n {
            trap_storage()
        }
        return;
    }
    let w = world();
    let seq = w.seq;
    let max_ext = w.max_ttl.saturating_sub(1);
    let mut ext = extend_to;
    if ext > max_ext {
        if dur == 1 {
            trap_storage()
        }
        ext = max_ext;
    }
    let mut i = 0;
    while i < NS {
        if hit(&w.slots[i], dur, key) {
            if !live(&w.slots[i], seq) {
                trap_storage()
            }
            let s = &mut w.slots[i];
            let new_live = match seq.checked_add(ext) {
                Some(x) => x,
                None => trap_storage(),
            };
            if new_live > s.live_until && s.live_until.saturating_sub(seq) <= threshold {
                s.live_until = new_live;
            }
            return;
        }
        i += 1;
    }
    trap_storage()
}

// ---- harness-side helpers -------------------------------------------------
/// declare slot `i` (concrete index) with the given key; contents may be symbolic
pub fn declare<K: Flat>(i: usize, dur: u8, key: &K, present: bool, val: [u64; VW], live_until: u32) {
    world().slots[i] =
        Slot { claimed: true, present, dur, key: key_of(key), val, live_until };
}
/// declare slot `i` holding a typed value
pub fn declare_val<K: Flat, V: Flat>(
    i: usize,
    dur: u8,
    key: &K,
    present: bool,
    val: &V,
    live_until: u32,
) {
    declare(i, dur, key, present, val_of(val), live_until)
}
pub fn slot(i: usize) -> Slot {
    world().slots[i]
}
pub fn slot_live(i: usize) -> bool {
    let w = world();
    live(&w.slots[i], w.seq)
}
pub fn slot_val<V: Flat>(i: usize) -> V {
    V::unflat(&world().slots[i].val[..V::W])
}
pub fn slots_equal(a: &Slot, b: &Slot) -> bool {
    let mut r = a.claimed == b.claimed
        && a.present == b.present
        && a.dur == b.dur
        && a.live_until == b.live_until
        && key_eq(&a.key, &b.key);
    let mut i = 0;
    while i < VW {
        r &= a.val[i] == b.val[i];
        i += 1;
    }
    r
}
/// slots `from..NS` are still unclaimed (the call touched no key outside the declared universe)
pub fn unclaimed_from(from: usize) -> bool {
    let w = world();
    let mut r = true;
    let mut i = 0;
    while i < NS {
        if i >= from {
            r &= !w.slots[i].claimed;
        }
        i += 1;
    }
    r
}
/// no two claimed slots hold the same (durability, key): a sanity condition on harness pre-states
pub fn keys_distinct() -> bool {
    let w = world();
    let mut r = true;
    let mut i = 0;
    while i < NS {
        let mut j = i + 1;
        while j < NS {
            if w.slots[i].claimed && w.slots[j].claimed {
                r &= !(w.slots[i].dur == w.slots[j].dur && key_eq(&w.slots[i].key, &w.slots[j].key));
            }
            j += 1;
        }
        i += 1;
    }
    r
}

// ---------------------------------------------------------------- authorization
pub fn require_auth(a: &Address) {
    let w = world();
    let mut ok = false;
    let mut i = 0;
    while i < NADDR {
        if a.id == i as u32 {
            ok = w.authorized[i];
        }
        i += 1;
    }
    if !ok {
        trap_auth()
    }
    log_auth(AuthRec { addr: a.id, with_args: false, args: EMPTY_ARGS });
}
pub fn require_auth_for_args(a: &Address, args: &ArgBuf) {
    let w = world();
    let mut ok = false;
    let mut i = 0;
    while i < NADDR {
        if a.id == i as u32 {
            ok = w.auth_args_set[i] && w.auth_args[i].eq(args);
        }
        i += 1;
    }
    if !ok {
        trap_auth()
    }
    log_auth(AuthRec { addr: a.id, with_args: true, args: *args });
}
fn log_auth(r: AuthRec) {
    let w = world();
    if w.n_auth as usize >= NAUTH {
        overflow()
    }
    let mut i = 0;
    while i < NAUTH {
        if i as u32 == w.n_auth {
            w.auth_log[i] = r;
        }
        i += 1;
    }
    w.n_auth += 1;
}
pub fn is_authorized(a: &Address) -> bool {
    let w = world();
    let mut ok = false;
    let mut i = 0;
    while i < NADDR {
        if a.id == i as u32 {
            ok = w.authorized[i];
        }
        i += 1;
    }
    ok
}
/// number of logged plain `require_auth` calls for `a`
pub fn auth_count(a: &Address) -> u32 {
    let w = world();
    let mut n = 0;
    let mut i = 0;
    while i < NAUTH {
        if (i as u32) < w.n_auth && w.auth_log[i].addr == a.id && !w.auth_log[i].with_args {
            n += 1;
        }
        i += 1;
    }
    n
}
/// number of logged `require_auth_for_args` calls for `a` with exactly `args`
pub fn auth_args_count(a: &Address, args: &ArgBuf) -> u32 {
    let w = world();
    let mut n = 0;
    let mut i = 0;
    while i < NAUTH {
        if (i as u32) < w.n_auth
            && w.auth_log[i].addr == a.id
            && w.auth_log[i].with_args
            && w.auth_log[i].args.eq(args)
        {
            n += 1;
        }
        i += 1;
    }
    n
}

// ---------------------------------------------------------------- events
pub fn emit_event(id: u64, words: [u64; EW]) {
    let w = world();
    if w.n_events as usize >= NE {
        overflow()
    }
    let mut i = 0;
    while i < NE {
        if i as u32 == w.n_events {
            w.events[i] = EventRec { id, w: words };
        }
        i += 1;
    }
    w.n_events += 1;
}
pub fn n_events() -> u32 {
    world().n_events
}
pub fn event_is(i: usize, id: u64, words: &[u64; EW]) -> bool {
    let w = world();
    let ev = &w.events[i];
    let mut r = (i as u32) < w.n_events && ev.id == id;
    let mut k = 0;
    while k < EW {
        r &= ev.w[k] == words[k];
        k += 1;
    }
    r
}

// ---------------------------------------------------------------- foreign calls
fn next_call(callee: &Address, func: u64, args: &ArgBuf) -> (bool, [u64; VW]) {
    let w = world();
    if w.n_calls as usize >= NC {
        overflow()
    }
    let mut failed = false;
    let mut ret = [0u64; VW];
    let mut pre = false;
    let mut i = 0;
    while i < NC {
        if i as u32 == w.n_calls {
            pre = w.preset[i];
            failed = w.preset_failed[i];
            ret = w.preset_ret[i];
        }
        i += 1;
    }
    if !pre {
        failed = arb_bool();
        let mut k = 0;
        while k < VW {
            ret[k] = arb_u64();
            k += 1;
        }
    }
    let rec = CallRec { callee: callee.id, func, args: *args, failed, ret };
    let mut i = 0;
    while i < NC {
        if i as u32 == w.n_calls {
            w.calls[i] = rec;
        }
        i += 1;
    }
    w.n_calls += 1;
    (failed, ret)
}
/// a client call: logged; answer arbitrary (or pinned); a failing callee traps the caller
pub fn foreign_call<R: Flat>(callee: &Address, func: u64, args: &ArgBuf) -> R {
    let (failed, ret) = next_call(callee, func, args);
    if failed {
        trap(0xffff_0004)
    }
    if R::W > VW {
        overflow()
    }
    R::unflat(&ret[..R::W])
}
pub fn try_foreign_call<R: Flat>(
    callee: &Address,
    func: u64,
    args: &ArgBuf,
) -> Result<Result<R, crate::ConversionError>, Result<crate::Error, crate::InvokeError>> {
    let (failed, ret) = next_call(callee, func, args);
    if failed {
        return Err(Ok(crate::Error::from_contract_error(ret[0] as u32)));
    }
    if R::W > VW {
        overflow()
    }
    Ok(Ok(R::unflat(&ret[..R::W])))
}
pub fn n_calls() -> u32 {
    world().n_calls
}
/// number of logged calls to (callee, func) with exactly these argument words
pub fn call_count(callee: &Address, func: u64, args: &ArgBuf) -> u32 {
    let w = world();
    let mut n = 0;
    let mut i = 0;
    while i < NC {
        let c = &w.calls[i];
        if (i as u32) < w.n_calls && c.callee == callee.id && c.func == func && c.args.eq(args) {
            n += 1;
        }
        i += 1;
    }
    n
}
/// number of logged calls to (callee, func), any arguments
pub fn call_count_fn(callee: &Address, func: u64) -> u32 {
    let w = world();
    let mut n = 0;
    let mut i = 0;
    while i < NC {
        let c = &w.calls[i];
        if (i as u32) < w.n_calls && c.callee == callee.id && c.func == func {
            n += 1;
        }
        i += 1;
    }
    n
}
pub fn call_at(i: usize) -> CallRec {
    world().calls[i]
}
pub fn preset_call<R: Flat>(i: usize, failed: bool, ret: &R) {
    let w = world();
    w.preset[i] = true;
    w.preset_failed[i] = failed;
    w.preset_ret[i] = val_of(ret);
}

// ---------------------------------------------------------------- hash oracle
/// Feature `hashack`: the SAME injective function, realised as a call log with pairwise (Ackermann) constraints
/// instead of a look-up table: every call appends one record with an arbitrary digest constrained by
/// "equal (kind, length, input) <-> equal digest" against every earlier record. No early return, so the
/// number of records stays a constant along straight-line code (all table accesses at concrete indices),
/// which is far cheaper for the solver when many hashes of symbolic data are chained (Merkle trees).
/// The capacity `NH` then bounds the number of CALLS, not of distinct inputs. The constraint is always
/// satisfiable (take the digest of an earlier equal input, else a digest not handed out before).
#[cfg(feature = "hashack")]
pub fn hash_oracle(kind: u8, len: u32, inp: &[u64; HW]) -> [u64; 4] {
    let w = world();
    if w.n_hashes as usize >= NH {
        overflow()
    }
    let out = [arb_u64(), arb_u64(), arb_u64(), arb_u64()];
    let mut i = 0;
    while i < NH {
        if (i as u32) < w.n_hashes {
            let h = &w.hashes[i];
            let mut same_in = h.kind == kind && h.len == len;
            let mut k = 0;
            while k < HW {
                same_in &= h.inp[k] == inp[k];
                k += 1;
            }
            let o = &h.out;
            let same_out = o[0] == out[0] && o[1] == out[1] && o[2] == out[2] && o[3] == out[3];
            assume(same_in == same_out);
        }
        i += 1;
    }
    let rec = HashRec { kind, len, inp: *inp, out };
    let mut i = 0;
    while i < NH {
        if i as u32 == w.n_hashes {
            w.hashes[i] = rec;
        }
        i += 1;
    }
    w.n_hashes += 1;
    out
}
/// Uninterpreted hash: equal (kind, input) -> equal output; a new input gets a fresh output
/// assumed different from every earlier output (collision resistance, across kinds too).
#[cfg(not(feature = "hashack"))]
pub fn hash_oracle(kind: u8, len: u32, inp: &[u64; HW]) -> [u64; 4] {
    let w = world();
    let mut i = 0;
    while i < NH {
        if (i as u32) < w.n_hashes {
            let h = &w.hashes[i];
            let mut same = h.kind == kind && h.len == len;
            let mut k = 0;
            while k < HW {
                same &= h.inp[k] == inp[k];
                k += 1;
            }
            if same {
                return h.out;
            }
        }
        i += 1;
    }
    if w.n_hashes as usize >= NH {
        overflow()
    }
    let out = [arb_u64(), arb_u64(), arb_u64(), arb_u64()];
    let mut i = 0;
    while i < NH {
        if (i as u32) < w.n_hashes {
            let o = &w.hashes[i].out;
            assume(!(o[0] == out[0] && o[1] == out[1] && o[2] == out[2] && o[3] == out[3]));
        }
        i += 1;
    }
    let rec = HashRec { kind, len, inp: *inp, out };
    let mut i = 0;
    while i < NH {
        if i as u32 == w.n_hashes {
            w.hashes[i] = rec;
        }
        i += 1;
    }
    w.n_hashes += 1;
    out
}

// ---------------------------------------------------------------- feature `getmux`: single-exit storage primitives
// Same results as the versions above (first matching slot; a write without a match claims the first unclaimed
// slot; no room = overflow). The scans have NO early `return`: with symbolic slot keys every iteration of the
// early-return versions is a separate exit whose state is merged at the end of the function (cost quadratic in
// NS per access, measured: 33 k of 470 k SSA steps of a two-mint history on one closing brace); here each slot is
// updated once under its own guard.
#[cfg(feature = "getmux")]
pub fn st_has(dur: u8, key: &[u64; KW]) -> bool {
    #[cfg(feature = "lazyfam")]
    if let Some(i) = lazy_index(dur, key) {
        return i < lazy().n;
    }
    let w = world();
    let seq = w.seq;
    let mut found = false;
    let mut r = false;
    let mut i = 0;
    while i < NS {
        let s = &w.slots[i];
        if !found && hit(s, dur, key) {
            found = true;
            r = live(s, seq);
        }
        i += 1;
    }
    r
}
#[cfg(feature = "getmux")]
pub fn st_set(dur: u8, key: &[u64; KW], val: &[u64; VW]) {
    #[cfg(feature = "lazyfam")]
    if lazy_index(dur, key).is_some() {
        overflow() // writes to a lazy family are outside what it models
    }
    let w = world();
    let seq = w.seq;
    let fresh = match dur {
        1 => seq.saturating_add(w.min_temp_ttl).saturating_sub(1),
        _ => seq.saturating_add(w.min_pers_ttl).saturating_sub(1),
    };
    let mut done = false;
    let mut i = 0;
    while i < NS {
        if !done && hit(&w.slots[i], dur, key) {
            let was_live = live(&w.slots[i], seq);
            let s = &mut w.slots[i];
            s.val = *val;
            if !was_live {
                s.live_until = fresh;
            }
            s.present = true;
            done = true;
        }
        i += 1;
    }
    let mut j = 0;
    while j < NS {
        if !done && !w.slots[j].claimed {
            w.slots[j] =
                Slot { claimed: true, present: true, dur, key: *key, val: *val, live_until: fresh };
            done = true;
        }
        j += 1;
    }
    if !done {
        overflow()
    }
}
#[cfg(feature = "getmux")]
pub fn st_remove(dur: u8, key: &[u64; KW]) {
    let w = world();
    let mut done = false;
    let mut i = 0;
    while i < NS {
        if !done && hit(&w.slots[i], dur, key) {
            w.slots[i].present = false;
            done = true;
        }
        i += 1;
    }
}
#[cfg(feature = "getmux")]
pub fn st_extend_ttl(dur: u8, key: &[u64; KW], threshold: u32, extend_to: u32) {
    if threshold > extend_to {
        trap_storage()
    }
    #[cfg(feature = "lazyfam")]
    if let Some(i) = lazy_index(dur, key) {
        if i >= lazy().n {
            trap_storage()
        }
        return;
    }
    let w = world();
    let seq = w.seq;
    let max_ext = w.max_ttl.saturating_sub(1);
    let mut ext = extend_to;
    if ext > max_ext {
        if dur == 1 {
            trap_storage()
        }
        ext = max_ext;
    }
    let mut found = false;
    let mut i = 0;
    while i < NS {
        if !found && hit(&w.slots[i], dur, key) {
            found = true;
            if !live(&w.slots[i], seq) {
                trap_storage()
            }
            let s = &mut w.slots[i];
            let new_live = match seq.checked_add(ext) {
                Some(x) => x,
                None => trap_storage(),
            };
            if new_live > s.live_until && s.live_until.saturating_sub(seq) <= threshold {
                s.live_until = new_live;
            }
        }
        i += 1;
    }
    if !found {
        trap_storage()
    }
}


// ---------------------------------------------------------------- lazy monotone family (feature `lazyfam`)
/// An indexed family of stored entries of UNBOUNDED length (a checkpoint timeline with `n` up to u32::MAX): entry `i`
/// gets an arbitrary value the first time it is read and keeps it (every later read of the same index is assumed
/// equal); the FIRST value word is a tagged u32 that strictly increases with the index and never exceeds `bound`
/// (for checkpoints: the ledger, <= current sequence) — the representation invariant of a timeline of any length.
/// At most `NL` reads are recorded (a binary search over u32 makes at most 34). Reads of indices >= n find nothing.
/// No function pointers, no value-dependent positions: one pass over the concrete record array per read.
#[cfg(feature = "lazyfam")]
pub const NL: usize = 38;
#[cfg(feature = "lazyfam")]
#[derive(Clone, Copy)]
pub struct LazyRec {
    pub idx: u32,
    pub key: u32,
    pub w1: u64,
    pub w2: u64,
}
#[cfg(feature = "lazyfam")]
pub struct LazyFam {
    pub on: bool,
    pub dur: u8,
    /// first key word (the variant symbol) and the position of the index word inside the key
    pub k0: u64,
    pub idx_pos: usize,
    pub n: u32,
    pub bound: u32,
    pub len: u32,
    pub last_idx: u32,
    pub recs: [LazyRec; NL],
}
#[cfg(feature = "lazyfam")]
static mut LAZY: LazyFam = LazyFam {
    on: false,
    dur: 0,
    k0: 0,
    idx_pos: 1,
    n: 0,
    bound: u32::MAX,
    len: 0,
    last_idx: 0,
    recs: [LazyRec { idx: 0, key: 0, w1: 0, w2: 0 }; NL],
};
#[cfg(feature = "lazyfam")]
pub fn lazy() -> &'static mut LazyFam {
    unsafe { &mut LAZY }
}
/// is `key` an entry of the lazy family? -> its index
#[cfg(feature = "lazyfam")]
pub fn lazy_index(dur: u8, key: &[u64; KW]) -> Option<u32> {
    let l = lazy();
    if !l.on || l.dur != dur || key[0] != l.k0 {
        return None;
    }
    let mut w = 0u64;
    let mut i = 0;
    while i < KW {
        if i == l.idx_pos {
            w = key[i];
        }
        i += 1;
    }
    Some(untag_u32(w))
}
/// value words of entry `idx`; None beyond the family's length
#[cfg(feature = "lazyfam")]
pub fn lazy_read(idx: u32) -> Option<[u64; VW]> {
    let l = lazy();
    if idx >= l.n {
        return None;
    }
    l.last_idx = idx;
    if l.len as usize >= NL {
        overflow()
    }
    let key = arb_u64() as u32;
    let w1 = arb_u64();
    let w2 = arb_u64();
    assume(key <= l.bound);
    let mut i = 0;
    while i < NL {
        if (i as u32) < l.len {
            let r = l.recs[i];
            let ok = if r.idx == idx {
                r.key == key && r.w1 == w1 && r.w2 == w2
            } else if r.idx < idx {
                r.key < key
            } else {
                key < r.key
            };
            assume(ok);
        }
        if i as u32 == l.len {
            l.recs[i] = LazyRec { idx, key, w1, w2 };
        }
        i += 1;
    }
    l.len += 1;
    let mut val = [0u64; VW];
    val[0] = tag_u32(key);
    val[1] = w1;
    val[2] = w2;
    Some(val)
}
