//! 256-bit integers are outside the E1 (Kani) claims; the arithmetic kernels that use them are
//! decided by E2 (MIR -> SMT). This stub only lets the crates compile; touching it is a model overflow.
use crate::{model, Bytes, Env};

#[derive(Clone, Debug, PartialEq, Eq, PartialOrd, Ord)]
pub struct I256 {
    hi: i128,
    lo: u128,
}
#[derive(Clone, Debug, PartialEq, Eq, PartialOrd, Ord)]
pub struct U256 {
    hi: u128,
    lo: u128,
}
impl I256 {
    pub fn from_i128(_e: &Env, x: i128) -> Self {
        I256 { hi: if x < 0 { -1 } else { 0 }, lo: x as u128 }
    }
    pub fn from_i32(_e: &Env, x: i32) -> Self {
        Self::from_i128(&Env, x as i128)
    }
    pub fn from_parts(_e: &Env, hi_hi: i64, hi_lo: u64, lo_hi: u64, lo_lo: u64) -> Self {
        I256 { hi: ((hi_hi as i128) << 64) | hi_lo as i128, lo: ((lo_hi as u128) << 64) | lo_lo as u128 }
    }
    pub fn to_i128(&self) -> Option<i128> {
        let x = self.lo as i128;
        if (x < 0 && self.hi == -1) || (x >= 0 && self.hi == 0) {
            Some(x)
        } else {
            None
        }
    }
    pub fn add(&self, _o: &I256) -> I256 {
        model::overflow()
    }
    pub fn sub(&self, _o: &I256) -> I256 {
        model::overflow()
    }
    pub fn mul(&self, _o: &I256) -> I256 {
        model::overflow()
    }
    pub fn div(&self, _o: &I256) -> I256 {
        model::overflow()
    }
    pub fn rem_euclid(&self, _o: &I256) -> I256 {
        model::overflow()
    }
    pub fn pow(&self, _p: u32) -> I256 {
        model::overflow()
    }
    pub fn to_be_bytes(&self) -> Bytes {
        model::overflow()
    }
    pub fn env(&self) -> &Env {
        &Env
    }
}
impl U256 {
    pub fn from_u128(_e: &Env, x: u128) -> Self {
        U256 { hi: 0, lo: x }
    }
    pub fn from_u32(_e: &Env, x: u32) -> Self {
        U256 { hi: 0, lo: x as u128 }
    }
    pub fn to_u128(&self) -> Option<u128> {
        if self.hi == 0 {
            Some(self.lo)
        } else {
            None
        }
    }
    pub fn add(&self, _o: &U256) -> U256 {
        model::overflow()
    }
    pub fn sub(&self, _o: &U256) -> U256 {
        model::overflow()
    }
    pub fn mul(&self, _o: &U256) -> U256 {
        model::overflow()
    }
    pub fn div(&self, _o: &U256) -> U256 {
        model::overflow()
    }
    pub fn rem_euclid(&self, _o: &U256) -> U256 {
        model::overflow()
    }
    pub fn pow(&self, _p: u32) -> U256 {
        model::overflow()
    }
}
