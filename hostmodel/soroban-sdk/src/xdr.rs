//! `to_xdr` is modelled as an injective, deterministic serialisation: length-tagged flat words
//! as big-endian bytes (NOT byte-identical to XDR; only injectivity and determinism are used).
//!
//! Feature `xdrdigest`: the serialisation of a value is a 4-byte HANDLE instead: the index of the record
//! `(type id, flat words)` in the injective oracle's table (equal values of one type <-> equal handles,
//! fixed width, so concatenations of handles are injective on tuples as concatenations of XDR are). For code
//! that only appends and hashes serialisations (e.g. the smart account's rule fingerprint, whose faithful
//! serialisation of a `Vec<Signer>` can never fit into one model `Bytes`). Not invertible (`from_xdr` overflows).
use crate::model::{self, BYTES_CAP};
use crate::{Bytes, Env, Flat};

pub trait ToXdr {
    fn to_xdr(self, e: &Env) -> Bytes;
}
pub trait FromXdr: Sized {
    type Error;
    fn from_xdr(e: &Env, b: &Bytes) -> Result<Self, Self::Error>;
}
#[cfg(not(feature = "xdrdigest"))]
impl<T: Flat> ToXdr for T {
    fn to_xdr(self, e: &Env) -> Bytes {
        let mut w = [0u64; model::VW];
        if T::W > model::VW || T::W * 8 > BYTES_CAP {
            model::overflow()
        }
        self.put(&mut w[..T::W]);
        let mut out = Bytes::new(e);
        let mut c = 0;
        while c < T::W {
            out.extend_from_array(&w[c].to_be_bytes());
            c += 1;
        }
        out
    }
}
#[cfg(feature = "xdrdigest")]
impl<T: Flat> ToXdr for T {
    fn to_xdr(self, e: &Env) -> Bytes {
        if T::W + 1 > model::HW || BYTES_CAP < 4 {
            model::overflow()
        }
        let mut inp = [0u64; model::HW];
        inp[0] = T::TY;
        self.put(&mut inp[1..1 + T::W]);
        let out = model::hash_oracle(5, T::W as u32, &inp);
        // the handle: index of the (unique) record with this output
        let w = model::world();
        let mut idx = 0u32;
        let mut i = 0;
        while i < model::NH {
            if (i as u32) < w.n_hashes {
                let o = &w.hashes[i].out;
                if o[0] == out[0] && o[1] == out[1] && o[2] == out[2] && o[3] == out[3] {
                    idx = i as u32;
                }
            }
            i += 1;
        }
        Bytes::from_array(e, &[0x58, 0x44, (idx >> 8) as u8, idx as u8])
    }
}
#[cfg(not(feature = "xdrdigest"))]
impl<T: Flat> FromXdr for T {
    type Error = crate::ConversionError;
    fn from_xdr(_e: &Env, b: &Bytes) -> Result<Self, Self::Error> {
        if b.len() as usize != T::W * 8 {
            return Err(crate::ConversionError);
        }
        let words = b.words();
        Ok(T::unflat(&words[..T::W]))
    }
}
#[cfg(feature = "xdrdigest")]
impl<T: Flat> FromXdr for T {
    type Error = crate::ConversionError;
    fn from_xdr(_e: &Env, _b: &Bytes) -> Result<Self, Self::Error> {
        // a handle cannot be turned back into a value
        model::overflow()
    }
}
