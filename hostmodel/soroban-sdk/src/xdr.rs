//! `to_xdr` is modelled as an injective, deterministic serialisation: length-tagged flat words
//! as big-endian bytes (NOT byte-identical to XDR; only injectivity and determinism are used).
use crate::model::{self, BYTES_CAP};
use crate::{Bytes, Env, Flat};

pub trait ToXdr {
    fn to_xdr(self, e: &Env) -> Bytes;
}
pub trait FromXdr: Sized {
    type Error;
    fn from_xdr(e: &Env, b: &Bytes) -> Result<Self, Self::Error>;
}
impl<T: Flat> ToXdr for T {
    fn to_xdr(self, e: &Env) -> Bytes {
        let mut w = [0u64; model::VW];
        if T::W > model::VW || T::W * 8 > BYTES_CAP {
            model::overflow()
        }
        self.put(&mut w[..T::W]);
        let mut out = Bytes::new(e);
        let mut c = 0;
        while c < T::W {
            out.extend_from_array(&w[c].to_be_bytes());
            c += 1;
        }
        out
    }
}
impl<T: Flat> FromXdr for T {
    type Error = crate::ConversionError;
    fn from_xdr(_e: &Env, b: &Bytes) -> Result<Self, Self::Error> {
        if b.len() as usize != T::W * 8 {
            return Err(crate::ConversionError);
        }
        let words = b.words();
        Ok(T::unflat(&words[..T::W]))
    }
}
