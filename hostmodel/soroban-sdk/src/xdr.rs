//! `to_xdr` is modelled as an injective, deterministic serialisation: length-tagged flat words
//! as big-endian bytes (NOT byte-identical to XDR; only injectivity and determinism are used).
//!
//! Feature `xdrdigest`: the serialisation of a value is a 4-byte HANDLE instead: the index of the record
//! `(type id, flat words)` in a table of all values serialised so far (equal values of one type <-> equal handles,
//! fixed width, so concatenations of handles are injective on tuples as concatenations of XDR are). For code
//! that only appends and hashes serialisations (e.g. the smart account's rule fingerprint, whose faithful
//! serialisation of a `Vec<Signer>` can never fit into one model `Bytes`). Not invertible (`from_xdr` overflows).
use crate::model::{self, BYTES_CAP};
use crate::{Bytes, Env, Flat};

pub trait ToXdr {
    fn to_xdr(self, e: &Env) -> Bytes;
}
pub trait FromXdr: Sized {
    type Error;
    fn from_xdr(e: &Env, b: &Bytes) -> Result<Self, Self::Error>;
}
#[cfg(not(feature = "xdrdigest"))]
impl<T: Flat> ToXdr for T {
    fn to_xdr(self, e: &Env) -> Bytes {
        let mut w = [0u64; model::VW];
        if T::W > model::VW || T::W * 8 > BYTES_CAP {
            model::overflow()
        }
        self.put(&mut w[..T::W]);
        let mut out = Bytes::new(e);
        let mut c = 0;
        while c < T::W {
            out.extend_from_array(&w[c].to_be_bytes());
            c += 1;
        }
        out
    }
}
/// feature `xdrdigest`: the table behind the handles (own table, compared over exactly `T::W` words)
#[cfg(feature = "xdrdigest")]
pub const NX: usize = 6;
/// word capacity of one serialised value (xw48 / xw128: additive features for profiles with longer vectors, e.g. a
/// `Vec<Signer>` of capacity 8 = 41 words, of capacity 21 = 106 words; C20 limit harnesses); default unchanged
#[cfg(all(feature = "xdrdigest", feature = "xw128"))]
pub const XW: usize = 128;
#[cfg(all(feature = "xdrdigest", feature = "xw48", not(feature = "xw128")))]
pub const XW: usize = 48;
#[cfg(all(feature = "xdrdigest", not(any(feature = "xw48", feature = "xw128"))))]
pub const XW: usize = 24;
#[cfg(feature = "xdrdigest")]
#[derive(Clone, Copy)]
pub struct XdrRec {
    pub ty: u64,
    pub n: u32,
    pub w: [u64; XW],
}
#[cfg(feature = "xdrdigest")]
pub static mut XDR_TABLE: [XdrRec; NX] = [XdrRec { ty: 0, n: 0, w: [0; XW] }; NX];
#[cfg(feature = "xdrdigest")]
pub static mut XDR_N: u32 = 0;

#[cfg(feature = "xdrdigest")]
#[allow(static_mut_refs)]
impl<T: Flat> ToXdr for T {
    fn to_xdr(self, e: &Env) -> Bytes {
        if T::W > XW || BYTES_CAP < 4 {
            model::overflow()
        }
        let mut x = [0u64; XW];
        self.put(&mut x[..T::W]);
        let (tab, n) = unsafe { (&mut XDR_TABLE, &mut XDR_N) };
        // index of the record (type, words), appended if new
        let mut idx = *n;
        let mut i = 0;
        while i < NX {
            if (i as u32) < *n && tab[i].ty == T::TY && tab[i].n == T::W as u32 {
                let mut same = true;
                let mut k = 0;
                while k < T::W {
                    same &= tab[i].w[k] == x[k];
                    k += 1;
                }
                if same && idx == *n {
                    idx = i as u32;
                }
            }
            i += 1;
        }
        if idx == *n {
            if *n as usize >= NX {
                model::overflow()
            }
            let mut i = 0;
            while i < NX {
                if i as u32 == *n {
                    tab[i] = XdrRec { ty: T::TY, n: T::W as u32, w: x };
                }
                i += 1;
            }
            *n += 1;
        }
        Bytes::from_array(e, &[0x58, 0x44, (idx >> 8) as u8, idx as u8])
    }
}
// ---- harness-pinned decoding (additive; inert unless a harness calls `preset_from_xdr`)
// A value whose model serialisation cannot fit into one model `Bytes` (e.g. a struct with `Bytes` members, which is
// as wide as `Bytes` itself) can never come out of `from_xdr` above. A harness may instead PIN one pair
// "(these bytes) decode to (this value)": `from_xdr::<T>` of exactly these bytes then yields the value, every other
// input is decoded as before. With bytes and value both arbitrary this is a superset of the graph of any injective
// partial decoding function (which is all that callers of `from_xdr` may rely on).
/// word capacity of the pinned value
pub const PXW: usize = 64;
pub struct XdrPreset {
    pub set: bool,
    pub ty: u64,
    pub n: u32,
    pub len: u32,
    pub key: [u8; BYTES_CAP],
    pub w: [u64; PXW],
}
pub static mut XDR_PRESET: XdrPreset = XdrPreset { set: false, ty: 0, n: 0, len: 0, key: [0; BYTES_CAP], w: [0; PXW] };
/// declare "`b` is the XDR encoding of `v`" (one pair at a time; a later call replaces the pair)
#[allow(static_mut_refs)]
pub fn preset_from_xdr<T: Flat>(b: &Bytes, v: &T) {
    if T::W > PXW {
        model::overflow()
    }
    let p = unsafe { &mut XDR_PRESET };
    p.set = true;
    p.ty = T::TY;
    p.n = T::W as u32;
    p.len = b.len();
    p.key = *b.raw();
    v.put(&mut p.w[..T::W]);
}
#[allow(static_mut_refs)]
fn preset_lookup<T: Flat>(b: &Bytes) -> Option<T> {
    let p = unsafe { &XDR_PRESET };
    if !p.set || p.ty != T::TY || p.n as usize != T::W || T::W > PXW || p.len != b.len() {
        return None;
    }
    let raw = b.raw();
    let mut same = true;
    let mut c = 0;
    while c < BYTES_CAP {
        same &= raw[c] == p.key[c];
        if c + 1 < BYTES_CAP { same &= raw[c + 1] == p.key[c + 1]; }
        if c + 2 < BYTES_CAP { same &= raw[c + 2] == p.key[c + 2]; }
        if c + 3 < BYTES_CAP { same &= raw[c + 3] == p.key[c + 3]; }
        if c + 4 < BYTES_CAP { same &= raw[c + 4] == p.key[c + 4]; }
        if c + 5 < BYTES_CAP { same &= raw[c + 5] == p.key[c + 5]; }
        if c + 6 < BYTES_CAP { same &= raw[c + 6] == p.key[c + 6]; }
        if c + 7 < BYTES_CAP { same &= raw[c + 7] == p.key[c + 7]; }
        c += 8;
    }
    if same {
        Some(T::unflat(&p.w[..T::W]))
    } else {
        None
    }
}
#[cfg(not(feature = "xdrdigest"))]
impl<T: Flat> FromXdr for T {
    type Error = crate::ConversionError;
    fn from_xdr(_e: &Env, b: &Bytes) -> Result<Self, Self::Error> {
        if let Some(v) = preset_lookup::<T>(b) {
            return Ok(v);
        }
        if b.len() as usize != T::W * 8 {
            return Err(crate::ConversionError);
        }
        let words = b.words();
        Ok(T::unflat(&words[..T::W]))
    }
}
#[cfg(feature = "xdrdigest")]
impl<T: Flat> FromXdr for T {
    type Error = crate::ConversionError;
    fn from_xdr(_e: &Env, _b: &Bytes) -> Result<Self, Self::Error> {
        // a handle cannot be turned back into a value
        model::overflow()
    }
}
