//! Stateful documented-contract stub of a SEP-41 token (the asset behind a vault, the fee token):
//! balances and allowances live in the model world; `transfer`/`transfer_from` move exactly
//! `amount` or trap. Every call is also logged like any other foreign call.
#![allow(static_mut_refs)]
use crate::model::{self, NADDR};
use crate::{Address, Env, Symbol};

pub struct TokenWorld {
    pub bal: [i128; NADDR],
    pub allow: [[i128; NADDR]; NADDR],
    pub decimals: u32,
    pub n_transfers: u32,
    /// expiration ledger of each allowance (SEP-41: an allowance is worth 0 once `seq > allow_until`);
    /// default `u32::MAX` = never expires, so harnesses that do not care need not set it
    pub allow_until: [[u32; NADDR]; NADDR],
}
static mut TOKEN: TokenWorld = TokenWorld {
    bal: [0; NADDR],
    allow: [[0; NADDR]; NADDR],
    decimals: 7,
    n_transfers: 0,
    allow_until: [[u32::MAX; NADDR]; NADDR],
};
pub fn token_world() -> &'static mut TokenWorld {
    unsafe { &mut TOKEN }
}
pub fn tok_balance(a: &Address) -> i128 {
    let t = token_world();
    let mut r = 0;
    let mut i = 0;
    while i < NADDR {
        if a.id == i as u32 {
            r = t.bal[i];
        }
        i += 1;
    }
    r
}
fn add_balance(a: &Address, d: i128) {
    let t = token_world();
    let mut i = 0;
    while i < NADDR {
        if a.id == i as u32 {
            let nb = match t.bal[i].checked_add(d) {
                Some(x) => x,
                None => model::trap(0xffff_0020),
            };
            if nb < 0 {
                model::trap(0xffff_0021)
            }
            t.bal[i] = nb;
        }
        i += 1;
    }
}
/// what `allowance(o, s)` is worth at the current ledger (0 once expired)
pub fn tok_allowance(o: &Address, s: &Address) -> i128 {
    let t = token_world();
    let seq = model::world().seq;
    let mut r = 0;
    let mut i = 0;
    while i < NADDR {
        let mut j = 0;
        while j < NADDR {
            if o.id == i as u32 && s.id == j as u32 {
                r = if t.allow_until[i][j] >= seq { t.allow[i][j] } else { 0 };
            }
            j += 1;
        }
        i += 1;
    }
    r
}
/// stored expiration ledger of the allowance (o, s)
pub fn tok_allowance_until(o: &Address, s: &Address) -> u32 {
    let t = token_world();
    let mut r = 0;
    let mut i = 0;
    while i < NADDR {
        let mut j = 0;
        while j < NADDR {
            if o.id == i as u32 && s.id == j as u32 {
                r = t.allow_until[i][j];
            }
            j += 1;
        }
        i += 1;
    }
    r
}
/// `until == None`: keep the stored expiration (spending)
fn set_allowance(o: &Address, s: &Address, v: i128, until: Option<u32>) {
    let t = token_world();
    let mut i = 0;
    while i < NADDR {
        let mut j = 0;
        while j < NADDR {
            if o.id == i as u32 && s.id == j as u32 {
                t.allow[i][j] = v;
                if let Some(u) = until {
                    t.allow_until[i][j] = u;
                }
            }
            j += 1;
        }
        i += 1;
    }
}

pub struct TokenClient<'a> {
    pub env: Env,
    pub address: Address,
    _p: core::marker::PhantomData<&'a ()>,
}
pub type Client<'a> = TokenClient<'a>;
pub type StellarAssetClient<'a> = TokenClient<'a>;

impl<'a> TokenClient<'a> {
    pub fn new(e: &Env, address: &Address) -> Self {
        TokenClient { env: *e, address: address.clone(), _p: core::marker::PhantomData }
    }
    fn log(&self, f: &str, a: &model::ArgBuf) {
        model::preset_call::<()>(0, false, &()); // placeholder to keep the API uniform (overwritten below)
        let _ = (f, a);
    }
    pub fn balance(&self, id: &Address) -> i128 {
        tok_balance(id)
    }
    pub fn decimals(&self) -> u32 {
        token_world().decimals
    }
    pub fn allowance(&self, from: &Address, spender: &Address) -> i128 {
        tok_allowance(from, spender)
    }
    /// SEP-41 transfer: needs `from`'s authorization (or `from` is the calling contract)
    pub fn transfer(&self, from: &Address, to: impl Into<crate::MuxedAddress>, amount: &i128) {
        let to: crate::MuxedAddress = to.into();
        let to = &to.address();
        if *amount < 0 {
            model::trap(0xffff_0022)
        }
        let caller = self.env.current_contract_address();
        if *from != caller && !model::is_authorized(from) {
            model::trap_auth()
        }
        add_balance(from, -*amount);
        add_balance(to, *amount);
        token_world().n_transfers += 1;
        let mut a = model::ArgBuf::new();
        a.push(from);
        a.push(to);
        a.push(amount);
        log_only(&self.address, Symbol::of("transfer"), &a);
    }
    pub fn transfer_from(&self, spender: &Address, from: &Address, to: &Address, amount: &i128) {
        if *amount < 0 {
            model::trap(0xffff_0022)
        }
        let caller = self.env.current_contract_address();
        if *spender != caller && !model::is_authorized(spender) {
            model::trap_auth()
        }
        let al = tok_allowance(from, spender);
        if al < *amount {
            model::trap(0xffff_0023)
        }
        if *amount > 0 {
            set_allowance(from, spender, al - *amount, None);
        }
        add_balance(from, -*amount);
        add_balance(to, *amount);
        token_world().n_transfers += 1;
        let mut a = model::ArgBuf::new();
        a.push(spender);
        a.push(from);
        a.push(to);
        a.push(amount);
        log_only(&self.address, Symbol::of("transfer_from"), &a);
    }
    pub fn approve(&self, from: &Address, spender: &Address, amount: &i128, live_until: &u32) {
        if *amount < 0 {
            model::trap(0xffff_0022)
        }
        let caller = self.env.current_contract_address();
        if *from != caller && !model::is_authorized(from) {
            model::trap_auth()
        }
        // SEP-41: the expiration "cannot be less than the current ledger number unless the amount is
        // being set to 0"
        if *amount > 0 && *live_until < model::world().seq {
            model::trap(0xffff_0024)
        }
        set_allowance(from, spender, *amount, Some(*live_until));
        let mut a = model::ArgBuf::new();
        a.push(from);
        a.push(spender);
        a.push(amount);
        a.push(live_until);
        log_only(&self.address, Symbol::of("approve"), &a);
    }
    pub fn mint(&self, to: &Address, amount: &i128) {
        let mut a = model::ArgBuf::new();
        a.push(to);
        a.push(amount);
        model::foreign_call::<()>(&self.address, Symbol::of("mint"), &a)
    }
    pub fn set_admin(&self, new_admin: &Address) {
        let mut a = model::ArgBuf::new();
        a.push(new_admin);
        model::foreign_call::<()>(&self.address, Symbol::of("set_admin"), &a)
    }
    pub fn set_authorized(&self, id: &Address, authorize: &bool) {
        let mut a = model::ArgBuf::new();
        a.push(id);
        a.push(authorize);
        model::foreign_call::<()>(&self.address, Symbol::of("set_authorized"), &a)
    }
    pub fn clawback(&self, from: &Address, amount: &i128) {
        let mut a = model::ArgBuf::new();
        a.push(from);
        a.push(amount);
        model::foreign_call::<()>(&self.address, Symbol::of("clawback"), &a)
    }
}
/// append a call record without drawing an answer
fn log_only(callee: &Address, func: u64, args: &model::ArgBuf) {
    let w = model::world();
    if w.n_calls as usize >= model::NC {
        model::overflow()
    }
    let rec = model::CallRec { callee: callee.id, func, args: *args, failed: false, ret: [0; model::VW] };
    let mut i = 0;
    while i < model::NC {
        if i as u32 == w.n_calls {
            w.calls[i] = rec;
        }
        i += 1;
    }
    w.n_calls += 1;
}

pub trait TokenInterface {}
