use core::borrow::Borrow;

use crate::model::{self, CAP};
use crate::{flat_eq, flat_lt, Arb, Env, Flat};

/// Inline bounded vector. Every operation is one pass over `0..CAP` at concrete indices.
#[cfg_attr(not(feature = "vecclone"), derive(Clone))]
#[derive(Debug)]
pub struct Vec<T> {
    len: u32,
    items: [Option<T>; CAP],
}
/// feature `vecclone` (off by default; same result): element-wise clone in a plain loop. The derived `Clone` clones
/// the array `[Option<T>; CAP]` of a non-`Copy` `T` through core's `MaybeUninit` buffer (a union, written through raw
/// pointers): after it CBMC no longer propagates constants through the elements, so every later comparison of elements
/// that are CONSTANTS in the harness is left to the solver (e.g. `for x in v.iter()` clones `v`: an insertion sort of
/// 15 fixed signers then costs 7 M symbolic-execution steps instead of 0.3 M; C20 limit harnesses).
#[cfg(feature = "vecclone")]
impl<T: Clone> Clone for Vec<T> {
    fn clone(&self) -> Self {
        let mut v = Vec { len: self.len, items: [const { None }; CAP] };
        let mut k = 0;
        while k < CAP {
            if let Some(x) = &self.items[k] {
                v.items[k] = Some(x.clone());
            }
            k += 1;
        }
        v
    }
}

impl<T: Clone> Vec<T> {
    pub fn new(_e: &Env) -> Self {
        Vec { len: 0, items: [const { None }; CAP] }
    }
    pub fn env(&self) -> &Env {
        &Env
    }
    pub fn from_array<const N: usize>(e: &Env, a: [T; N]) -> Self {
        let mut v = Vec::new(e);
        for x in a {
            v.push_back(x);
        }
        v
    }
    pub fn from_slice(e: &Env, a: &[T]) -> Self {
        let mut v = Vec::new(e);
        for x in a {
            v.push_back(x.clone());
        }
        v
    }
    pub fn from_iter<I: IntoIterator<Item = T>>(e: &Env, it: I) -> Self {
        let mut v = Vec::new(e);
        for x in it {
            v.push_back(x);
        }
        v
    }
    #[inline(always)]
    pub fn len(&self) -> u32 {
        self.len
    }
    #[inline(always)]
    pub fn is_empty(&self) -> bool {
        self.len == 0
    }
    pub fn get(&self, i: u32) -> Option<T> {
        if i >= self.len {
            return None;
        }
        let mut k = 0;
        while k < CAP {
            if k as u32 == i {
                return self.items[k].clone();
            }
            k += 1;
        }
        None
    }
    pub fn try_get(&self, i: u32) -> Result<Option<T>, crate::ConversionError> {
        Ok(self.get(i))
    }
    pub fn get_unchecked(&self, i: u32) -> T {
        match self.get(i) {
            Some(x) => x,
            None => model::trap(0xffff_0010),
        }
    }
    pub fn first(&self) -> Option<T> {
        self.get(0)
    }
    pub fn first_unchecked(&self) -> T {
        self.get_unchecked(0)
    }
    pub fn last(&self) -> Option<T> {
        if self.len == 0 {
            None
        } else {
            self.get(self.len - 1)
        }
    }
    pub fn last_unchecked(&self) -> T {
        match self.last() {
            Some(x) => x,
            None => model::trap(0xffff_0010),
        }
    }
    pub fn set(&mut self, i: u32, v: T) {
        if i >= self.len {
            model::trap(0xffff_0010)
        }
        let mut v = Some(v);
        let mut k = 0;
        while k < CAP {
            if k as u32 == i {
                self.items[k] = v.take();
            }
            k += 1;
        }
    }
    pub fn push_back(&mut self, v: T) {
        if self.len as usize >= CAP {
            model::overflow()
        }
        let mut v = Some(v);
        let mut k = 0;
        while k < CAP {
            if k as u32 == self.len {
                self.items[k] = v.take();
            }
            k += 1;
        }
        self.len += 1;
    }
    pub fn push_front(&mut self, v: T) {
        self.insert(0, v)
    }
    pub fn insert(&mut self, i: u32, v: T) {
        if i > self.len {
            model::trap(0xffff_0010)
        }
        if self.len as usize >= CAP {
            model::overflow()
        }
        // shift right from the end
        let mut k = CAP - 1;
        while k > 0 {
            if k as u32 > i && k as u32 <= self.len {
                self.items[k] = self.items[k - 1].clone();
            }
            k -= 1;
        }
        let mut v = Some(v);
        let mut k = 0;
        while k < CAP {
            if k as u32 == i {
                self.items[k] = v.take();
            }
            k += 1;
        }
        self.len += 1;
    }
    pub fn pop_back(&mut self) -> Option<T> {
        if self.len == 0 {
            return None;
        }
        let r = self.get(self.len - 1);
        self.len -= 1;
        self.clear_tail();
        r
    }
    pub fn pop_back_unchecked(&mut self) -> T {
        match self.pop_back() {
            Some(x) => x,
            None => model::trap(0xffff_0010),
        }
    }
    pub fn pop_front(&mut self) -> Option<T> {
        if self.len == 0 {
            return None;
        }
        let r = self.get(0);
        self.remove(0);
        r
    }
    pub fn pop_front_unchecked(&mut self) -> T {
        match self.pop_front() {
            Some(x) => x,
            None => model::trap(0xffff_0010),
        }
    }
    pub fn remove(&mut self, i: u32) -> Option<()> {
        if i >= self.len {
            return None;
        }
        let mut k = 0;
        while k + 1 < CAP {
            if k as u32 >= i && (k as u32) + 1 < self.len {
                self.items[k] = self.items[k + 1].clone();
            }
            k += 1;
        }
        self.len -= 1;
        self.clear_tail();
        Some(())
    }
    pub fn remove_unchecked(&mut self, i: u32) {
        if self.remove(i).is_none() {
            model::trap(0xffff_0010)
        }
    }
    fn clear_tail(&mut self) {
        let mut k = 0;
        while k < CAP {
            if k as u32 >= self.len {
                self.items[k] = None;
            }
            k += 1;
        }
    }
    pub fn append(&mut self, o: &Vec<T>) {
        let mut k = 0;
        while k < CAP {
            if (k as u32) < o.len {
                if let Some(x) = &o.items[k] {
                    self.push_back(x.clone());
                }
            }
            k += 1;
        }
    }
    pub fn iter(&self) -> VecIter<T> {
        VecIter { v: self.clone(), i: 0, back: 0 }
    }
    pub fn slice(&self, r: impl core::ops::RangeBounds<u32>) -> Self {
        use core::ops::Bound::*;
        let lo = match r.start_bound() {
            Included(x) => *x,
            Excluded(x) => *x + 1,
            Unbounded => 0,
        };
        let hi = match r.end_bound() {
            Included(x) => *x + 1,
            Excluded(x) => *x,
            Unbounded => self.len,
        };
        if lo > hi || hi > self.len {
            model::trap(0xffff_0010)
        }
        let mut out = Vec::new(&Env);
        let mut k = 0;
        while k < CAP {
            if k as u32 >= lo && (k as u32) < hi {
                if let Some(x) = &self.items[k] {
                    out.push_back(x.clone());
                }
            }
            k += 1;
        }
        out
    }
    pub fn to_vals(&self) -> Vec<T> {
        self.clone()
    }
}

impl<T: Clone + Flat> Vec<T> {
    pub fn contains(&self, x: impl Borrow<T>) -> bool {
        self.first_index_of(x).is_some()
    }
    pub fn first_index_of(&self, x: impl Borrow<T>) -> Option<u32> {
        let x = x.borrow();
        let mut k = 0;
        while k < CAP {
            if (k as u32) < self.len {
                if let Some(y) = &self.items[k] {
                    if flat_eq(x, y) {
                        return Some(k as u32);
                    }
                }
            }
            k += 1;
        }
        None
    }
    pub fn last_index_of(&self, x: impl Borrow<T>) -> Option<u32> {
        let x = x.borrow();
        let mut r = None;
        let mut k = 0;
        while k < CAP {
            if (k as u32) < self.len {
                if let Some(y) = &self.items[k] {
                    if flat_eq(x, y) {
                        r = Some(k as u32);
                    }
                }
            }
            k += 1;
        }
        r
    }
    /// Host `binary_search`: on a vector that is sorted (strictly increasing in the model's flat order) the exact
    /// answer — Ok(index of the match) / Err(insertion point). On an UNSORTED vector a real binary search probes
    /// only some positions, so its answer depends on the probing sequence and on the host's own value order;
    /// the model then answers ARBITRARILY among the answers any binary search can give (Ok(i) only with
    /// element i equal to x; any Err position). Code that binary-searches a list it does not keep sorted is
    /// thereby exposed instead of being hidden by a linear scan. (Native, non-Kani runs use the sorted answer.)
    pub fn binary_search(&self, x: impl Borrow<T>) -> Result<u32, u32> {
        #[cfg(kani)]
        {
            let mut sorted = true;
            let mut k = 0;
            while k + 1 < CAP {
                if (k as u32) + 1 < self.len {
                    if let (Some(a), Some(b)) = (&self.items[k], &self.items[k + 1]) {
                        sorted &= flat_lt(a, b);
                    }
                }
                k += 1;
            }
            if !sorted {
                let xr = x.borrow();
                if model::arb_bool() {
                    let i = model::arb_below(CAP as u32);
                    let mut ok = false;
                    let mut k = 0;
                    while k < CAP {
                        if k as u32 == i && i < self.len {
                            if let Some(y) = &self.items[k] {
                                ok = flat_eq(xr, y);
                            }
                        }
                        k += 1;
                    }
                    model::assume(ok);
                    return Ok(i);
                }
                let j = model::arb_below(CAP as u32 + 1);
                model::assume(j <= self.len);
                return Err(j);
            }
        }
        self.search_sorted(x)
    }
    /// the sorted-vector answer (used directly by `Map`, whose keys are sorted by construction)
    pub(crate) fn search_sorted(&self, x: impl Borrow<T>) -> Result<u32, u32> {
        let x = x.borrow();
        // the flat words of `x` are computed once and every element is serialised once (same result as
        // `flat_eq` followed by `flat_lt` per element, a third of the symbolic-execution cost)
        let xw = crate::flat_words(x);
        let mut k = 0;
        while k < CAP {
            if (k as u32) < self.len {
                if let Some(y) = &self.items[k] {
                    let yw = crate::flat_words(y);
                    let (eq, lt) = crate::words_cmp(&xw, &yw, T::W);
                    if eq {
                        return Ok(k as u32);
                    }
                    if lt {
                        return Err(k as u32);
                    }
                }
            }
            k += 1;
        }
        Err(self.len)
    }
}

impl<T: Clone + Flat> PartialEq for Vec<T> {
    fn eq(&self, o: &Self) -> bool {
        if self.len != o.len {
            return false;
        }
        let mut r = true;
        let mut k = 0;
        while k < CAP {
            if (k as u32) < self.len {
                if let (Some(a), Some(b)) = (&self.items[k], &o.items[k]) {
                    r &= flat_eq(a, b);
                }
            }
            k += 1;
        }
        r
    }
}
impl<T: Clone + Flat> Eq for Vec<T> {}

pub struct VecIter<T> {
    v: Vec<T>,
    i: u32,
    back: u32,
}
impl<T: Clone> Iterator for VecIter<T> {
    type Item = T;
    fn next(&mut self) -> Option<T> {
        // The cursor advances on EVERY call (also on the exhausted one) and stops at CAP, so that it
        // stays a constant along each unwinding and `for` loops over a vector of SYMBOLIC length
        // are unwound CAP + 1 times instead of up to the harness' unwind bound (same results:
        // len <= CAP always, and an exhausted iterator keeps answering None).
        let k = self.i;
        if k as usize >= CAP {
            return None;
        }
        self.i = k + 1;
        if k + self.back >= self.v.len {
            return None;
        }
        self.v.get(k)
    }
    fn size_hint(&self) -> (usize, Option<usize>) {
        let n = self.v.len.saturating_sub(self.i).saturating_sub(self.back) as usize;
        (n, Some(n))
    }
}
impl<T: Clone> DoubleEndedIterator for VecIter<T> {
    fn next_back(&mut self) -> Option<T> {
        if self.i + self.back >= self.v.len {
            return None;
        }
        self.back += 1;
        self.v.get(self.v.len - self.back)
    }
}
impl<T: Clone> ExactSizeIterator for VecIter<T> {}
impl<T: Clone> IntoIterator for Vec<T> {
    type Item = T;
    type IntoIter = VecIter<T>;
    fn into_iter(self) -> VecIter<T> {
        VecIter { v: self, i: 0, back: 0 }
    }
}
impl<T: Clone> IntoIterator for &Vec<T> {
    type Item = T;
    type IntoIter = VecIter<T>;
    fn into_iter(self) -> VecIter<T> {
        self.iter()
    }
}

impl<T: Flat + Clone> Flat for Vec<T> {
    const W: usize = 1 + CAP * T::W;
    const TY: u64 = model::TY_VEC;
    fn put(&self, out: &mut [u64]) {
        out[0] = model::tag_u32(self.len);
        let mut k = 0;
        while k < CAP {
            if (k as u32) < self.len {
                if let Some(x) = &self.items[k] {
                    x.put(&mut out[1 + k * T::W..1 + (k + 1) * T::W]);
                }
            }
            k += 1;
        }
    }
    fn unflat(inp: &[u64]) -> Self {
        let len = model::untag_u32(inp[0]);
        if len as usize > CAP {
            model::trap_conversion()
        }
        let mut v = Vec { len, items: [const { None }; CAP] };
        let mut k = 0;
        while k < CAP {
            if (k as u32) < len {
                v.items[k] = Some(T::unflat(&inp[1 + k * T::W..1 + (k + 1) * T::W]));
            }
            k += 1;
        }
        v
    }
}
impl<T: Arb + Clone> Arb for Vec<T> {
    fn arb() -> Self {
        let len = model::arb_below(CAP as u32 + 1);
        let mut v = Vec { len, items: [const { None }; CAP] };
        let mut k = 0;
        while k < CAP {
            if (k as u32) < len {
                v.items[k] = Some(T::arb());
            }
            k += 1;
        }
        v
    }
}

/// Inline bounded map, kept sorted by the flat order of its keys (the host keeps maps sorted
/// by its own total order on values; only "sorted, no duplicate keys" is modelled).
#[derive(Clone, Debug)]
pub struct Map<K, V> {
    keys: Vec<K>,
    vals: Vec<V>,
}
impl<K: Clone + Flat, V: Clone> Map<K, V> {
    pub fn new(e: &Env) -> Self {
        Map { keys: Vec::new(e), vals: Vec::new(e) }
    }
    pub fn from_array<const N: usize>(e: &Env, a: [(K, V); N]) -> Self {
        let mut m = Map::new(e);
        for (k, v) in a {
            m.set(k, v);
        }
        m
    }
    pub fn len(&self) -> u32 {
        self.keys.len()
    }
    pub fn is_empty(&self) -> bool {
        self.keys.is_empty()
    }
    pub fn contains_key(&self, k: K) -> bool {
        self.keys.search_sorted(&k).is_ok()
    }
    pub fn get(&self, k: K) -> Option<V> {
        match self.keys.search_sorted(&k) {
            Ok(i) => self.vals.get(i),
            Err(_) => None,
        }
    }
    pub fn try_get(&self, k: K) -> Result<Option<V>, crate::ConversionError> {
        Ok(self.get(k))
    }
    pub fn get_unchecked(&self, k: K) -> V {
        match self.get(k) {
            Some(v) => v,
            None => model::trap(0xffff_0011),
        }
    }
    pub fn set(&mut self, k: K, v: V) {
        match self.keys.search_sorted(&k) {
            Ok(i) => self.vals.set(i, v),
            Err(i) => {
                self.keys.insert(i, k);
                self.vals.insert(i, v);
            }
        }
    }
    pub fn remove(&mut self, k: K) -> Option<()> {
        match self.keys.search_sorted(&k) {
            Ok(i) => {
                self.keys.remove(i);
                self.vals.remove(i);
                Some(())
            }
            Err(_) => None,
        }
    }
    pub fn remove_unchecked(&mut self, k: K) {
        if self.remove(k).is_none() {
            model::trap(0xffff_0011)
        }
    }
    /// harness-side constructor: the map with exactly these keys and values; ASSUMES the representation
    /// invariant (equal lengths, keys strictly increasing in the flat order) instead of sorting
    pub fn assume_from_parts(keys: Vec<K>, vals: Vec<V>) -> Self {
        model::assume(keys.len() == vals.len());
        let mut k = 1;
        while k < CAP {
            if (k as u32) < keys.len() {
                if let (Some(a), Some(b)) = (keys.get(k as u32 - 1), keys.get(k as u32)) {
                    model::assume(flat_lt(&a, &b));
                }
            }
            k += 1;
        }
        Map { keys, vals }
    }
    pub fn keys(&self) -> Vec<K> {
        self.keys.clone()
    }
    pub fn values(&self) -> Vec<V> {
        self.vals.clone()
    }
    pub fn iter(&self) -> MapIter<K, V> {
        MapIter { m: self.clone(), i: 0 }
    }
}
pub struct MapIter<K, V> {
    m: Map<K, V>,
    i: u32,
}
impl<K: Clone + Flat, V: Clone> Iterator for MapIter<K, V> {
    type Item = (K, V);
    fn next(&mut self) -> Option<(K, V)> {
        // cursor kept constant along each unwinding, see VecIter::next
        let i = self.i;
        if i as usize >= CAP {
            return None;
        }
        self.i = i + 1;
        if i >= self.m.keys.len() {
            return None;
        }
        let k = self.m.keys.get(i);
        let v = self.m.vals.get(i);
        match (k, v) {
            (Some(k), Some(v)) => Some((k, v)),
            _ => None,
        }
    }
}
impl<K: Clone + Flat, V: Clone> IntoIterator for Map<K, V> {
    type Item = (K, V);
    type IntoIter = MapIter<K, V>;
    fn into_iter(self) -> MapIter<K, V> {
        MapIter { m: self, i: 0 }
    }
}
impl<K: Clone + Flat, V: Clone + Flat> PartialEq for Map<K, V> {
    fn eq(&self, o: &Self) -> bool {
        self.keys == o.keys && self.vals == o.vals
    }
}
impl<K: Clone + Flat, V: Clone + Flat> Eq for Map<K, V> {}
impl<K: Clone + Flat, V: Clone + Flat> Flat for Map<K, V> {
    const W: usize = <Vec<K> as Flat>::W + <Vec<V> as Flat>::W;
    const TY: u64 = model::TY_MAP;
    fn put(&self, out: &mut [u64]) {
        self.keys.put(&mut out[..<Vec<K> as Flat>::W]);
        self.vals.put(&mut out[<Vec<K> as Flat>::W..<Vec<K> as Flat>::W + <Vec<V> as Flat>::W]);
    }
    fn unflat(inp: &[u64]) -> Self {
        let keys = <Vec<K> as Flat>::unflat(&inp[..<Vec<K> as Flat>::W]);
        let vals = <Vec<V> as Flat>::unflat(
            &inp[<Vec<K> as Flat>::W..<Vec<K> as Flat>::W + <Vec<V> as Flat>::W],
        );
        if keys.len() != vals.len() {
            model::trap_conversion()
        }
        Map { keys, vals }
    }
}
impl<K: Arb + Clone + Flat, V: Arb + Clone> Arb for Map<K, V> {
    /// arbitrary map: keys strictly increasing in the flat order (the representation invariant)
    fn arb() -> Self {
        let keys = <Vec<K> as Arb>::arb();
        let mut vals = Vec::new(&Env);
        let mut k = 0;
        while k < CAP {
            if (k as u32) < keys.len() {
                vals.push_back(V::arb());
                if k > 0 {
                    if let (Some(a), Some(b)) = (keys.get(k as u32 - 1), keys.get(k as u32)) {
                        model::assume(flat_lt(&a, &b));
                    }
                }
            }
            k += 1;
        }
        Map { keys, vals }
    }
}
