//! MODEL of the `soroban-sdk` surface used by OpenZeppelin/stellar-contracts.
//! Only for solver-based checking in /verif: the library crates are compiled unmodified
//! against this crate (cargo `[patch]`), so that Kani/CBMC can execute them symbolically.
//! See /verif/DESIGN.md §2 for the modelling decisions and the trusted base.
#![allow(clippy::all, dead_code, unused_variables)]

extern crate self as soroban_sdk;

pub mod model;

mod address;
pub mod auth;
mod bytes;
mod collections;
pub mod crypto;
mod env;
mod num;
mod symbol;
pub mod token;
mod val;
pub mod xdr;

pub use address::{Address, MuxedAddress};
pub use bytes::{Bytes, BytesN, String};
pub use collections::{Map, Vec};
pub use env::{Env, Ledger, Storage};
pub use hostmodel_macros::{
    contract, contractclient, contracterror, contractevent, contractimpl, contractmeta,
    contracttrait, contracttype, symbol_short,
};
pub use num::{I256, U256};
pub use symbol::Symbol;
pub use val::{
    ConversionError, Error, FromVal, IntoVal, InvokeError, TryFromVal, TryIntoVal, Val,
};

/// Fixed-width word serialisation at concrete offsets (the model's stand-in for `Val`/XDR
/// conversion). `put` writes into a zero-initialised buffer of exactly `W` words.
pub trait Flat: Sized {
    const W: usize;
    const TY: u64;
    fn put(&self, out: &mut [u64]);
    fn unflat(inp: &[u64]) -> Self;
}

/// "arbitrary value of this type" (symbolic under Kani)
pub trait Arb: Sized {
    fn arb() -> Self;
}

/// word-wise equality of two values through their flat encoding
pub fn flat_eq<T: Flat>(a: &T, b: &T) -> bool {
    // W is a per-type constant; buffers are sized by the largest storable value
    let mut x = [0u64; model::VW];
    let mut y = [0u64; model::VW];
    if T::W > model::VW {
        model::overflow()
    }
    a.put(&mut x[..T::W]);
    b.put(&mut y[..T::W]);
    let mut r = true;
    let mut i = 0;
    while i < T::W {
        r &= x[i] == y[i];
        i += 1;
    }
    r
}
/// the flat words of a value in a buffer sized for the largest storable value
pub fn flat_words<T: Flat>(a: &T) -> [u64; model::VW] {
    let mut x = [0u64; model::VW];
    if T::W > model::VW {
        model::overflow()
    }
    a.put(&mut x[..T::W]);
    x
}
/// (equal, less-than) of two flat encodings of width `w` (same order as `flat_eq` / `flat_lt`)
pub fn words_cmp(x: &[u64; model::VW], y: &[u64; model::VW], w: usize) -> (bool, bool) {
    let mut lt = false;
    let mut decided = false;
    let mut i = 0;
    while i < w {
        if !decided && x[i] != y[i] {
            decided = true;
            lt = x[i] < y[i];
        }
        i += 1;
    }
    (!decided, lt)
}
/// lexicographic order of flat encodings (the model's total order on map keys)
pub fn flat_lt<T: Flat>(a: &T, b: &T) -> bool {
    let mut x = [0u64; model::VW];
    let mut y = [0u64; model::VW];
    if T::W > model::VW {
        model::overflow()
    }
    a.put(&mut x[..T::W]);
    b.put(&mut y[..T::W]);
    let mut lt = false;
    let mut decided = false;
    let mut i = 0;
    while i < T::W {
        if !decided && x[i] != y[i] {
            decided = true;
            lt = x[i] < y[i];
        }
        i += 1;
    }
    lt
}

// ------------------------------------------------------------------ primitives
macro_rules! flat_word {
    ($t:ty, $ty:expr) => {
        impl Flat for $t {
            const W: usize = 1;
            const TY: u64 = $ty;
            #[inline(always)]
            fn put(&self, out: &mut [u64]) {
                out[0] = *self as u64;
            }
            #[inline(always)]
            fn unflat(inp: &[u64]) -> Self {
                inp[0] as $t
            }
        }
        impl Arb for $t {
            fn arb() -> Self {
                model::arb_u64() as $t
            }
        }
    };
}
flat_word!(u64, model::TY_U64);
flat_word!(i64, model::TY_I64);
flat_word!(i32, model::TY_I32);

impl Flat for u32 {
    const W: usize = 1;
    const TY: u64 = model::TY_U32;
    #[inline(always)]
    fn put(&self, out: &mut [u64]) {
        out[0] = model::tag_u32(*self);
    }
    #[inline(always)]
    fn unflat(inp: &[u64]) -> Self {
        model::untag_u32(inp[0])
    }
}
impl Arb for u32 {
    fn arb() -> Self {
        model::arb_u64() as u32
    }
}
impl Flat for bool {
    const W: usize = 1;
    const TY: u64 = model::TY_BOOL;
    #[inline(always)]
    fn put(&self, out: &mut [u64]) {
        out[0] = (model::TAG_BOOL << 56) | (*self as u64);
    }
    #[inline(always)]
    fn unflat(inp: &[u64]) -> Self {
        if inp[0] >> 56 != model::TAG_BOOL {
            model::trap_conversion()
        }
        inp[0] & 1 == 1
    }
}
impl Arb for bool {
    fn arb() -> Self {
        model::arb_bool()
    }
}
impl Flat for () {
    const W: usize = 0;
    const TY: u64 = model::TY_VOID;
    fn put(&self, _out: &mut [u64]) {}
    fn unflat(_inp: &[u64]) -> Self {}
}
impl Arb for () {
    fn arb() -> Self {}
}
macro_rules! flat_2word {
    ($t:ty, $ty:expr) => {
        impl Flat for $t {
            const W: usize = 2;
            const TY: u64 = $ty;
            #[inline(always)]
            fn put(&self, out: &mut [u64]) {
                out[0] = *self as u64;
                out[1] = ((*self as u128) >> 64) as u64;
            }
            #[inline(always)]
            fn unflat(inp: &[u64]) -> Self {
                (((inp[1] as u128) << 64) | inp[0] as u128) as $t
            }
        }
        impl Arb for $t {
            fn arb() -> Self {
                (((model::arb_u64() as u128) << 64) | model::arb_u64() as u128) as $t
            }
        }
    };
}
flat_2word!(u128, model::TY_U128);
flat_2word!(i128, model::TY_I128);

impl<T: Flat> Flat for Option<T> {
    const W: usize = 1 + T::W;
    const TY: u64 = model::TY_OPTION;
    fn put(&self, out: &mut [u64]) {
        match self {
            None => out[0] = model::TAG_VOID << 56,
            Some(x) => {
                out[0] = (model::TAG_VOID << 56) | 1;
                x.put(&mut out[1..1 + T::W]);
            }
        }
    }
    fn unflat(inp: &[u64]) -> Self {
        if inp[0] == (model::TAG_VOID << 56) | 1 {
            Some(T::unflat(&inp[1..1 + T::W]))
        } else if inp[0] == model::TAG_VOID << 56 {
            None
        } else {
            model::trap_conversion()
        }
    }
}
impl<T: Arb> Arb for Option<T> {
    fn arb() -> Self {
        if model::arb_bool() {
            Some(T::arb())
        } else {
            None
        }
    }
}

macro_rules! flat_tuple {
    ($($n:ident : $i:tt),+) => {
        impl<$($n: Flat),+> Flat for ($($n,)+) {
            const W: usize = 0 $(+ $n::W)+;
            const TY: u64 = model::TY_TUPLE;
            #[allow(unused_assignments)]
            fn put(&self, out: &mut [u64]) {
                let mut o = 0usize;
                $( self.$i.put(&mut out[o..o + $n::W]); o += $n::W; )+
            }
            #[allow(unused_assignments, non_snake_case)]
            fn unflat(inp: &[u64]) -> Self {
                let mut o = 0usize;
                $( let $n = $n::unflat(&inp[o..o + $n::W]); o += $n::W; )+
                ($($n,)+)
            }
        }
        impl<$($n: Arb),+> Arb for ($($n,)+) {
            fn arb() -> Self { ($($n::arb(),)+) }
        }
    };
}
flat_tuple!(A:0);
flat_tuple!(A:0, B:1);
flat_tuple!(A:0, B:1, C:2);
flat_tuple!(A:0, B:1, C:2, D:3);
flat_tuple!(A:0, B:1, C:2, D:3, E:4);
flat_tuple!(A:0, B:1, C:2, D:3, E:4, F:5);
flat_tuple!(A:0, B:1, C:2, D:3, E:4, F:5, G:6);

impl<T: Flat> Flat for &T {
    const W: usize = T::W;
    const TY: u64 = T::TY;
    #[inline(always)]
    fn put(&self, out: &mut [u64]) {
        (**self).put(out)
    }
    fn unflat(_inp: &[u64]) -> Self {
        // a reference cannot be produced from stored words; never used
        model::overflow()
    }
}

// ------------------------------------------------------------------ macros
#[macro_export]
macro_rules! panic_with_error {
    ($env:expr, $error:expr) => {{
        let _ = &$env;
        let __e: $crate::Error = ($error).into();
        $crate::model::trap(__e.code())
    }};
}

#[macro_export]
macro_rules! vec {
    ($env:expr $(,)?) => { $crate::Vec::new($env) };
    ($env:expr, $($x:expr),+ $(,)?) => { $crate::Vec::from_array($env, [$($x),+]) };
}

#[macro_export]
macro_rules! map {
    ($env:expr $(,)?) => { $crate::Map::new($env) };
    ($env:expr, $(($k:expr, $v:expr)),+ $(,)?) => { $crate::Map::from_array($env, [$(($k, $v)),+]) };
}

#[macro_export]
macro_rules! contractimport {
    ($($t:tt)*) => {};
}
