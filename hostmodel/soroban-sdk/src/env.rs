use crate::model::{self, KW, VW};
use crate::{crypto::Crypto, Address, BytesN, Error, IntoVal, Symbol, TryFromVal, Val, Vec};

#[derive(Clone, Copy, Debug, Default, PartialEq, Eq)]
pub struct Env;

impl Env {
    pub fn storage(&self) -> Storage {
        Storage
    }
    pub fn ledger(&self) -> Ledger {
        Ledger
    }
    pub fn crypto(&self) -> Crypto {
        Crypto
    }
    pub fn deployer(&self) -> Deployer {
        Deployer
    }
    pub fn current_contract_address(&self) -> Address {
        Address { id: model::world().contract }
    }
    pub fn panic_with_error(&self, e: impl Into<Error>) -> ! {
        let e: Error = e.into();
        model::trap(e.code())
    }
    /// generic cross-contract call: logged, arbitrary (or pinned) answer, traps if the callee fails
    pub fn invoke_contract<T: crate::Flat>(&self, callee: &Address, func: &Symbol, args: Vec<Val>) -> T {
        let mut a = model::ArgBuf::new();
        a.push(&args);
        let v: Val = model::foreign_call::<Val>(callee, func.w, &a);
        match v.to_flat::<T>() {
            Ok(x) => x,
            Err(_) => model::trap_conversion(),
        }
    }
    pub fn try_invoke_contract<T: crate::Flat, E>(
        &self,
        callee: &Address,
        func: &Symbol,
        args: Vec<Val>,
    ) -> Result<Result<T, crate::ConversionError>, Result<E, crate::InvokeError>>
    where
        E: TryFrom<Error>,
    {
        let mut a = model::ArgBuf::new();
        a.push(&args);
        match model::try_foreign_call::<Val>(callee, func.w, &a) {
            Ok(Ok(v)) => Ok(v.to_flat::<T>()),
            Ok(Err(c)) => Ok(Err(c)),
            Err(Ok(err)) => match E::try_from(err) {
                Ok(x) => Err(Ok(x)),
                Err(_) => Err(Err(crate::InvokeError::Contract(err.code()))),
            },
            Err(Err(ie)) => Err(Err(ie)),
        }
    }
    pub fn authorize_as_current_contract(&self, _entries: Vec<crate::auth::InvokerContractAuthEntry>) {}
}

#[derive(Clone, Copy)]
pub struct Storage;
impl Storage {
    pub fn instance(&self) -> Instance {
        Instance
    }
    pub fn persistent(&self) -> Persistent {
        Persistent
    }
    pub fn temporary(&self) -> Temporary {
        Temporary
    }
    pub fn max_ttl(&self) -> u32 {
        model::world().max_ttl
    }
}

fn key<K: IntoVal<Env, Val>>(k: &K) -> [u64; KW] {
    let mut out = [0u64; KW];
    if K::__W > KW {
        model::overflow()
    }
    k.__put(&mut out[..K::__W]);
    out
}
fn val<V: IntoVal<Env, Val>>(v: &V) -> [u64; VW] {
    let mut out = [0u64; VW];
    if V::__W > VW {
        model::overflow()
    }
    v.__put(&mut out[..V::__W]);
    out
}
struct Raw([u64; VW]);

/// feature `getmux` (off by default; same result): the words of the FIRST matching slot are selected inside the
/// scan and the value is decoded ONCE after it, instead of one decode per slot. For harnesses whose slot keys are
/// symbolic (every slot may match) this cuts the symbolic-execution cost of a read by the number of slots.
#[cfg(feature = "getmux")]
fn get<K: IntoVal<Env, Val>, V: TryFromVal<Env, Val>>(dur: u8, k: &K) -> Option<V> {
    if V::__W > VW {
        model::overflow()
    }
    let key = key(k);
    #[cfg(feature = "lazyfam")]
    if let Some(i) = model::lazy_index(dur, &key) {
        return match model::lazy_read(i) {
            Some(words) => Some(V::__take(&words[..V::__W])),
            None => None,
        };
    }
    let w = model::world();
    let seq = w.seq;
    let mut found = false;
    let mut is_live = false;
    let mut words = [0u64; VW];
    let mut i = 0;
    while i < model::NS {
        let s = &w.slots[i];
        if !found && s.claimed && s.dur == dur && keq(&s.key, &key) {
            found = true;
            is_live = s.present && (s.dur != 1 || s.live_until >= seq);
            let mut j = 0;
            while j < VW {
                if j < V::__W {
                    words[j] = s.val[j];
                }
                j += 1;
            }
        }
        i += 1;
    }
    if found && is_live {
        Some(V::__take(&words[..V::__W]))
    } else {
        None
    }
}
#[cfg(not(feature = "getmux"))]
fn get<K: IntoVal<Env, Val>, V: TryFromVal<Env, Val>>(dur: u8, k: &K) -> Option<V> {
    if V::__W > VW {
        model::overflow()
    }
    let key = key(k);
    #[cfg(feature = "lazyfam")]
    if let Some(i) = model::lazy_index(dur, &key) {
        return match model::lazy_read(i) {
            Some(words) => Some(V::__take(&words[..V::__W])),
            None => None,
        };
    }
    let w = model::world();
    let seq = w.seq;
    let mut i = 0;
    while i < model::NS {
        let s = &w.slots[i];
        if s.claimed && s.dur == dur && keq(&s.key, &key) {
            return if s.present && (s.dur != 1 || s.live_until >= seq) {
                Some(V::__take(&s.val[..V::__W]))
            } else {
                None
            };
        }
        i += 1;
    }
    None
}
fn keq(a: &[u64; KW], b: &[u64; KW]) -> bool {
    #[cfg(feature = "getmux")]
    if a[0] != b[0] {
        return false;
    }
    let mut r = true;
    let mut i = 0;
    while i < KW {
        r &= a[i] == b[i];
        i += 1;
    }
    r
}

macro_rules! durability {
    ($name:ident, $dur:expr) => {
        #[derive(Clone, Copy)]
        pub struct $name;
        impl $name {
            pub fn has<K: IntoVal<Env, Val>>(&self, k: &K) -> bool {
                model::st_has($dur, &key(k))
            }
            pub fn get<K: IntoVal<Env, Val>, V: TryFromVal<Env, Val>>(&self, k: &K) -> Option<V> {
                get::<K, V>($dur, k)
            }
            pub fn set<K: IntoVal<Env, Val>, V: IntoVal<Env, Val>>(&self, k: &K, v: &V) {
                model::st_set($dur, &key(k), &val(v))
            }
            pub fn remove<K: IntoVal<Env, Val>>(&self, k: &K) {
                model::st_remove($dur, &key(k))
            }
            pub fn update<K: IntoVal<Env, Val>, V: IntoVal<Env, Val> + TryFromVal<Env, Val>>(
                &self,
                k: &K,
                f: impl FnOnce(Option<V>) -> V,
            ) -> V {
                let v = f(self.get(k));
                self.set(k, &v);
                v
            }
        }
    };
}
durability!(Persistent, 0);
durability!(Temporary, 1);
durability!(Instance, 2);
impl Persistent {
    pub fn extend_ttl<K: IntoVal<Env, Val>>(&self, k: &K, threshold: u32, extend_to: u32) {
        model::st_extend_ttl(0, &key(k), threshold, extend_to)
    }
}
impl Temporary {
    pub fn extend_ttl<K: IntoVal<Env, Val>>(&self, k: &K, threshold: u32, extend_to: u32) {
        model::st_extend_ttl(1, &key(k), threshold, extend_to)
    }
}
impl Instance {
    /// the instance's own TTL is not modelled (instance entries never expire in the model)
    pub fn extend_ttl(&self, threshold: u32, extend_to: u32) {
        if threshold > extend_to {
            model::trap_storage()
        }
    }
}

#[derive(Clone, Copy)]
pub struct Ledger;
impl Ledger {
    pub fn sequence(&self) -> u32 {
        model::world().seq
    }
    pub fn timestamp(&self) -> u64 {
        model::world().timestamp
    }
    pub fn max_live_until_ledger(&self) -> u32 {
        let w = model::world();
        w.seq.saturating_add(w.max_ttl).saturating_sub(1)
    }
    pub fn network_id(&self) -> BytesN<32> {
        <BytesN<32> as crate::Flat>::unflat(&model::world().network_id)
    }
    pub fn protocol_version(&self) -> u32 {
        25
    }
}

#[derive(Clone, Copy)]
pub struct Deployer;
impl Deployer {
    pub fn update_current_contract_wasm(&self, _hash: impl Into<BytesN<32>>) {
        model::world().wasm_updates += 1;
    }
}
