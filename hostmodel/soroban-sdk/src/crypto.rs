use crate::model::{self, HW};
use crate::{Bytes, BytesN, Env, Flat};

#[derive(Clone, Debug, PartialEq, Eq)]
pub struct Hash<const N: usize>(BytesN<N>);
impl<const N: usize> Hash<N> {
    pub fn to_bytes(&self) -> BytesN<N> {
        self.0.clone()
    }
    pub fn to_array(&self) -> [u8; N] {
        self.0.to_array()
    }
    pub fn from_bytes(b: BytesN<N>) -> Self {
        Hash(b)
    }
}
impl<const N: usize> From<Hash<N>> for BytesN<N> {
    fn from(h: Hash<N>) -> Self {
        h.0
    }
}
impl<const N: usize> From<Hash<N>> for Bytes {
    fn from(h: Hash<N>) -> Self {
        h.0.into()
    }
}
impl<const N: usize> From<Hash<N>> for [u8; N] {
    fn from(h: Hash<N>) -> Self {
        h.0.to_array()
    }
}

#[derive(Clone, Copy)]
pub struct Crypto;

fn oracle(kind: u8, data: &Bytes) -> Hash<32> {
    let w = data.words();
    if w.len() > HW {
        model::overflow()
    }
    let mut inp = [0u64; HW];
    let mut i = 0;
    while i < HW {
        if i < w.len() {
            inp[i] = w[i];
        }
        i += 1;
    }
    let out = model::hash_oracle(kind, data.len(), &inp);
    Hash(<BytesN<32> as Flat>::unflat(&out))
}

impl Crypto {
    pub fn sha256(&self, data: &Bytes) -> Hash<32> {
        oracle(1, data)
    }
    pub fn keccak256(&self, data: &Bytes) -> Hash<32> {
        oracle(2, data)
    }
    /// signature oracle: logged as a foreign call on the pseudo address `u32::MAX`; traps = invalid
    pub fn ed25519_verify(&self, pk: &BytesN<32>, msg: &Bytes, sig: &BytesN<64>) {
        let mut a = model::ArgBuf::new();
        a.push(pk);
        a.push(msg);
        a.push(sig);
        model::foreign_call::<()>(&crate::Address { id: u32::MAX }, crate::Symbol::of("ed25519_verify"), &a)
    }
    pub fn secp256r1_verify(&self, pk: &BytesN<65>, digest: &Hash<32>, sig: &BytesN<64>) {
        let mut a = model::ArgBuf::new();
        a.push(pk);
        a.push(&digest.0);
        a.push(sig);
        model::foreign_call::<()>(&crate::Address { id: u32::MAX }, crate::Symbol::of("secp256r1_verify"), &a)
    }
    pub fn secp256k1_recover(&self, digest: &Hash<32>, sig: &BytesN<64>, rec: u32) -> BytesN<65> {
        let mut a = model::ArgBuf::new();
        a.push(&digest.0);
        a.push(sig);
        a.push(&rec);
        model::foreign_call::<BytesN<65>>(&crate::Address { id: u32::MAX }, crate::Symbol::of("secp256k1_recover"), &a)
    }
}
pub fn env_unused(_e: &Env) {}

impl<const N: usize> Flat for Hash<N> {
    const W: usize = <BytesN<N> as Flat>::W;
    const TY: u64 = model::TY_BYTES;
    fn put(&self, out: &mut [u64]) {
        self.0.put(out)
    }
    fn unflat(inp: &[u64]) -> Self {
        Hash(<BytesN<N> as Flat>::unflat(inp))
    }
}
impl<const N: usize> crate::Arb for Hash<N> {
    fn arb() -> Self {
        Hash(<BytesN<N> as crate::Arb>::arb())
    }
}
