//! Proc-macros of the Soroban host MODEL used by /verif (not the real soroban-sdk-macros).
//!
//! They keep the annotated Rust items as they are and add, for the model only:
//!  * `#[contracttype]`  -> `impl Flat` (fixed-width word serialisation at concrete offsets)
//!                          and `impl Arb` ("arbitrary value", symbolic under Kani)
//!  * `#[contracterror]` -> conversions to `soroban_sdk::Error`
//!  * `#[contractevent]` -> `publish(&self, &Env)` appending to the model's event log
//!  * `#[contractclient(name = "X")]` -> a client whose methods go to the foreign-call oracle
//!  * `#[contract]`, `#[contractimpl]`, `#[contracttrait]` -> pass-through
extern crate proc_macro;
use proc_macro::TokenStream;
use proc_macro2::{Span, TokenStream as TS2};
use quote::{format_ident, quote};
use syn::{
    parse_macro_input, Data, DeriveInput, Fields, FnArg, Ident, ItemTrait, Pat, ReturnType,
    TraitItem, Type,
};

const TAG_SYM: u64 = 3;

fn fnv56(s: &str) -> u64 {
    let mut h: u64 = 0xcbf29ce484222325;
    for b in s.as_bytes() {
        h ^= *b as u64;
        h = h.wrapping_mul(0x100000001b3);
    }
    h & ((1u64 << 56) - 1)
}
fn symword(s: &str) -> u64 {
    (TAG_SYM << 56) | fnv56(s)
}

#[proc_macro_attribute]
pub fn contract(_attr: TokenStream, item: TokenStream) -> TokenStream {
    item
}

#[proc_macro_attribute]
pub fn contractimpl(_attr: TokenStream, item: TokenStream) -> TokenStream {
    item
}

#[proc_macro_attribute]
pub fn contracttrait(_attr: TokenStream, item: TokenStream) -> TokenStream {
    item
}

#[proc_macro]
pub fn contractmeta(_item: TokenStream) -> TokenStream {
    TokenStream::new()
}

#[proc_macro]
pub fn symbol_short(item: TokenStream) -> TokenStream {
    let lit = parse_macro_input!(item as syn::LitStr);
    let w = symword(&lit.value());
    quote!(::soroban_sdk::Symbol::from_word(#w)).into()
}

fn strip_field_attrs(input: &mut DeriveInput, names: &[&str]) {
    let strip = |fields: &mut Fields| {
        for f in fields.iter_mut() {
            f.attrs.retain(|a| !names.iter().any(|n| a.path().is_ident(n)));
        }
    };
    match &mut input.data {
        Data::Struct(s) => strip(&mut s.fields),
        Data::Enum(e) => {
            for v in e.variants.iter_mut() {
                strip(&mut v.fields);
            }
        }
        _ => {}
    }
}

/// offsets: emits `let o0 = base; let o1 = o0 + <T0 as Flat>::W; ...`
fn field_types(fields: &Fields) -> Vec<Type> {
    fields.iter().map(|f| f.ty.clone()).collect()
}

fn width_expr(tys: &[Type]) -> TS2 {
    let mut e = quote!(0usize);
    for t in tys {
        e = quote!(#e + <#t as ::soroban_sdk::Flat>::W);
    }
    e
}

#[proc_macro_attribute]
pub fn contracttype(_attr: TokenStream, item: TokenStream) -> TokenStream {
    let input = parse_macro_input!(item as DeriveInput);
    let name = input.ident.clone();
    let (ig, tg, wc) = input.generics.split_for_impl();
    let name_s = name.to_string();
    let ty_word = symword(&name_s);
    let body = match &input.data {
        Data::Struct(s) => {
            let tys = field_types(&s.fields);
            let w = width_expr(&tys);
            let accessors: Vec<TS2> = s
                .fields
                .iter()
                .enumerate()
                .map(|(i, f)| match &f.ident {
                    Some(id) => quote!(#id),
                    None => {
                        let idx = syn::Index::from(i);
                        quote!(#idx)
                    }
                })
                .collect();
            let mut puts = TS2::new();
            let mut takes = TS2::new();
            let mut arbs = TS2::new();
            let mut ctor_fields = TS2::new();
            for (i, (t, a)) in tys.iter().zip(accessors.iter()).enumerate() {
                let v = format_ident!("f{}", i);
                puts.extend(quote! {
                    <#t as ::soroban_sdk::Flat>::put(&self.#a, &mut out[o..o + <#t as ::soroban_sdk::Flat>::W]);
                    o += <#t as ::soroban_sdk::Flat>::W;
                });
                takes.extend(quote! {
                    let #v = <#t as ::soroban_sdk::Flat>::unflat(&inp[o..o + <#t as ::soroban_sdk::Flat>::W]);
                    o += <#t as ::soroban_sdk::Flat>::W;
                });
                arbs.extend(quote! { let #v = <#t as ::soroban_sdk::Arb>::arb(); });
                ctor_fields.extend(quote! { #a: #v, });
            }
            quote! {
                impl #ig ::soroban_sdk::Flat for #name #tg #wc {
                    const W: usize = #w;
                    const TY: u64 = #ty_word;
                    #[allow(unused_assignments, unused_mut, unused_variables)]
                    fn put(&self, out: &mut [u64]) {
                        let mut o = 0usize;
                        #puts
                    }
                    #[allow(unused_assignments, unused_mut, unused_variables)]
                    fn unflat(inp: &[u64]) -> Self {
                        let mut o = 0usize;
                        #takes
                        #name { #ctor_fields }
                    }
                }
                impl #ig ::soroban_sdk::Arb for #name #tg #wc {
                    fn arb() -> Self {
                        #arbs
                        #name { #ctor_fields }
                    }
                }
            }
        }
        Data::Enum(en) => {
            let is_int_enum = en.variants.iter().all(|v| matches!(v.fields, Fields::Unit))
                && en.variants.iter().any(|v| v.discriminant.is_some());
            if is_int_enum {
                // #[repr(u32)] enum with explicit discriminants: stored as U32
                let mut take_arms = TS2::new();
                let mut arb_arms = TS2::new();
                let mut code_arms = TS2::new();
                let n = en.variants.len() as u32;
                for (i, v) in en.variants.iter().enumerate() {
                    let id = &v.ident;
                    let i = i as u32;
                    code_arms.extend(quote! { #name::#id => #name::#id as u32, });
                    take_arms.extend(quote! { if x == (#name::#id as u32) { return #name::#id; } });
                    arb_arms.extend(quote! { if k == #i { return #name::#id; } });
                }
                quote! {
                    impl ::soroban_sdk::Flat for #name {
                        const W: usize = 1;
                        const TY: u64 = ::soroban_sdk::model::TY_U32;
                        fn put(&self, out: &mut [u64]) { out[0] = ::soroban_sdk::model::tag_u32(match self { #code_arms }); }
                        fn unflat(inp: &[u64]) -> Self {
                            let x = ::soroban_sdk::model::untag_u32(inp[0]);
                            #take_arms
                            ::soroban_sdk::model::trap_conversion()
                        }
                    }
                    impl ::soroban_sdk::Arb for #name {
                        fn arb() -> Self {
                            let k: u32 = ::soroban_sdk::model::arb_below(#n);
                            #arb_arms
                            ::soroban_sdk::model::trap_conversion()
                        }
                    }
                }
            } else {
                let mut w = quote!(0usize);
                let mut put_arms = TS2::new();
                let mut take_arms = TS2::new();
                let mut arb_arms = TS2::new();
                let n = en.variants.len() as u32;
                for (i, v) in en.variants.iter().enumerate() {
                    let id = &v.ident;
                    let sw = symword(&id.to_string());
                    let tys = field_types(&v.fields);
                    let vw = width_expr(&tys);
                    w = quote!(::soroban_sdk::model::max_usize(#w, #vw));
                    let binds: Vec<Ident> =
                        (0..tys.len()).map(|k| format_ident!("f{}", k)).collect();
                    let mut puts = TS2::new();
                    let mut takes = TS2::new();
                    let mut arbs = TS2::new();
                    for (t, b) in tys.iter().zip(binds.iter()) {
                        puts.extend(quote! {
                            <#t as ::soroban_sdk::Flat>::put(#b, &mut out[o..o + <#t as ::soroban_sdk::Flat>::W]);
                            o += <#t as ::soroban_sdk::Flat>::W;
                        });
                        takes.extend(quote! {
                            let #b = <#t as ::soroban_sdk::Flat>::unflat(&inp[o..o + <#t as ::soroban_sdk::Flat>::W]);
                            o += <#t as ::soroban_sdk::Flat>::W;
                        });
                        arbs.extend(quote! { let #b = <#t as ::soroban_sdk::Arb>::arb(); });
                    }
                    let i = i as u32;
                    match &v.fields {
                        Fields::Unit => {
                            put_arms.extend(quote! { #name::#id => { out[0] = #sw; } });
                            take_arms.extend(quote! { if t == #sw { return #name::#id; } });
                            arb_arms.extend(quote! { if k == #i { return #name::#id; } });
                        }
                        Fields::Unnamed(_) => {
                            put_arms.extend(quote! { #name::#id( #(#binds),* ) => { out[0] = #sw; #puts } });
                            take_arms.extend(quote! { if t == #sw { #takes return #name::#id( #(#binds),* ); } });
                            arb_arms.extend(quote! { if k == #i { #arbs return #name::#id( #(#binds),* ); } });
                        }
                        Fields::Named(nf) => {
                            let names: Vec<Ident> =
                                nf.named.iter().map(|f| f.ident.clone().unwrap()).collect();
                            put_arms.extend(quote! { #name::#id { #(#names: #binds),* } => { out[0] = #sw; #puts } });
                            take_arms.extend(quote! { if t == #sw { #takes return #name::#id { #(#names: #binds),* }; } });
                            arb_arms.extend(quote! { if k == #i { #arbs return #name::#id { #(#names: #binds),* }; } });
                        }
                    }
                }
                quote! {
                    impl #ig ::soroban_sdk::Flat for #name #tg #wc {
                        const W: usize = 1 + #w;
                        const TY: u64 = #ty_word;
                        #[allow(unused_assignments, unused_mut, unused_variables)]
                        fn put(&self, out: &mut [u64]) {
                            let mut o = 1usize;
                            match self { #put_arms }
                        }
                        #[allow(unused_assignments, unused_mut, unused_variables)]
                        fn unflat(inp: &[u64]) -> Self {
                            let t = inp[0];
                            let mut o = 1usize;
                            #take_arms
                            ::soroban_sdk::model::trap_conversion()
                        }
                    }
                    impl #ig ::soroban_sdk::Arb for #name #tg #wc {
                        #[allow(unused_variables)]
                        fn arb() -> Self {
                            let k: u32 = ::soroban_sdk::model::arb_below(#n);
                            #arb_arms
                            ::soroban_sdk::model::trap_conversion()
                        }
                    }
                }
            }
        }
        Data::Union(_) => quote!(compile_error!("contracttype on union")),
    };
    quote! { #input #body }.into()
}

#[proc_macro_attribute]
pub fn contracterror(_attr: TokenStream, item: TokenStream) -> TokenStream {
    let input = parse_macro_input!(item as DeriveInput);
    let name = input.ident.clone();
    let mut arms = TS2::new();
    let mut code_arms = TS2::new();
    if let Data::Enum(en) = &input.data {
        for v in en.variants.iter() {
            let id = &v.ident;
            arms.extend(quote! { if x == (#name::#id as u32) { return Ok(#name::#id); } });
            code_arms.extend(quote! { #name::#id => #name::#id as u32, });
        }
    }
    quote! {
        #input
        impl #name {
            #[doc(hidden)]
            pub fn __code(&self) -> u32 { match self { #code_arms } }
        }
        impl From<#name> for ::soroban_sdk::Error {
            fn from(v: #name) -> Self { ::soroban_sdk::Error::from_contract_error(v.__code()) }
        }
        impl From<&#name> for ::soroban_sdk::Error {
            fn from(v: &#name) -> Self { ::soroban_sdk::Error::from_contract_error(v.__code()) }
        }
        impl TryFrom<::soroban_sdk::Error> for #name {
            type Error = ::soroban_sdk::Error;
            fn try_from(e: ::soroban_sdk::Error) -> Result<Self, ::soroban_sdk::Error> {
                let x = e.code();
                #arms
                Err(e)
            }
        }
        impl From<#name> for ::soroban_sdk::InvokeError {
            fn from(v: #name) -> Self { ::soroban_sdk::InvokeError::Contract(v.__code()) }
        }
        impl TryFrom<::soroban_sdk::InvokeError> for #name {
            type Error = ::soroban_sdk::InvokeError;
            fn try_from(e: ::soroban_sdk::InvokeError) -> Result<Self, ::soroban_sdk::InvokeError> {
                match e {
                    ::soroban_sdk::InvokeError::Contract(x) => { #arms Err(e) }
                    _ => Err(e),
                }
            }
        }
        impl ::soroban_sdk::Flat for #name {
            const W: usize = 1;
            const TY: u64 = ::soroban_sdk::model::TY_ERROR;
            fn put(&self, out: &mut [u64]) { out[0] = ::soroban_sdk::model::tag_u32(self.__code()); }
            fn unflat(inp: &[u64]) -> Self {
                let x = ::soroban_sdk::model::untag_u32(inp[0]);
                let r: Result<Self, ()> = (|| { #arms Err(()) })();
                match r { Ok(v) => v, Err(_) => ::soroban_sdk::model::trap_conversion() }
            }
        }
    }
    .into()
}

#[proc_macro_attribute]
pub fn contractevent(_attr: TokenStream, item: TokenStream) -> TokenStream {
    let mut input = parse_macro_input!(item as DeriveInput);
    let name = input.ident.clone();
    let ev_word = symword(&name.to_string());
    // field list with topic marks, in declaration order
    let mut puts = TS2::new();
    let mut w = quote!(0usize);
    if let Data::Struct(s) = &input.data {
        for f in s.fields.iter() {
            let id = f.ident.clone().expect("contractevent needs named fields");
            let t = &f.ty;
            puts.extend(quote! {
                <#t as ::soroban_sdk::Flat>::put(&self.#id, &mut out[o..o + <#t as ::soroban_sdk::Flat>::W]);
                o += <#t as ::soroban_sdk::Flat>::W;
            });
            w = quote!(#w + <#t as ::soroban_sdk::Flat>::W);
        }
    }
    strip_field_attrs(&mut input, &["topic"]);
    let (ig, tg, wc) = input.generics.split_for_impl();
    quote! {
        #input
        impl #ig #name #tg #wc {
            pub const EVENT_ID: u64 = #ev_word;
            pub const EVENT_W: usize = #w;
            /// flat words of all fields in declaration order (topics and data alike)
            #[allow(unused_assignments, unused_mut)]
            pub fn event_words(&self) -> [u64; ::soroban_sdk::model::EW] {
                let mut buf = [0u64; ::soroban_sdk::model::EW];
                if Self::EVENT_W > ::soroban_sdk::model::EW { ::soroban_sdk::model::overflow(); }
                let out = &mut buf[..];
                let mut o = 0usize;
                #puts
                buf
            }
            pub fn publish(&self, _e: &::soroban_sdk::Env) {
                ::soroban_sdk::model::emit_event(Self::EVENT_ID, self.event_words());
            }
        }
    }
    .into()
}

struct ClientArgs {
    name: Ident,
}
impl syn::parse::Parse for ClientArgs {
    fn parse(input: syn::parse::ParseStream) -> syn::Result<Self> {
        let mut name = None;
        while !input.is_empty() {
            let k: Ident = input.parse()?;
            let _: syn::Token![=] = input.parse()?;
            if k == "name" {
                let v: syn::LitStr = input.parse()?;
                name = Some(Ident::new(&v.value(), Span::call_site()));
            } else {
                let _: syn::Expr = input.parse()?;
            }
            if input.peek(syn::Token![,]) {
                let _: syn::Token![,] = input.parse()?;
            }
        }
        Ok(ClientArgs { name: name.expect("contractclient needs name = \"..\"") })
    }
}

#[proc_macro_attribute]
pub fn contractclient(attr: TokenStream, item: TokenStream) -> TokenStream {
    let args = parse_macro_input!(attr as ClientArgs);
    let tr = parse_macro_input!(item as ItemTrait);
    let cname = args.name;
    let mut methods = TS2::new();
    for it in tr.items.iter() {
        if let TraitItem::Fn(f) = it {
            let fname = &f.sig.ident;
            let tname = format_ident!("try_{}", fname);
            let fsym = symword(&fname.to_string());
            let mut params = TS2::new();
            let mut pushes = TS2::new();
            for (i, a) in f.sig.inputs.iter().enumerate() {
                if let FnArg::Typed(pt) = a {
                    // skip the Env parameter
                    let ty = &*pt.ty;
                    let tys = quote!(#ty).to_string().replace(' ', "");
                    if tys == "&Env" || tys == "Env" || tys == "&soroban_sdk::Env" || tys == "soroban_sdk::Env" {
                        continue;
                    }
                    let pid = match &*pt.pat {
                        Pat::Ident(pi) => pi.ident.clone(),
                        _ => format_ident!("arg{}", i),
                    };
                    let ty: Type = match ty { Type::Reference(r) => (*r.elem).clone(), t => t.clone() };
                    params.extend(quote! { #pid: &#ty, });
                    pushes.extend(quote! { __a.push(#pid); });
                }
            }
            let ret = match &f.sig.output {
                ReturnType::Default => quote!(()),
                ReturnType::Type(_, t) => quote!(#t),
            };
            methods.extend(quote! {
                #[allow(clippy::too_many_arguments)]
                pub fn #fname(&self, #params) -> #ret {
                    let mut __a = ::soroban_sdk::model::ArgBuf::new();
                    #pushes
                    ::soroban_sdk::model::foreign_call::<#ret>(&self.address, #fsym, &__a)
                }
                #[allow(clippy::too_many_arguments)]
                pub fn #tname(&self, #params) -> Result<Result<#ret, ::soroban_sdk::ConversionError>, Result<::soroban_sdk::Error, ::soroban_sdk::InvokeError>> {
                    let mut __a = ::soroban_sdk::model::ArgBuf::new();
                    #pushes
                    ::soroban_sdk::model::try_foreign_call::<#ret>(&self.address, #fsym, &__a)
                }
            });
        }
    }
    quote! {
        #tr
        pub struct #cname<'a> {
            pub env: ::soroban_sdk::Env,
            pub address: ::soroban_sdk::Address,
            _p: ::core::marker::PhantomData<&'a ()>,
        }
        impl<'a> #cname<'a> {
            pub fn new(env: &::soroban_sdk::Env, address: &::soroban_sdk::Address) -> Self {
                Self { env: env.clone(), address: address.clone(), _p: ::core::marker::PhantomData }
            }
            #methods
        }
    }
    .into()
}
