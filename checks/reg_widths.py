"""Production-width companions of hook-based claims: the bucket hooks (cfg stellar_verif) make BUCKET_SIZE = 2, a power of
two; arithmetic that is only right for such widths (e.g. `index & (BUCKET_SIZE - 1)` instead of `% BUCKET_SIZE`) would
pass there. These entries run the bucket-0 harnesses at the REAL bucket width with 8-element vectors (offsets 0..7)."""
from registry import K
PROFILES = {'reg_cap8': {'features': ['cap8']}}
B = 'token binder at the production bucket width (BUCKET_SIZE = 100), bucket 0 with 0..8 pairwise different tokens (offsets 0..7), address ids full u32; NS=12, unwind 14'
CHECKS = {'C20': {'kani': [
    K('registries::binder::unbind_token_step', profile='reg_cap8', functions=['token_binder::unbind_token', 'token_binder::get_token_index'], bounds=B),
    K('registries::binder::bind_token_step', profile='reg_cap8', functions=['token_binder::bind_token'], bounds=B),
]}}

# macro composition / parameter shapes (harness-local functions carrying the real stellar_macros attributes)
_M = dict(functions=['stellar_macros::only_owner', 'stellar_macros::only_admin', 'stellar_macros::only_role', 'stellar_macros::when_not_paused'],
          bounds='five harness-local functions with stacked attributes (only_owner / only_admin / only_role above when_not_paused, when_not_paused above only_owner) and only_role on a borrowed &Address parameter; Paused, Owner, Admin, HasRole(caller, "minter") present/absent; symbolic authorization set')
CHECKS['C16'] = {'kani': [K('gates::pausable::stacked_attribute_macros', **_M)]}
CHECKS['C06'] = {'kani': [K('gates::pausable::stacked_attribute_macros', **_M)]}
