"""C13 (voting power = delegated voting units, now and at every past ledger) -- harness family kani/src/votes.rs.
Also contributes the FungibleVotes token flavour to C01 and C02 (the wrapper harnesses assert the base-token
clauses under C01.votes.* / C02.votes.* names)."""
from registry import K

PROFILES = {'votes24': {'features': ['ns24']}}

V = 'governance::votes::'
PUSH = [V + 'push_checkpoint', V + 'apply_checkpoint_op', V + 'get_num_checkpoints', V + 'get_checkpoint', V + 'checkpoint_storage_key']
MOVE = [V + 'move_delegate_votes', V + 'emit_delegate_votes_changed'] + PUSH
UNITS = [V + 'transfer_voting_units', V + 'get_voting_units', V + 'set_voting_units', V + 'get_delegate'] + MOVE
LOOK = [V + 'get_votes_at_checkpoint', V + 'get_total_supply_at_checkpoint', V + 'lookup_checkpoint_at', V + 'get_checkpoint', V + 'get_num_checkpoints']
FB = ['fungible::Base::update', 'fungible::Base::balance', 'fungible::Base::total_supply', 'fungible::Base::spend_allowance', 'fungible::Base::allowance_data']
NB = ['non_fungible::Base::update', 'non_fungible::Base::owner_of', 'non_fungible::Base::increase_balance', 'non_fungible::Base::decrease_balance',
      'non_fungible::Base::check_spender_approval']

TAIL = ('timelines of ARBITRARY length n (full u32): count, last checkpoint and append position are declared, a write to any other '
        'checkpoint is a violation; tracked delegates D0, D1 (+ ghost "other delegators" = free surplus of the latest votes); accounts any of 4; '
        'units/votes/amount full u128; ledger/TTL full u32; NS=12 slots, unwind 14')
CONC = 'timelines of <= %d checkpoints at concrete indices (strictly increasing ledgers <= sequence, values full u128), query ledger full u32'
WRAP_F = ('accounts 0..2 with units == balance (fungible::declare_balances: 4 balances + supply + rest ghost), votes total supply == token supply, '
          'amount full i128, allowance entry arbitrary; %s')
WRAP_N = ('one token id (full u32) among owners 0..2 with units == Balance (u32), approval / operator entries arbitrary; %s')
NODELEG = 'no Delegatee entry exists (nobody delegates); NS=12'
DELEG = 'every account delegates to none / D0 / D1, tail-layout timelines of arbitrary length for D0, D1; NS=24, unwind 26'

STEP = [
    K('votes::delegate_step', functions=[V + 'delegate', V + 'emit_delegate_changed', V + 'get_delegate', V + 'get_voting_units', V + 'get_votes'] + MOVE, bounds=TAIL),
    K('votes::units_transfer', functions=UNITS, bounds=TAIL + '; from/to possibly equal'),
    K('votes::units_mint_burn', functions=UNITS + [V + 'get_total_supply'], bounds=TAIL + '; + total-supply timeline of arbitrary length'),
    K('votes::two_mints_one_ledger', functions=UNITS + [V + 'get_total_supply', V + 'get_votes'], bounds=TAIL + '; history: two mints inside one ledger'),
    K('votes::mint_then_burn_one_ledger', tier='thorough', functions=UNITS + [V + 'get_total_supply', V + 'get_votes'], bounds=TAIL + '; history: mint then burn inside one ledger'),
    K('votes::current_getters', functions=[V + 'get_votes', V + 'num_checkpoints', V + 'get_total_supply', V + 'get_delegate', V + 'get_voting_units'], bounds=TAIL),
    K('votes::delegate_accepted', must_succeed=True, functions=[V + 'delegate'] + MOVE,
      bounds=TAIL + '; ledger and max TTL <= u32::MAX/2, timelines shorter than u32::MAX, no u128 overflow of the gaining delegate'),
]
LOOKUP = [
    K('votes::lookup_votes_4', functions=LOOK, bounds=CONC % 4),
    K('votes::lookup_total_4', functions=LOOK, bounds=CONC % 4),
    K('votes::lookup_votes_4_answered', must_succeed=True, functions=LOOK, bounds=CONC % 4 + '; query ledger < sequence <= u32::MAX/2, max TTL <= u32::MAX/2'),
    K('votes::lookup_total_4_answered', tier='thorough', must_succeed=True, functions=LOOK, bounds=CONC % 4 + '; query ledger < sequence <= u32::MAX/2, max TTL <= u32::MAX/2'),
    K('votes::lookup_votes_8', tier='thorough', functions=LOOK, bounds=CONC % 8),
    K('votes::lookup_total_8', tier='thorough', functions=LOOK, bounds=CONC % 8),
]
PAST = [
    K('votes::past_mint_burn_votes', tier='thorough', functions=UNITS + LOOK, bounds=CONC % 2 + ' before the step (3 after) for the queried delegate D0 (total supply: arbitrary length), symbolic query ledger < sequence'),
    K('votes::past_mint_burn_total', functions=UNITS + LOOK, bounds=CONC % 2 + ' before the step (3 after) for the total supply (delegate D0: arbitrary length), symbolic query ledger < sequence'),
    K('votes::past_delegate', functions=[V + 'delegate'] + MOVE + LOOK, bounds=CONC % 2 + ' before the step, delegates D0 / D1, symbolic query ledger < sequence and queried delegate'),
    K('votes::past_transfer', functions=UNITS + LOOK, bounds=CONC % 2 + ' before the step, delegates D0 / D1, from/to any of 3 (possibly equal)'),
    K('votes::past_mint_burn_votes_5', tier='thorough', functions=UNITS + LOOK, bounds=CONC % 4 + ' before the step (5 after)'),
    K('votes::past_mint_burn_total_5', tier='thorough', functions=UNITS + LOOK, bounds=CONC % 4 + ' before the step (5 after)'),
    K('votes::past_delegate_4', tier='thorough', functions=[V + 'delegate'] + MOVE + LOOK, bounds=CONC % 3 + ' before the step (4 after)'),
]


def _fv(name, fn, deleg):
    kw = dict(tier='thorough', profile='votes24') if deleg else {}
    return K('votes::' + name, functions=FB + ['fungible::votes::FungibleVotes::' + fn] + UNITS, bounds=WRAP_F % (DELEG if deleg else NODELEG), **kw)


def _nv(name, fn, deleg):
    kw = dict(tier='thorough', profile='votes24') if deleg else {}
    return K('votes::' + name, functions=NB + ['non_fungible::votes::NonFungibleVotes::' + fn] + UNITS, bounds=WRAP_N % (DELEG if deleg else NODELEG), **kw)


EXF = ['examples/fungible-votes ExampleContract::%s', 'fungible::FungibleToken::%s (ContractType = FungibleVotes)']
EX = [
    K('votes::ex_transfer', functions=FB + [x % 'transfer' for x in EXF] + ['fungible::votes::FungibleVotes::transfer'] + UNITS, bounds=WRAP_F % NODELEG),
    K('votes::ex_transfer_from', tier='thorough', functions=FB + [x % 'transfer_from' for x in EXF] + ['fungible::votes::FungibleVotes::transfer_from'] + UNITS, bounds=WRAP_F % NODELEG),
    K('votes::ex_mint', functions=FB + ['examples/fungible-votes ExampleContract::mint', 'ownable::enforce_owner_auth', 'fungible::votes::FungibleVotes::mint'] + UNITS,
      bounds=WRAP_F % NODELEG + '; Owner entry absent / any of 4'),
]
FV_OPS = ['transfer', 'transfer_from', 'mint', 'burn', 'burn_from']
FV = [_fv('fv_' + f, f, False) for f in FV_OPS] + [_fv('fv_deleg_' + f, f, True) for f in FV_OPS]
NV = [_nv('nv_' + f, f, False) for f in ['transfer', 'transfer_from', 'mint', 'sequential_mint', 'burn', 'burn_from']] + \
     [_nv('nv_deleg_' + f, f, True) for f in ['transfer', 'mint', 'burn']]

CHECKS = {
    'C13': {
        'kani': STEP + LOOKUP + PAST + FV + NV + EX,
        'bounds': TAIL + ' | lookups / past-immutability: ' + (CONC % 4) + ' (thorough: 8) | token wrappers: ' + (WRAP_F % NODELEG) + ' (thorough: ' + DELEG + ')',
        'outside_claim': 'binary search over timelines longer than 8 checkpoints (the step harnesses cover pushes on timelines of any length; the lookup '
                         'is checked against the linear definition up to length 8); more than two delegates / four accounts involved in one call (no entry '
                         'point names more); the global sums (votes = sum of delegated units, total = sum of units) follow from the exact per-timeline and '
                         'per-account deltas by linear arithmetic; archived persistent entries; a delegate whose timeline reached u32::MAX checkpoints',
        'stubs_and_assumes': [
            'pre-state invariant I: checkpoint ledgers strictly increasing and <= sequence; latest votes of a delegate >= sum of the units of the tracked '
            'accounts delegating to it (surplus = untracked delegators); latest total supply >= units of every tracked account; wrappers: units(a) == '
            'balance(a), votes total supply == token supply (fungible)',
            'quick-tier wrapper harnesses: nobody delegates (vote movement of a units transfer is decided by votes::units_transfer / units_mint_burn, '
            'which the wrappers call); thorough tier repeats them with arbitrary delegations',
            'NFTSequentialStorageKey (library-private) mirrored by variant name',
        ],
    },
    'C01': {
        'kani': [_fv('fv_' + f, f, False) for f in FV_OPS] + EX,
        'bounds': 'FungibleVotes flavour: ' + (WRAP_F % NODELEG),
    },
    'C02': {
        'kani': [_fv('fv_' + f, f, False) for f in FV_OPS] + EX,
        'bounds': 'FungibleVotes flavour: ' + (WRAP_F % NODELEG),
    },
}
