"""C15: an RWA identity is verified only by valid claims from currently trusted issuers.
Harnesses: /verif/kani/src/identity.rs (verifier side at top level, issuer side in `identity::issuer`)."""
from registry import K

PROFILES = {
    # verifier side + key management: Vec/Map capacity 2, foreign-call log of 12 records
    # (2 + 2 topics x (1 + 2 issuers x 2 calls) = 12 calls at most), Bytes capacity 16
    'identity': {'features': ['cap2', 'nc12'], 'stubbing': True},
    # issuer side, byte level: Bytes capacity 192 (Ed25519 / Secp256r1 / Secp256k1 signature data are 96 / 129 / 133
    # bytes), storage keys of 32 words (ClaimIssuerStorageKey::Pairs carries a whole signing key), values of 96 words
    # (Vec<SigningKey>), call arguments of 40 words (the signed message is an oracle argument), hash inputs of 32 words,
    # events of 32 words; bytesdirect/slicedirect = linear append/slice (all offsets are concrete here)
    'identity_iss': {'features': ['bytes192', 'bytesdirect', 'slicedirect', 'hw32', 'vw96', 'cap2', 'kw32', 'aw40', 'ew32'],
                     'stubbing': True},
}

IV = 'rwa::identity_verifier::storage::'
CI = 'rwa::claim_issuer::'
IC = 'rwa::identity_claims::'

V_BOUNDS = ('registry answers: 0..2 required topics, 0..2 trusted issuers per topic (ZERO allowed), 0..2 claim ids per topic, '
            'every claim field / issuer verdict arbitrary, every foreign call may fail; addresses full u32 ids (all contracts may '
            'coincide); signature/data/uri byte strings up to 16 bytes; verifier configuration entries present/absent; unwind 18')
I_BOUNDS = ('one symbolic claim: network id 256 bit, issuer among 5 addresses, identity full u32 id, topic/scheme/nonce full u32, '
            'signature data fully symbolic (96/129/133 bytes), claim data = created_at(8) || valid_until(8) || 8 payload bytes, all '
            'symbolic; Topics(topic) absent or 0..2 arbitrary signing keys (keys up to 192 bytes); nonce entry absent/any; revocation '
            'entry of this claim absent/false/true; ledger time full u64; unwind 100')
F_BOUNDS = ('two symbolic claims in two worlds (network id, issuer, identity, topic, nonce present/absent/any value, claim data '
            '0..8 bytes of symbolic length and content), arbitrary ledger time; unwind 100')
K_BOUNDS = ('public keys up to 16 bytes, Topics(topic) 0..1 keys and Pairs(key) 0..1 pairs before allow_key (vector capacity 2), '
            '0..2 before remove_key; registry answer arbitrary; a second topic / a second key as symbolic bystanders; unwind 18')


def V(h, fns, bounds=V_BOUNDS, **kw):
    return K('identity::' + h, profile='identity', functions=fns, bounds=bounds, **kw)


def I(h, fns, bounds=I_BOUNDS, **kw):
    return K('identity::issuer::' + h, profile='identity_iss', functions=fns, bounds=bounds, **kw)


VERIFY = [IV + 'verify_identity', IV + 'validate_claim', IV + 'identity_registry_storage', IV + 'claim_topics_and_issuers',
          IC + 'generate_claim_id']
ISSUER = [CI + 'is_key_allowed_for_topic', CI + 'is_claim_expired', CI + 'decode_claim_data_expiration', CI + 'build_claim_message',
          CI + 'get_current_nonce_for', CI + 'is_claim_revoked', CI + 'build_claim_identifier', CI + 'extract_from_bytes']


def SCH(name):
    return [CI + name + '::extract_signature_data', CI + name + '::build_message', CI + name + '::verify']


KANI = [
    # ---- (A) verifier side
    V('c15_verify_identity', VERIFY, timeout={'quick': 1500, 'thorough': 3600}),
    V('c15_verify_identity_single', VERIFY, bounds='1 required topic with 1 trusted issuer (pinned shape); identity, claim id list (0..2), '
      'claim and issuer verdict arbitrary; ' + V_BOUNDS),
    V('c15_verify_identity_accepts', VERIFY, must_succeed=True,
      bounds='1 or 2 required topics, 1 or 2 trusted issuers each, the first issuer\'s claim listed (among 1..2 ids), matching and '
             'confirmed; everything else arbitrary'),
    V('c15_validate_claim', [IV + 'validate_claim'], bounds='arbitrary claim / topic / issuer / identity, issuer verdict arbitrary or failing'),
    V('c15_recovery_target', [IV + 'recovery_target', IV + 'identity_registry_storage'], bounds='arbitrary configuration and registry answer'),
    # ---- (B) issuer side: canonical issuer (harness composition of the real helpers), one per scheme
    I('c15_issuer_ed25519', ISSUER + SCH('Ed25519Verifier')),
    I('c15_issuer_secp256r1', ISSUER + SCH('Secp256r1Verifier')),
    I('c15_issuer_secp256k1', ISSUER + SCH('Secp256k1Verifier')),
    I('c15_issuer_ed25519_after_nonce_bump', ISSUER + SCH('Ed25519Verifier') + [CI + 'invalidate_claim_signatures'],
      bounds=I_BOUNDS + '; two steps: invalidate_claim_signatures, then the issuer'),
    I('c15_issuer_ed25519_after_revocation', ISSUER + SCH('Ed25519Verifier') + [CI + 'set_claim_revoked'],
      bounds=I_BOUNDS + '; two steps: set_claim_revoked(true), then the issuer'),
    I('c15_issuer_message_fields', [CI + 'build_claim_message', CI + 'build_claim_identifier', CI + 'get_current_nonce_for'], bounds=F_BOUNDS),
    I('c15_issuer_nonce_bump', [CI + 'invalidate_claim_signatures', CI + 'build_claim_message', CI + 'get_current_nonce_for'],
      bounds=F_BOUNDS + '; a second (identity, topic) nonce entry as bystander'),
    I('c15_issuer_revocation', [CI + 'set_claim_revoked', CI + 'is_claim_revoked', CI + 'build_claim_identifier'],
      bounds=F_BOUNDS + '; a second, different claim as bystander'),
    I('c15_issuer_expiry', [CI + 'is_claim_expired', CI + 'decode_claim_data_expiration', CI + 'extract_from_bytes'],
      bounds='claim data = 16 symbolic header bytes + 0..8 payload bytes, or any string shorter than 16 bytes; ledger time full u64'),
    V('issuer::c15_issuer_allow_key', [CI + 'allow_key', CI + 'is_key_allowed_for_topic'], bounds=K_BOUNDS),
    V('issuer::c15_issuer_remove_key', [CI + 'remove_key', CI + 'is_key_allowed_for_topic'], bounds=K_BOUNDS),
]

CHECKS = {
    'C15': {
        'kani': KANI,
        'bounds': 'verifier: ' + V_BOUNDS + ' | issuer: ' + I_BOUNDS + ' | byte strings: ' + F_BOUNDS + ' | keys: ' + K_BOUNDS,
        'outside_claim': 'more than 2 required topics / 2 issuers per topic / 2 claim ids per topic (the loops are uniform in the '
                         'index); the real signature schemes and hash functions (oracles: signature checks answer arbitrarily, '
                         'hashes are injective); byte-exact XDR of addresses (modelled as an injective fixed-width serialisation); '
                         'the bodies of the registry / identity-claims / issuer CONTRACTS on the verifier side (oracles there; the '
                         'storage functions of claim_topics_and_issuers and identity_claims belong to other properties); an issuer '
                         'answering a non-void value (conversion error branch of try_is_claim_valid); issuers written differently '
                         'from the documented composition; claim data longer than 24 bytes in the composed issuer harnesses; '
                         'archived persistent entries',
        'stubs_and_assumes': [
            'ClaimIssuer::is_claim_valid has NO default body in the library: identity::issuer::canonical_issuer is HARNESS code, the '
            'composition shown in the module documentation of claim_issuer/mod.rs (extract_signature_data -> is_key_allowed_for_topic '
            '-> is_claim_expired -> build_message -> is_claim_revoked -> verify), instantiated per scheme and calling only the real helpers',
            'verifier side: identity registry storage, claim-topics-and-issuers, identity-claims and issuer contracts are oracles: each '
            'client call is logged and answers an arbitrary value of its return type (vector capacity 2) or fails',
            'signature checks (ed25519_verify, secp256r1_verify, secp256k1_recover) are oracles logged as foreign calls on the '
            'pseudo-address u32::MAX; sha256 / keccak256 are one injective uninterpreted hash oracle',
            'expected message / identifier bytes are written by the harness at concrete positions (network id 32 | issuer 8 | identity 8 | '
            'topic 4 BE | nonce 4 BE | data), using the model\'s 8-byte address serialisation',
            'remove_key pre-state assumes a signing key is listed at most once per topic (established by allow_key, which only appends '
            'a key that is not yet allowed); allow_key pre-state leaves room for one more element in the capacity-2 vectors',
            'oracle answers are compared after decoding (tag byte + low 32 bits of u32/address words), as Flat::unflat does',
        ],
    },
}
