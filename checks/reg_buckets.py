"""C20: bucket crossing of the two bucketed RWA registries (token binder, document manager).
Harnesses: /verif/kani/src/registries_edge.rs (module compiled only with the cargo feature `bucketedge`).

Built with the source hook (--cfg stellar_verif: both BUCKET_SIZE constants are 2, so six tokens / five documents span
three buckets with the edges at the global indices 1|2 and 3|4). The bucket-0 families of reg_registries.py run against
the real widths (100 / 50), where every quotient `index / BUCKET_SIZE` is 0 and `index % BUCKET_SIZE` is the identity; these
harnesses exercise the same library code with quotients 0..2: an index that is stored or used as the in-bucket offset
instead of the global index (or vice versa) is only visible from bucket 1 upwards.
"""
from registry import K

PROFILES = {
    # token binder: linked_tokens / bind_tokens concatenate all buckets into one vector of up to 6 addresses
    'bk_binder': {'features': ['cap8', 'bucketedge'], 'cfg': ['stellar_verif']},
    # document manager: one bucket = 2 (name, document) entries = 25 words; DocumentUpdated event = 12 words
    'bk_docs': {'features': ['cap2', 'vw48', 'ew32', 'bucketedge'], 'cfg': ['stellar_verif']},
}

WIDTH = ('CLAIMS FOR BUCKET WIDTH 2 (hook --cfg stellar_verif; real widths 100 tokens / 50 documents): the index arithmetic index / BUCKET_SIZE, '
         'index % BUCKET_SIZE, the swap-and-pop across buckets and the bucket creation / emptying logic are width-independent code')

TB = 'rwa::utils::token_binder::'
TB_RD = [TB + 'storage::linked_token_count', TB + 'storage::get_persistent_entry']
TB_BOUNDS = ('one call from an ARBITRARY enumeration of 0..6 pairwise different tokens (address ids full u32) laid out gap-free over TokenBucket(0..2) '
             '(token g in bucket g / 2 at offset g % 2), TotalCount absent (empty registry) or present, every bucket that holds nothing absent (never '
             'created) or present and empty (emptied by unbind_token); ledger/TTLs full u32; vector capacity 8, NS=12, unwind 14; ' + WIDTH)
TB_BATCH = ('shapes (tokens enumerated before, batch size): SHAPES; all addresses arbitrary u32 ids (duplicates inside the batch and already-bound tokens '
            'included); lengths and the presence of the empty buckets concrete per shape (the library\'s loops over the batch keep concrete bounds), '
            'vector capacity 8; ' + WIDTH)

BINDER = [
    K('registries_edge::binder::bind_token_step', 'bk_binder', functions=[TB + 'bind_token', TB + 'is_token_bound', TB + 'emit_token_bound'] + TB_RD,
      bounds=TB_BOUNDS + '; at most 5 tokens before (new buckets 0, 1, 2 created, emptied bucket reused)'),
    K('registries_edge::binder::unbind_token_step', 'bk_binder',
      functions=[TB + 'unbind_token', TB + 'get_token_index', TB + 'get_token_by_index', TB + 'emit_token_unbound'] + TB_RD, bounds=TB_BOUNDS),
    K('registries_edge::binder::bind_tokens_one_edge', 'bk_binder', functions=[TB + 'bind_tokens', TB + 'linked_tokens', TB + 'emit_token_bound'] + TB_RD,
      bounds=TB_BATCH.replace('SHAPES', '(0 never written, 3), (1, 2), (2 with emptied bucket 1, 2)')),
    K('registries_edge::binder::bind_tokens_two_edges', 'bk_binder', functions=[TB + 'bind_tokens', TB + 'linked_tokens', TB + 'emit_token_bound'] + TB_RD,
      bounds=TB_BATCH.replace('SHAPES', '(1, 4) across both edges, (3 with emptied bucket 2, 3), (1, 5) = above the batch limit 2 * BUCKET_SIZE = 4')),
    K('registries_edge::binder::index_lookup_agrees', 'bk_binder', functions=[TB + 'get_token_by_index', TB + 'get_token_index'] + TB_RD,
      bounds=TB_BOUNDS + '; index full u32'),
    K('registries_edge::binder::token_lookup_agrees', 'bk_binder', tier='thorough', functions=[TB + 'get_token_by_index', TB + 'get_token_index'] + TB_RD,
      bounds=TB_BOUNDS),
    K('registries_edge::binder::getters_agree', 'bk_binder', tier='thorough', functions=[TB + 'is_token_bound', TB + 'linked_tokens'] + TB_RD, bounds=TB_BOUNDS),
    K('registries_edge::binder::operations_accepted', 'bk_binder', tier='thorough', must_succeed=True, timeout={'thorough': 3600},
      functions=[TB + 'get_token_by_index', TB + 'get_token_index', TB + 'unbind_token', TB + 'bind_token'] + TB_RD,
      bounds=TB_BOUNDS + '; at most 5 tokens before; ledger sequence < 2^32 - 30 days'),
]

DM = 'rwa::extensions::doc_manager::'
DM_BOUNDS = ('one call from an ARBITRARY stored state over 5 document names (symbolic pairwise different 32-byte values: name i at global index i for '
             'i < count, the others not stored, which describes every arrangement) satisfying the index invariant: 0..5 documents laid out gap-free over '
             'Bucket(0..2) (document g in bucket g / 2 at offset g % 2), each with arbitrary uri (0..16 bytes), hash and timestamp, Index(name) = GLOBAL '
             'index for the stored names and absent for the others, Count absent (empty) or present, every bucket that holds nothing absent or present '
             'and empty; ledger time full u64; vector capacity 2, values of 48 words, NS=12, unwind 50; ' + WIDTH)
DOCS = [
    K('registries_edge::docs::set_document_step', 'bk_docs', functions=[DM + 'set_document', DM + 'get_document_count', DM + 'emit_document_updated'],
      bounds=DM_BOUNDS + '; name among the 5 (update of a stored one at any index, or a new one appended: at most 4 documents before)'),
    K('registries_edge::docs::remove_document_step', 'bk_docs', functions=[DM + 'remove_document', DM + 'get_document_count', DM + 'emit_document_removed'],
      bounds=DM_BOUNDS),
    K('registries_edge::docs::lookups_agree', 'bk_docs', functions=[DM + 'get_document', DM + 'get_document_by_index', DM + 'get_document_count'],
      bounds=DM_BOUNDS + '; index full u32'),
    K('registries_edge::docs::getters_agree', 'bk_docs', tier='thorough', functions=[DM + 'get_document_count', DM + 'get_documents'],
      bounds=DM_BOUNDS + '; bucket index among 0..2'),
    K('registries_edge::docs::operations_accepted', 'bk_docs', tier='thorough', must_succeed=True,
      functions=[DM + 'get_document', DM + 'get_document_by_index', DM + 'remove_document', DM + 'set_document'],
      bounds=DM_BOUNDS + '; at most 4 documents before; a stored name is read, looked up by an index below the count and removed, or a name that is '
             'not stored is set; ledger sequence < 2^32 - 30 days'),
]

CHECKS = {
    'C20': {
        'kani': BINDER + DOCS,
        'bounds': 'bucket crossing, token binder: ' + TB_BOUNDS + ' | bucket crossing, documents: ' + DM_BOUNDS,
        'outside_claim': ('bucket crossing (registries_edge): the real bucket widths (100 tokens / 50 documents: the same code with BUCKET_SIZE = 2 is what is '
                          'verified; nothing in it depends on the width except the constants MAX_TOKENS / MAX_DOCUMENTS = BUCKET_SIZE * MAX_BUCKETS and the batch '
                          'limit 2 * BUCKET_SIZE, of which only the batch limit is reached); more than three buckets (6 tokens / 5 documents); '
                          'URIs above 16 bytes'),
        'stubs_and_assumes': [
            'bucket crossing (registries_edge): built with RUSTFLAGS="--cfg stellar_verif" (source hook of /repo, off by default): BUCKET_SIZE = 2 in '
            'rwa::utils::token_binder and rwa::extensions::doc_manager; no other source difference',
            'bucket crossing, documents: the harness reads the stored buckets as flat words (tagged length, then per entry the name followed by the document) '
            'instead of rebuilding Vec<(BytesN<32>, Document)> values; the layout is confirmed by the exact-entry and invariant clauses holding on '
            'what the library itself wrote through the typed interface',
        ],
    },
}
