"""C06: role / admin / owner hierarchy (harness family kani/src/access.rs)."""
from registry import K

# String::from_str("multi_role_auth_action_success") of examples/nft-access-control needs 30 bytes
PROFILES = {'acc_b32': {'features': ['bytes32']}}

AC = 'access_control::'
ENUM_FNS = [AC + 'has_role', AC + 'get_admin', AC + 'get_role_admin', AC + 'get_existing_roles',
            AC + 'add_to_role_enumeration', AC + 'remove_from_role_enumeration']
AUTH_FNS = [AC + 'ensure_if_admin_or_admin_role']
VIA = 'examples/nft-access-control ExampleContract::'
STEP_BOUNDS = ('one call from an ARBITRARY stored state satisfying the enumeration invariant: role T over accounts 0..2 (0..3 members, '
               'symbolic enumeration order), caller among 4 addresses (3 possible members + 1 stranger), Admin set/renounced (4 addresses), '
               'RoleAdmin(T) unset or an arbitrary role name (T itself, the bystander role, any third role), caller\'s membership in that role symbolic, '
               'ExistingRoles = up to 4 arbitrary distinct role names, bystander role count symbolic, ledger/TTLs full u32, NS=12, unwind 14')
MACRO_BOUNDS = '4 addresses, symbolic role memberships / admin / owner presence, token id full u32, one call, unwind 18'

ACCESS = [
    K('access::grant_role_step', functions=[VIA + 'grant_role', AC + 'grant_role', AC + 'grant_role_no_auth', AC + 'emit_role_granted'] + AUTH_FNS + ENUM_FNS,
      bounds=STEP_BOUNDS + '; at most 3 names in ExistingRoles before a role is created (vector capacity 4)'),
    K('access::revoke_role_step', functions=[VIA + 'revoke_role', AC + 'revoke_role', AC + 'revoke_role_no_auth', AC + 'emit_role_revoked'] + AUTH_FNS + ENUM_FNS,
      bounds=STEP_BOUNDS),
    K('access::renounce_role_step', functions=[VIA + 'renounce_role', AC + 'renounce_role', AC + 'emit_role_revoked'] + ENUM_FNS, bounds=STEP_BOUNDS),
    K('access::getters_agree', functions=[VIA + 'has_role', VIA + 'get_role_member_count', VIA + 'get_role_member', VIA + 'get_existing_roles',
                                          VIA + 'get_role_admin', VIA + 'get_admin', AC + 'get_role_member_count', AC + 'get_role_member'] + ENUM_FNS,
      bounds=STEP_BOUNDS + '; member index full u32'),
    K('access::getters_total', must_succeed=True, functions=[AC + 'get_role_member', AC + 'get_role_member_count'] + ENUM_FNS,
      bounds=STEP_BOUNDS + '; ledger sequence < 2^32 - 90 days (TTL extension adds 90 days)'),
    K('access::set_role_admin_step', functions=[VIA + 'set_role_admin', AC + 'set_role_admin', AC + 'set_role_admin_no_auth', AC + 'emit_role_admin_changed'],
      bounds='arbitrary role names for the old, the new and the bystander role admin; Admin set/renounced among 4 addresses'),
    K('access::nft_only_admin', functions=['stellar_macros::only_admin', VIA + 'admin_restricted_function', AC + 'enforce_admin_auth'], bounds=MACRO_BOUNDS),
    K('access::nft_only_role_mint', functions=['stellar_macros::only_role', VIA + 'mint', AC + 'ensure_role', 'non_fungible::Base::mint'], bounds=MACRO_BOUNDS),
    K('access::nft_has_role_burn', functions=['stellar_macros::has_role', VIA + 'burn', AC + 'ensure_role', 'non_fungible::Base::burn'], bounds=MACRO_BOUNDS),
    K('access::nft_has_role_burn_from', functions=['stellar_macros::has_role', VIA + 'burn_from', AC + 'ensure_role', 'non_fungible::Base::burn_from'], bounds=MACRO_BOUNDS),
    K('access::nft_has_any_role', profile='acc_b32', functions=['stellar_macros::has_any_role', VIA + 'multi_role_action', AC + 'has_role'], bounds=MACRO_BOUNDS),
    K('access::nft_only_any_role', profile='acc_b32', functions=['stellar_macros::only_any_role', VIA + 'multi_role_auth_action', AC + 'has_role'], bounds=MACRO_BOUNDS),
    K('access::ownable_only_owner', functions=['stellar_macros::only_owner', 'examples/ownable ExampleContract::increment', 'ownable::enforce_owner_auth'], bounds=MACRO_BOUNDS),
    K('access::enforce_principal_auth', functions=['ownable::enforce_owner_auth', AC + 'enforce_admin_auth'], bounds=MACRO_BOUNDS),
    K('access::history_two_calls', tier='thorough', functions=[VIA + 'grant_role', VIA + 'revoke_role', VIA + 'renounce_role'] + AUTH_FNS + ENUM_FNS,
      bounds=STEP_BOUNDS + '; two consecutive invocations (each grant/revoke/renounce, symbolic arguments, two callers, own authorization set each, later ledger)',
      timeout={'quick': 900, 'thorough': 1800}),
    # "after admin / ownership is renounced nobody passes the check": clause C06.<family>.renounce.nobody_passes_afterwards
    # is asserted by the two-step harnesses of the handshake family (renounce, new authorization set, enforce_*_auth)
    K('handshake::own::renounce', functions=['ownable::renounce_ownership', 'ownable::enforce_owner_auth'],
      bounds='arbitrary stored owner / pending offer, renounce then a fresh invocation with an arbitrary authorization set'),
    K('handshake::adm::renounce', functions=[AC + 'renounce_admin', AC + 'enforce_admin_auth'],
      bounds='arbitrary stored admin / pending offer, renounce then a fresh invocation with an arbitrary authorization set'),
]

CHECKS = {
    'C06': {
        'kani': ACCESS,
        'bounds': STEP_BOUNDS + ' | macro-guarded entry points: ' + MACRO_BOUNDS,
        'outside_claim': ('histories are covered by induction over single calls from an arbitrary invariant-satisfying state (the invariant is asserted after every '
                          'mutating call and the getters are shown to describe the ghost set on every invariant-satisfying state); more than 3 members of one role '
                          'or more than 3 candidate accounts; more than 4 entries in ExistingRoles, hence the MAX_ROLES = 256 refusal itself '
                          '(the comparison is on every role-creating path but never true within the vector capacity); the unguarded *_no_auth helpers called '
                          'directly by an integrator; admin two-step transfer (C07)'),
        'stubs_and_assumes': [
            'representation invariant I of the role enumeration is ASSUMED on the pre-state and ASSERTED on the post-state of grant/revoke/renounce',
            'RoleAccountKey is not re-exported by stellar-access: the harness builds AccessControlStorageKey::RoleAccounts through its flat encoding',
            'no stubs: the real stellar_macros attribute macros expand the example contracts; the soroban-sdk macros are the model\'s pass-through ones',
        ],
    },
}
