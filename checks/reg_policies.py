"""C14 (smart-account policies: simple threshold, weighted threshold, spending limit) -- harness family kani/src/policies.rs."""
from registry import K

# CAP = 4 (default), BYTES_CAP = 16: Signer = 5 words, WeightedThresholdAccountParams = 27 words (needs vw48),
# SpendingLimitData = 18 words, Context = 31 words, SimplePolicyEnforced / WeightedPolicyEnforced = 54 words (needs ew64).
PROFILES = {'policies': {'features': ['vw48', 'ew64']}}

# Negative transfer amounts are OUTSIDE the property's quantifier ("all sequences of non-negative transfer amounts").
# The code accepts them: spending_limit::enforce records (amount < 0, now) and lowers cached_total_spent, so later
# transfers in the same window may exceed the limit by that much (harness policies::sl_enforce_negative_amount,
# clause C14.spending.enforce.negative_amount_refused, fails on the unchanged tree; confirmed on the real host).
# Set to True to make that clause part of the C14 verdict.
REPORT_NEGATIVE_AMOUNT = False

P = 'policies::'
ST = 'policies::simple_threshold::'
WT = 'policies::weighted_threshold::'
SL = 'policies::spending_limit::'

COMMON = ('smart account any of 4 addresses, rule id full u32, ContextRule arbitrary (<= 4 signers, <= 4 policies), ledger/TTL full u32, '
          'policy entry of the (account, rule) pair absent or present with ANY stored value + the entry of one other (account, rule) pair '
          '(frame); authenticated-signer list of 0..4 signers (Delegated(any of 5 addresses) or External(any of 5 verifiers, key of 1 or 2 '
          'arbitrary bytes)), duplicates allowed; Context fully arbitrary (all three variants, any function name, 0..4 arguments of any type); '
          'NS=12 slots, unwind 14')
ST_B = COMMON + '; threshold full u32'
WT_B = COMMON + '; stored weights: map of 0..4 distinct signers with full-u32 weights (sums past u32::MAX included), threshold full u32'
SL_B = (COMMON + '; stored SpendingLimitData with 0..3 history entries satisfying I (limit > 0, period >= 1, ledgers non-decreasing and in '
        '1..=sequence, amounts >= 0, cached total = sum of amounts without i128 overflow), limit/amounts full i128, period full u32, '
        'sequence >= 1; transfer amount any non-negative i128')

SIMPLE = [
    K(P + 'st_can_enforce', profile='policies', functions=[ST + 'can_enforce'], bounds=ST_B),
    K(P + 'st_enforce', profile='policies', functions=[ST + 'enforce', ST + 'get_threshold', ST + 'can_enforce'], bounds=ST_B),
    K(P + 'st_enforce_accepts', profile='policies', must_succeed=True, functions=[ST + 'can_enforce', ST + 'enforce'],
      bounds=ST_B + '; can_enforce answered true and the account authorized'),
    K(P + 'st_install', profile='policies', functions=[ST + 'install', ST + 'validate_and_set_threshold'], bounds=ST_B),
    K(P + 'st_set_threshold', profile='policies', functions=[ST + 'set_threshold', ST + 'validate_and_set_threshold', ST + 'get_threshold'], bounds=ST_B),
    K(P + 'st_uninstall', profile='policies', functions=[ST + 'uninstall', ST + 'can_enforce'], bounds=ST_B),
    K(P + 'st_get_threshold', profile='policies', functions=[ST + 'get_threshold'], bounds=ST_B),
]
WEIGHTED = [
    K(P + 'wt_can_enforce', profile='policies', functions=[WT + 'can_enforce', WT + 'calculate_weight', WT + 'get_signer_weights'], bounds=WT_B),
    K(P + 'wt_enforce', profile='policies', functions=[WT + 'enforce', WT + 'calculate_weight', WT + 'get_signer_weights'], bounds=WT_B),
    K(P + 'wt_enforce_accepts', profile='policies', must_succeed=True, functions=[WT + 'can_enforce', WT + 'enforce', WT + 'calculate_weight'],
      bounds=WT_B + '; can_enforce answered true and the account authorized'),
    K(P + 'wt_install', profile='policies', functions=[WT + 'install', WT + 'calculate_total_weight'], bounds=WT_B + '; installed map of 0..4 signers'),
    K(P + 'wt_set_threshold', profile='policies', functions=[WT + 'set_threshold', WT + 'calculate_total_weight'], bounds=WT_B),
    K(P + 'wt_set_signer_weight', profile='policies', functions=[WT + 'set_signer_weight', WT + 'calculate_total_weight'],
      bounds=WT_B + '; a NEW signer only with <= 3 stored weights (map capacity 4); stored threshold >= 1 (established by install / set_threshold)'),
    K(P + 'wt_uninstall', profile='policies', functions=[WT + 'uninstall', WT + 'can_enforce'], bounds=WT_B),
    K(P + 'wt_getters', profile='policies', functions=[WT + 'get_threshold', WT + 'get_signer_weights'], bounds=WT_B),
    K(P + 'wt_calculate_weight', profile='policies', tier='thorough', functions=[WT + 'calculate_weight', WT + 'get_signer_weights'], bounds=WT_B),
    K(P + 'wt_agreement', profile='policies', tier='thorough', functions=[WT + 'enforce', WT + 'can_enforce', WT + 'calculate_weight'], bounds=WT_B),
]
SPENDING = [
    K(P + 'sl_can_enforce', profile='policies', functions=[SL + 'can_enforce'], bounds=SL_B + ' (here: any i128 amount)'),
    K(P + 'sl_enforce', profile='policies', functions=[SL + 'enforce', SL + 'cleanup_old_entries', SL + 'get_spending_limit_data'], bounds=SL_B),
    K(P + 'sl_agreement', profile='policies', functions=[SL + 'can_enforce', SL + 'enforce', SL + 'cleanup_old_entries'], bounds=SL_B + ' (here: any i128 amount)'),
    K(P + 'sl_enforce_accepts', profile='policies', must_succeed=True, functions=[SL + 'can_enforce', SL + 'enforce', SL + 'cleanup_old_entries'],
      bounds=SL_B + '; sequence <= u32::MAX - 30 days (TTL extension representable), window total + amount representable in i128; '
                    'can_enforce must return, and if it answered true with the account authorized enforce must return'),
    K(P + 'sl_install', profile='policies', functions=[SL + 'install'], bounds=SL_B),
    K(P + 'sl_set_spending_limit', profile='policies', functions=[SL + 'set_spending_limit', SL + 'get_spending_limit_data'], bounds=SL_B),
    K(P + 'sl_uninstall', profile='policies', functions=[SL + 'uninstall', SL + 'can_enforce'], bounds=SL_B),
    K(P + 'sl_get_data', profile='policies', functions=[SL + 'get_spending_limit_data'], bounds=SL_B),
    K(P + 'sl_limit_change_then_enforce', profile='policies', tier='thorough',
      functions=[SL + 'set_spending_limit', SL + 'enforce', SL + 'cleanup_old_entries'],
      bounds=SL_B + '; history set_spending_limit -> later ledger, fresh authorization set -> enforce'),
]
if REPORT_NEGATIVE_AMOUNT:
    SPENDING.append(K(P + 'sl_enforce_negative_amount', profile='policies', functions=[SL + 'enforce'], bounds=SL_B + ' (here: any i128 amount)'))

CHECKS = {
    'C14': {
        'kani': SIMPLE + WEIGHTED + SPENDING,
        'bounds': 'simple: ' + ST_B + ' | weighted: ' + WT_B + ' | spending: ' + SL_B,
        'outside_claim': (
            'the 1000-entry history cap (MAX_HISTORY_ENTRIES) and histories longer than 3 entries before / 4 after the call: the cap comparison '
            'is not reachable with 4-element vectors; the window claim for windows ending LATER than now follows by induction on the last entry '
            '(each later entry is admitted under the same check against the entries still inside its own window); '
            'negative transfer amounts (the property quantifies over non-negative amounts; the code accepts them and books negative spending, '
            'see REPORT_NEGATIVE_AMOUNT in checks/reg_policies.py); more than 4 signers / weights; signer keys longer than 2 bytes '
            '(signers are opaque to the policies); "a rejected attempt leaves no trace" is the host rollback (trusted) - checked instead: '
            'can_enforce writes nothing (it only extends the TTL of the entry it reads); the policies count what the smart account passes as '
            'authenticated_signers (list length / every occurrence), membership in rule.signers and de-duplication are the smart account\'s job (C13)'),
        'stubs_and_assumes': [
            'policies: pre-states are arbitrary stored values (superset of the reachable ones) except: spending-limit data satisfies the '
            'representation invariant I (each clause of I is re-established by sl_install / sl_enforce / sl_set_spending_limit), and '
            'wt_set_signer_weight assumes a stored threshold >= 1 (established by wt_install / wt_set_threshold)',
            'policies: stored weight maps are sorted and duplicate-free (the host\'s map invariant, assumed by Map::assume_from_parts); the '
            'specification looks weights up with the model\'s own Map::get',
            'policies: sl_enforce assumes a non-negative transfer amount (the property\'s quantifier)',
        ],
    },
}
