"""C12 (and the arithmetic half of C05): engine E2, mir2smt over the MIR of the real crate."""
T = 'own symbolic executor over rustc MIR (loop-free paths enumerated completely) into z3 queries over mathematical integers with range side-conditions; sat models realised and replayed on the compiled code'
CHECKS = {
    'C12': {
        'smt': [
            {'name': 'c12-i128', 'module': 'c12', 'part': 'i128'},
            {'name': 'c12-i256', 'module': 'c12', 'part': 'i256'},
            {'name': 'c12-wad', 'module': 'c12', 'part': 'wad'},
        ],
        'technique': T,
        'bounds': 'no bound on values: x, y, d range over all of i128 (resp. I256); products generalised to any integer of the range real products lie in; every loop-free path enumerated; checked_pow only through the structural pow/checked_pow equivalence',
        'outside_claim': 'the numeric result of Wad::checked_pow for each exponent (only "pow fails iff checked_pow is None" is in the property); the host\'s I256 arithmetic is modelled by definition (exact integers, trap outside 256 bits / on division by zero)',
        'stubs_and_assumes': ['I256::{add,sub,mul,div,rem_euclid,to_i128,cmp} = exact integer arithmetic with host traps', 'Wad::checked_pow replaced by an arbitrary Option-valued function in the pow equivalence query'],
        'level_note': 'Trusted: rustc MIR dump of the real crate (repo toolchain), the MIR-to-SMT translator (validated on every run by pushing concrete inputs through the compiled functions, an exact reference and the translator itself), z3.',
    },
}

CHECKS['C05'] = {
    'smt': [{'name': 'c05-arith', 'module': 'c05'}],
    'technique': T + '; Kani/CBMC harnesses for the movement of assets and shares',
    'bounds': 'E2: amounts, total supply, total assets all of i128 (non-negative totals), decimals offset 0..=10 by case split (quick tier: 0, 3, 10)',
    'outside_claim': 'multi-step "no participant profits" follows from the per-operation rate monotonicity by induction (argument in DESIGN.md, not machine-checked); the underlying asset token is assumed SEP-41-correct',
    'stubs_and_assumes': ['Vault::total_supply, Vault::total_assets = free non-negative integers', 'Vault::get_decimals_offset = each concrete offset'],
}
