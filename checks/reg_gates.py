"""C16 (pause / allow-list / block-list / supply cap / migration gates) -- harness family kani/src/gates.rs.
Also contributes the AllowList / BlockList / pausable-example / capped-example token flavours to C01 and C02
(the same harnesses assert the base-token clauses under C01./C02. names)."""
import os
import re

from registry import K

REPO = '/repo'
B = '3 symbolic principals out of 4 tracked accounts (+ rest-of-world ghost), amounts/balances/cap full i128, ledger/TTL full u32, ' \
    'every list/pause/cap/migration flag absent or present with any value, NS=12 slots, unwind 18'
BASE = ['fungible::Base::update', 'fungible::Base::balance', 'fungible::Base::total_supply', 'fungible::Base::allowance_data',
        'fungible::Base::set_allowance', 'fungible::Base::spend_allowance']


def _src(rel):
    try:
        return open(os.path.join(REPO, rel)).read()
    except OSError:
        return ''


# ---- the obligation list of the pausable example is EXTRACTED from its source on every run: one harness
# `gates::pausable_ex::paused_<fn>` per function carrying #[when_not_paused]. The expected set is kept too, so that
#  * a REMOVED attribute still runs its harness, which then fails `C16.pausable_example.<fn>.refused_while_paused`;
#  * a NEWLY gated function without a harness yields "no verification verdict" = inconclusive (write the harness).
EXPECTED_GATED = ['mint', 'transfer', 'transfer_from', 'burn', 'burn_from']
_pausable_src = re.sub(r'//[^\n]*', '', _src('examples/fungible-pausable/src/contract.rs'))
EXTRACTED_GATED = re.findall(r'#\[\s*when_not_paused\s*\]\s*(?:#\[[^\]]*\]\s*)*(?:pub\s+)?fn\s+(\w+)', _pausable_src)
GATED = sorted(set(EXPECTED_GATED) | set(EXTRACTED_GATED))

PAUSABLE_EX_TOKEN = [
    K('gates::pausable_ex::paused_%s' % f,
      functions=BASE + ['examples/fungible-pausable ExampleContract::%s' % f, 'stellar_macros::when_not_paused', 'pausable::when_not_paused', 'pausable::paused'],
      bounds=B) for f in GATED]

PAUSABLE = [
    K('gates::pausable::' + h, functions=['pausable::pause', 'pausable::unpause', 'pausable::paused', 'pausable::when_not_paused', 'pausable::when_paused'],
      bounds='Paused flag absent/false/true', **kw)
    for h, kw in (('pause_step', {}), ('unpause_step', {}), ('guards', {}), ('alternation_accepted', {'must_succeed': True}),
                  ('guards_accept', {'must_succeed': True}))
] + [
    K('gates::pausable::attribute_macros', functions=['stellar_macros::when_not_paused', 'stellar_macros::when_paused'], bounds='Paused flag absent/false/true; Env by reference and by value'),
    K('gates::pausable_ex::pause_entry', functions=['examples/fungible-pausable ExampleContract::pause', 'pausable::pause'], bounds='Paused absent/false/true, OWNER absent/any of 4, caller any of 4'),
    K('gates::pausable_ex::unpause_entry', functions=['examples/fungible-pausable ExampleContract::unpause', 'pausable::unpause'], bounds='Paused absent/false/true, OWNER absent/any of 4, caller any of 4'),
    K('gates::pausable_ex::unpause_then_transfer_accepted', must_succeed=True,
      functions=BASE + ['examples/fungible-pausable ExampleContract::{unpause,transfer,pause}'],
      bounds=B + '; history unpause -> transfer (must succeed) -> pause -> transfer (must fail); ledger and max TTL <= u32::MAX/2 in the must-succeed part'),
]


def _list(kind, lib, example, burn_in_example):
    fl = kind + 'list'
    Lib = 'fungible::%slist::%sList::' % (kind, kind.capitalize())
    ex = 'examples/fungible-%s ExampleContract::' % fl
    token, c01, c02 = [], [], []
    for mod, who in ((lib, Lib), (example, ex)):
        for f in ('transfer', 'transfer_from', 'approve'):
            k = K('gates::%s::%s' % (mod, f), functions=BASE + [who + f, Lib + ('allowed' if kind == 'allow' else 'blocked')], bounds=B)
            token.append(k)
            (c02 if f == 'approve' else c01).append(k)
            if f != 'approve':
                c02.append(k)
    burns = [(lib + '_burn', Lib)] + ([(example + '_burn', ex)] if burn_in_example else [])
    for mod, who in burns:
        for f in ('burn', 'burn_from'):
            k = K('gates::%s::%s' % (mod, f), functions=BASE + [who + f], bounds=B)
            token.append(k)
            c01.append(k)
            c02.append(k)
    admin = []
    for mod, who in ((lib + '_adm', Lib), (example + '_adm', ex)):
        for h, f in (('add', 'allow_user' if kind == 'allow' else 'block_user'), ('remove', 'disallow_user' if kind == 'allow' else 'unblock_user')):
            admin.append(K('gates::%s::%s' % (mod, h), functions=[who + f, 'access_control::ensure_role', 'stellar_macros::only_role'],
                           bounds='4 accounts with any list status, user/operator any of 4, manager role entry absent/present; the call is repeated once (idempotence)'))
    return token, admin, c01, c02


# the allow-list example exports burn / burn_from; the block-list example exports no burn entry point. If that changes,
# the harness named below does not exist yet -> "no verification verdict" = inconclusive = somebody must write it.
_block_src = re.sub(r'//[^\n]*', '', _src('examples/fungible-blocklist/src/contract.rs'))
BLOCK_EX_BURNS = 'FungibleBurnable' in _block_src
A_TOKEN, A_ADMIN, A_C01, A_C02 = _list('allow', 'allow', 'allow_ex', True)
B_TOKEN, B_ADMIN, B_C01, B_C02 = _list('block', 'block', 'block_ex', BLOCK_EX_BURNS)

# compositions of the step clauses (add/remove takes_effect_immediately + transfer from/to_vetted): thorough tier only
HISTORY = [
    K('gates::list_history::disallow_then_transfer_refused', tier='thorough', functions=['examples/fungible-allowlist ExampleContract::{disallow_user,transfer}'], bounds=B + '; two invocations'),
    K('gates::list_history::block_then_transfer_refused', tier='thorough', functions=['examples/fungible-blocklist ExampleContract::{block_user,transfer}'], bounds=B + '; two invocations'),
]

CAP_MINT = K('gates::capped::example_mint', functions=BASE + ['examples/fungible-capped ExampleContract::mint', 'fungible::capped::check_cap', 'fungible::Base::mint'], bounds=B)
CAPPED = [
    K('gates::capped::check_cap_step', functions=['fungible::capped::check_cap', 'fungible::capped::query_cap'], bounds='cap absent/any i128, supply absent/any i128, amount any i128'),
    K('gates::capped::set_and_query_cap', functions=['fungible::capped::set_cap', 'fungible::capped::query_cap'], bounds='cap absent/any i128, new cap any i128'),
    CAP_MINT,
    K('gates::capped::example_constructor', functions=['examples/fungible-capped ExampleContract::__constructor', 'fungible::capped::set_cap'], bounds='cap any i128'),
]

UPG_B = 'Migrating flag absent/false/true, OWNER absent/any of 4, operator any of 4, migration data any (u32,u32), wasm hash any 32 bytes'
UPGRADEABLE = [
    K('gates::upgradeable::storage_fns', functions=['upgradeable::enable_migration', 'upgradeable::can_complete_migration', 'upgradeable::complete_migration', 'upgradeable::ensure_can_complete_migration'], bounds=UPG_B),
    K('gates::upgradeable::storage_complete_witness', functions=['upgradeable::complete_migration'], bounds=UPG_B),
    K('gates::upgradeable::v1_upgrade', functions=['derive(Upgradeable) examples/upgradeable/v1 ExampleContract::upgrade'], bounds=UPG_B),
    K('gates::upgradeable::v2_upgrade', functions=['derive(UpgradeableMigratable) examples/upgradeable/v2 ExampleContract::upgrade'], bounds=UPG_B),
    K('gates::upgradeable::v2_migrate', functions=['derive(UpgradeableMigratable) examples/upgradeable/v2 ExampleContract::migrate'], bounds=UPG_B + '; followed by a second migrate'),
    K('gates::upgradeable::v2_upgrade_then_migrate', must_succeed=True, functions=['derive(UpgradeableMigratable) examples/upgradeable/v2 ExampleContract::{upgrade,migrate}'],
      bounds=UPG_B + '; history upgrade -> migrate (must succeed) -> migrate (must fail)'),
    K('gates::upgradeable::upgrader_upgrade', functions=['examples/upgradeable/upgrader Upgrader::upgrade', 'stellar_macros::only_owner', 'ownable::enforce_owner_auth'], bounds='Owner absent/any of 4, target/operator any of 4'),
]

_C01_PAUSABLE = [k for k in PAUSABLE_EX_TOKEN]
_C02_PAUSABLE = [k for k in PAUSABLE_EX_TOKEN if not k['harness'].endswith('paused_mint')]

CHECKS = {
    'C16': {
        'kani': PAUSABLE + PAUSABLE_EX_TOKEN + A_TOKEN + A_ADMIN + B_TOKEN + B_ADMIN + HISTORY + CAPPED + UPGRADEABLE,
        'bounds': B + ' | ' + UPG_B,
        'outside_claim': '"fails without effect" is the host\'s rollback of a failed invocation (trusted base); Upgrader::upgrade_and_migrate '
                         '(forwards opaque Vec<Val>; the flag logic lives in the upgraded contract, which is checked); AccessControl role administration of the list examples (C06); '
                         'the cap is checked where the example checks it (mint) -- a contract that mints without check_cap is outside the library\'s claim',
        'stubs_and_assumes': [
            'PausableStorageKey / UpgradeableStorageKey are private in the library: the harness declares mirror enums with the same variant names; a rename makes the library write outside the declared universe (reported inconclusive, never success)',
            'update_current_contract_wasm is a counter (world().wasm_updates); the new code is not executed',
            'examples are mounted with #[path] from /repo/examples/*/src/contract.rs and compiled with the real stellar_macros attribute and derive macros; contractimpl/contracttrait of the SDK are pass-through in the model, so "exported entry point" = (default) trait method of the contract type',
            'the obligation list of examples/fungible-pausable (functions carrying #[when_not_paused]) is re-extracted from the source on every run: ' + ', '.join(GATED),
        ],
    },
    'C01': {
        'kani': A_C01 + B_C01 + _C01_PAUSABLE + [CAP_MINT],
        'bounds': 'AllowList/BlockList/pausable-example/capped-example flavours: ' + B,
    },
    'C02': {
        'kani': A_C02 + B_C02 + _C02_PAUSABLE,
        'bounds': 'AllowList/BlockList/pausable-example flavours: ' + B,
    },
}
