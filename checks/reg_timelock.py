"""C08 (timelock operation lifecycle) and C09 (self-administered TimelockController example)."""
from registry import K

# cap2: Vec capacity 2 (operation args: 0..=2 arbitrary Vals; payload: <= 2 contexts / descriptors)
# bytes192 + hw32: the hashed serialisation of an operation is 168 bytes = 21 oracle input words
# ew32: OperationScheduled / OperationExecuted events carry 26 / 25 words
# bytesdirect: Bytes::append indexes directly (all byte-string lengths in these harnesses are concrete)
# valdigest: a nested Vec<Val> inside a Val and an argument tuple longer than CAP are represented by
#       injective-oracle digests (require_auth_for_args of the 6-tuple in __check_auth)
PROFILES = {
    # one profile (one build) for both families; valdigest is only exercised by C09's __check_auth
    'timelock': {'features': ['cap2', 'bytes192', 'hw32', 'ew32', 'bytesdirect', 'valdigest']},
}

TL = 'governance::timelock::'
TL_STATE = [TL + f for f in ('get_operation_ledger', 'get_operation_state', 'operation_exists', 'is_operation_pending',
                             'is_operation_ready', 'is_operation_done')]
C08_BOUNDS = ('2 operation ids (operation + its predecessor, aliasing included), stored value / MinDelay / delay / ledger sequence full u32 '
              '(sequence >= 2), args: Vec<Val> of length 0..=2 with arbitrary Vals, target among 5 addresses, NS=12 slots, unwind 34')

C08 = [
    K('timelock::c08_state_table', profile='timelock', functions=TL_STATE, bounds=C08_BOUNDS),
    K('timelock::c08_schedule', profile='timelock', functions=TL_STATE + [TL + 'schedule_operation', TL + 'hash_operation', TL + 'get_min_delay', TL + 'emit_operation_scheduled'], bounds=C08_BOUNDS),
    K('timelock::c08_execute', profile='timelock', functions=TL_STATE + [TL + 'execute_operation', TL + 'set_execute_operation', TL + 'hash_operation', TL + 'emit_operation_executed'], bounds=C08_BOUNDS),
    K('timelock::c08_set_execute', profile='timelock', functions=TL_STATE + [TL + 'set_execute_operation', TL + 'hash_operation'], bounds=C08_BOUNDS),
    K('timelock::c08_cancel', profile='timelock', functions=TL_STATE + [TL + 'cancel_operation', TL + 'emit_operation_cancelled'], bounds=C08_BOUNDS),
    K('timelock::c08_done_is_absorbing', profile='timelock', functions=TL_STATE + [TL + 'schedule_operation', TL + 'execute_operation', TL + 'set_execute_operation', TL + 'cancel_operation'], bounds=C08_BOUNDS + '; pre-state restricted to Done'),
    K('timelock::c08_hash_is_function_of_the_five_fields', profile='timelock', functions=[TL + 'hash_operation'], bounds='two arbitrary operations; ' + C08_BOUNDS),
    K('timelock::c08_min_delay', profile='timelock', functions=[TL + 'set_min_delay', TL + 'get_min_delay', TL + 'emit_min_delay_changed'], bounds=C08_BOUNDS),
]

EX = 'examples/timelock-controller::TimelockController::'
AC = 'access_control::'
C09_BOUNDS = ('payload: 1..=2 authorized contexts (contract call or either deployment context, arbitrary fields, args 0..=2 Vals) against 0..=2 '
              'operation descriptors; 4 operation ids (2 ids + 2 predecessors, aliasing resolved); executor/proposer/canceller role held by any '
              'subset of 3 addresses, role count full u32; every address may have signed one arbitrary require_auth_for_args tuple; '
              'ledger sequence >= 2; unwind 34')

CA_FNS = [EX + '__check_auth', TL + 'set_execute_operation', TL + 'hash_operation', AC + 'get_role_member_count', AC + 'ensure_role', AC + 'has_role'] + TL_STATE


def CA(name, tier='quick'):
    """one __check_auth harness per (contexts x descriptors, executor configuration, context kinds): the lengths are
    concrete per harness (symbolic lengths in one harness cost > 10 min), together they cover 1..=2 x 0..=2"""
    return K('timelock_ctrl::c09_check_auth_' + name, profile='timelock', tier=tier, functions=CA_FNS,
             bounds='payload shape ' + name + ' (contexts x descriptors; open = executor role empty, exec = executor role has members); ' + C09_BOUNDS)


C09 = [
    CA('1x1_open'), CA('1x1_exec'), CA('1x1_not_a_call'), CA('1x2_open'), CA('2x2_open'),
    CA('1x0'), CA('2x0'), CA('2x1_open'),
    CA('1x2_exec', 'thorough'), CA('2x1_exec', 'thorough'), CA('2x2_exec', 'thorough'), CA('2x2_second_not_a_call', 'thorough'),
    K('timelock_ctrl::c09_schedule_op', profile='timelock', functions=[EX + 'schedule_op', 'macros::only_role', AC + 'ensure_role', TL + 'schedule_operation'], bounds=C09_BOUNDS),
    K('timelock_ctrl::c09_cancel_op', profile='timelock', functions=[EX + 'cancel_op', 'macros::only_role', AC + 'ensure_role', TL + 'cancel_operation'], bounds=C09_BOUNDS),
    K('timelock_ctrl::c09_execute_op', profile='timelock', functions=[EX + 'execute_op', AC + 'get_role_member_count', AC + 'ensure_role', TL + 'execute_operation'], bounds=C09_BOUNDS),
    K('timelock_ctrl::c09_admin_only', profile='timelock',
      functions=[EX + 'update_delay', 'macros::only_admin', AC + 'enforce_admin_auth', AC + 'AccessControl::set_role_admin', AC + 'AccessControl::transfer_admin_role', AC + 'AccessControl::renounce_admin', TL + 'set_min_delay'],
      bounds='admin slot present/absent with any of 5 holders (self-administered = the controller itself), pending admin transfer absent/live/expired, role-admin entry arbitrary'),
    K('timelock_ctrl::c09_grant_revoke_role', profile='timelock',
      functions=[AC + 'AccessControl::grant_role', AC + 'AccessControl::revoke_role', AC + 'ensure_if_admin_or_admin_role', AC + 'grant_role_no_auth', AC + 'revoke_role_no_auth'],
      bounds='admin / role-admin / caller membership arbitrary; enumeration of the granted role empty (grant) or the account is its last member (revoke)'),
]

CHECKS = {
    'C08': {
        'kani': C08,
        'bounds': C08_BOUNDS,
        'outside_claim': 'ledger sequences 0 and 1 (excluded by the property); operations with more than 2 arguments or arguments wider than 4 words; '
                         'the temporal statement is the composition of the step lemmas (stored = t_sched + delay saturating; executable only while 2 <= stored <= sequence; Done absorbing)',
        'stubs_and_assumes': [
            'keccak256 and to_xdr are the model\'s injective oracles: the id is an uninterpreted injective function of the fixed-width serialisation of the five fields (real XDR concatenation is self-delimiting; not re-proved here)',
            'the invoked target is an oracle: logged call, arbitrary answer or failure (a failing target traps the execution, which the host rolls back)',
            'a PRESENT OperationLedger entry holding 0 is included in the pre-states although the library never writes one',
        ],
    },
    'C09': {
        'kani': C09,
        'bounds': C09_BOUNDS,
        'outside_claim': 'more than 2 contexts / descriptors per authorization entry; one address signing two DIFFERENT require_auth_for_args tuples in one '
                         'invocation (model: one tuple per address); the host-side link "controller.require_auth() runs __check_auth with the contexts rooted at that call" is the Soroban host\'s, '
                         'the harnesses prove (a) every admin-only entry point needs the controller\'s authorization and (b) what __check_auth == Ok implies',
        'stubs_and_assumes': [
            'the example contract is mounted unmodified with #[path]; #[only_admin]/#[only_role] are the real stellar-macros, #[contract]/#[contractimpl] pass-through',
            'require_auth_for_args argument tuple (6 elements, nested Vec<Val>) is compared through injective-oracle digests (model feature valdigest)',
            'grant_role/revoke_role: enumeration entries of the affected role outside the authorization decision are not declared (absent)',
        ],
    },
}
