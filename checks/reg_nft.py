"""C10 / C11: non-fungible token, BASE and ENUMERABLE flavours, sequential minting, consecutive bit scan
(harnesses in kani/src/nft.rs and kani/src/nft_enum.rs). The storage-level consecutive flavour is a separate family."""
from registry import K

PROFILES = {'nft16': {'features': ['ns16']}}

NF = 'non_fungible::'
BASE_CORE = [NF + 'Base::update', NF + 'Base::owner_of', NF + 'Base::balance', NF + 'Base::increase_balance', NF + 'Base::decrease_balance']
BASE_SPEND = [NF + 'Base::check_spender_approval', NF + 'Base::get_approved', NF + 'Base::is_approved_for_all']
EN = NF + 'enumerable::Enumerable::'
ENUM_OWNER = [EN + 'add_to_owner_enumeration', EN + 'remove_from_owner_enumeration', EN + 'get_owner_token_id']
ENUM_GLOBAL = [EN + 'add_to_global_enumeration', EN + 'remove_from_global_enumeration', EN + 'get_token_id', EN + 'total_supply',
               EN + 'increment_total_supply', EN + 'decrement_total_supply', EN + 'add_to_enumerations', EN + 'remove_from_enumerations']
SEQ = [NF + 'sequential::increment_token_id', NF + 'sequential::next_token_id']

BASE_BOUNDS = ('3 tracked token ids (symbolic, pairwise distinct, full u32) x 3 tracked owners (+ per-owner symbolic count of untracked tokens) '
               '+ a 4th principal as spender; Owner(id) present/absent with symbolic owner; Approval(id) and ApprovalForAll(owner, spender) '
               'present/absent with symbolic expiry AND symbolic storage TTL; ledger/TTL limits full u32; symbolic authorization set; NS=12, unwind 18')
ENUM_BOUNDS = ('2 owners + a 3rd principal as spender; named token at a symbolic position p of its owner\'s list (length = symbolic Balance, full u32) and gp '
               'of the global list (length = symbolic TotalSupply); one further list position per list (the swap-and-pop partner, or an arbitrary bystander '
               'position when the named token is last); token ids full u32; representation invariant assumed and re-asserted on the declared slots; '
               'approval/operator entries as in the base flavour; NS=12 (transfer, mint) / NS=16 (burn), unwind 18')
BITS_BOUNDS = ('all 2^32 words x 8 start positions per harness (4 harnesses = all 32 positions), reached through Consecutive::owner_of with a one-item '
               'ownership bucket 0 (TokenIdCounter = 3200) and a single Owner marker at a free symbolic id; unwind 34')


def base(h, fns, tier='quick', **kw):
    return K('nft::' + h, functions=BASE_CORE + fns, bounds=BASE_BOUNDS, tier=tier, **kw)


def enum(h, fns, profile='base', tier='quick', **kw):
    return K('nft_enum::' + h, profile=profile, functions=BASE_CORE + fns, bounds=ENUM_BOUNDS, tier=tier, **kw)


def bits(lo):
    fns = [NF + 'consecutive::storage::find_bit_in_item', NF + 'consecutive::storage::find_bit_in_bucket', NF + 'consecutive::Consecutive::owner_of']
    return [K('nft::bits_sound_%d' % lo, functions=fns, bounds=BITS_BOUNDS),
            K('nft::bits_complete_%d' % lo, functions=fns, bounds=BITS_BOUNDS, must_succeed=True)]


TRANSFER = [base('base_transfer', [NF + 'Base::transfer']),
            base('base_transfer_from', BASE_SPEND + [NF + 'Base::transfer_from']),
            base('base_burn', [NF + 'burnable::Base::burn']),
            base('base_burn_from', BASE_SPEND + [NF + 'burnable::Base::burn_from'])]
ENUM_TRANSFER = [enum('enum_transfer', ENUM_OWNER + [EN + 'transfer', NF + 'Base::transfer']),
                 enum('enum_transfer_from', ENUM_OWNER + BASE_SPEND + [EN + 'transfer_from', NF + 'Base::transfer_from']),
                 enum('enum_burn', ENUM_OWNER + ENUM_GLOBAL + [EN + 'burn', NF + 'burnable::Base::burn'], profile='nft16'),
                 enum('enum_burn_from', ENUM_OWNER + ENUM_GLOBAL + BASE_SPEND + [EN + 'burn_from', NF + 'burnable::Base::burn_from'], profile='nft16')]
MINT = [base('base_mint', [NF + 'Base::mint']),
        base('base_sequential_mint', SEQ + [NF + 'Base::sequential_mint']),
        base('base_sequential_mint_exhausted', SEQ + [NF + 'Base::sequential_mint']),
        enum('enum_non_sequential_mint', ENUM_OWNER + ENUM_GLOBAL + [EN + 'non_sequential_mint']),
        enum('enum_sequential_mint', ENUM_OWNER + ENUM_GLOBAL + SEQ + [EN + 'sequential_mint', NF + 'Base::sequential_mint'])]
APPROVE = [base('base_approve', BASE_SPEND + [NF + 'Base::approve', NF + 'Base::approve_for_owner']),
           base('base_approve_for_all', [NF + 'Base::approve_for_all', NF + 'Base::is_approved_for_all', NF + 'Base::get_approved'])]
C11_ONLY = [base('base_transfer_from_foreign_operator', BASE_SPEND + [NF + 'Base::transfer_from']),
            base('base_burn_from_foreign_operator', BASE_SPEND + [NF + 'burnable::Base::burn_from']),
            base('base_stale_approval_history', BASE_SPEND + [NF + 'Base::transfer', NF + 'Base::transfer_from'])]

STUBS = ['NFTSequentialStorageKey is private to the library: the harness declares the TokenIdCounter entry through a #[contracttype] mirror enum with the same '
         'variant name (identical key encoding; confirmed in-harness through sequential::next_token_id)',
         'find_bit_in_item is pub(crate): exercised through the public Consecutive::owner_of with a one-item bucket (start positions 0..31 of bucket 0)']

CHECKS = {
    'C10': {
        'kani': TRANSFER + ENUM_TRANSFER + MINT + [APPROVE[0]] + bits(0) + bits(8) + bits(16) + bits(24),
        'bounds': 'base: ' + BASE_BOUNDS + ' || enumerable: ' + ENUM_BOUNDS + ' || bit scan: ' + BITS_BOUNDS,
        'outside_claim': 'storage-level consecutive flavour (batch_mint / Consecutive::update / bucket arithmetic beyond item 0: separate family); '
                         'more than 3 tracked tokens or 2 list positions per list touched in one step (no entry point touches more); archived persistent entries',
        'stubs_and_assumes': STUBS,
    },
    'C11': {
        'kani': TRANSFER + ENUM_TRANSFER + APPROVE + C11_ONLY,
        'bounds': 'base: ' + BASE_BOUNDS + ' || enumerable: ' + ENUM_BOUNDS,
        'outside_claim': 'consecutive flavour (separate family); histories are covered inductively (every step from an arbitrary approval state) plus one explicit '
                         'two-invocation history (approve-state -> transfer -> transfer_from by the formerly approved account)',
        'stubs_and_assumes': STUBS[:1],
    },
}
