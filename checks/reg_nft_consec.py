"""C10 / C11: non-fungible token, CONSECUTIVE flavour at the storage level (harnesses in kani/src/nft_consec.rs).

Built with the one source hook (--cfg stellar_verif: ITEMS_IN_BUCKET = 2, IDS_IN_BUCKET = 64). The family is
compositional (see the header of nft_consec.rs):
  A  scan_item_all_inputs / scan_bucket_vs_naive : the two crate-private scan functions, called directly (a #[path]
     include of the library's own consecutive/storage.rs compiled a second time inside the harness crate);
  B  owner_of_sound / owner_of_complete : the library crate's Consecutive::owner_of (its find_bit_in_item replaced by the
     loop-free reference proven equal in A) == owner_of_spec on an ARBITRARY stored state;
  H  h*_ / c11_* : histories from the empty contract state through the real batch_mint / transfer / transfer_from /
     burn / burn_from / approve / update / set_owner_for_previous_token / set_ownership_in_bucket, with
     Consecutive::owner_of replaced by owner_of_spec (B), compared with a plain ownership ghost.
"""
from registry import K

PROFILES = {
    # histories: up to 21 declared slots
    'nftconsec': {'features': ['ns24', 'cap2', 'vw4', 'getmux', 'consecstub'], 'cfg': ['stellar_verif'], 'stubbing': True},
    # link A / B: the three nested library scans are unwound to the global bound (NS + 1), so NS stays 12
    'nftconsec12': {'features': ['cap2', 'vw4', 'getmux', 'consecstub'], 'cfg': ['stellar_verif'], 'stubbing': True},
}

NF = 'non_fungible::'
CS = NF + 'consecutive::Consecutive::'
SCAN = [NF + 'consecutive::storage::find_bit_in_item', NF + 'consecutive::storage::find_bit_in_bucket']
OWNER_OF = [CS + 'owner_of']
UPDATE = [CS + 'update', CS + 'set_owner_for_previous_token', CS + 'set_ownership_in_bucket', NF + 'Base::increase_balance',
          NF + 'Base::decrease_balance', NF + 'Base::balance', NF + 'sequential::next_token_id']
MINT = [CS + 'batch_mint', NF + 'sequential::increment_token_id', NF + 'consecutive::emit_consecutive_mint']
SPEND = [NF + 'Base::check_spender_approval', NF + 'Base::get_approved', NF + 'Base::is_approved_for_all']

WIDTH = 'bucket width 2 items (IDS_IN_BUCKET = 64; hook --cfg stellar_verif); the bucket-index arithmetic, edge-crossing scan and marker logic are width-independent code'
SCAN_B = 'find_bit_in_item: ALL (Option<u32>, u32) inputs, unwind 34; find_bit_in_bucket: vectors of 0..=2 symbolic words, start full u32'
OWNER_B = ('arbitrary stored state as far as owner_of can see it: TokenIdCounter absent / 0..=192 (buckets 0..=2), BurnedToken(q) for symbolic q absent / any bool, '
           'OwnershipBucket(0..=2) absent / any two words, one Owner(p) marker at symbolic p absent / any address; queried id full u32; ledger / TTLs symbolic; NS=12, unwind 13; ' + WIDTH)
HIST_B = ('histories from the EMPTY state: batch_mint(A, n0), batch_mint(B, n1) with n0, n1 symbolic in 1..=70 (ids up to 140: bucket edges 63|64 and 127|128 crossed by either batch), '
          'then k operations (one harness per sequence of kinds; id full u32, from / to among 3 principals, authorization set and ledger redrawn per invocation), '
          'then owner_of for a SYMBOLIC id (full u32) and balance of a symbolic principal against the ghost; every key the history may write pre-declared absent '
          '(frame: nothing else written); NS=24, unwind 25; ' + WIDTH)
C11_B = ('two batches as in the histories; Approval(id) (absent / any of 4 accounts, any expiry, any storage TTL), ApprovalForAll(from-or-owner, acting account) and '
         'ApprovalForAll(another account, acting account) arbitrary; acting account among 4 principals, from / to among 3; one entry point per harness; ' + WIDTH)


def hist(name, k, tier):
    return K('nft_consec::' + name, 'nftconsec', tier=tier, functions=MINT + UPDATE + [CS + 'transfer', CS + 'burn', NF + 'emit_transfer', NF + 'burnable::emit_burn'],
             bounds='k = %d; ' % k + HIST_B, timeout={'quick': 900, 'thorough': 3600})


LINKS = [K('nft_consec::scan_item_all_inputs', 'nftconsec12', functions=SCAN[:1], bounds=SCAN_B),
         K('nft_consec::scan_bucket_vs_naive', 'nftconsec12', functions=SCAN, bounds=SCAN_B),
         K('nft_consec::owner_of_sound', 'nftconsec12', functions=OWNER_OF + SCAN[1:], bounds=OWNER_B),
         K('nft_consec::owner_of_complete', 'nftconsec12', functions=OWNER_OF + SCAN[1:], bounds=OWNER_B, must_succeed=True)]
HIST_QUICK = [hist('h1_t', 1, 'quick'), hist('h1_b', 1, 'quick'), hist('h2_tb', 2, 'quick'), hist('h2_bt', 2, 'quick')]
HIST_THOROUGH = [hist('h2_tt', 2, 'thorough'), hist('h2_bb', 2, 'thorough')] + \
    [hist('h3_' + s, 3, 'thorough') for s in ('ttt', 'ttb', 'tbt', 'tbb', 'btt', 'btb', 'bbt', 'bbb')]


def c11(name, fns, tier='quick'):
    return K('nft_consec::' + name, 'nftconsec', tier=tier, functions=UPDATE + SPEND + fns, bounds=C11_B, timeout={'quick': 900, 'thorough': 3600})


DELEGATED = [c11('c11_transfer_from', [CS + 'transfer_from']), c11('c11_burn_from', [CS + 'burn_from'])]
DIRECT = [c11('c11_transfer', [CS + 'transfer']), c11('c11_burn', [CS + 'burn'])]
APPROVE = [c11('c11_approve', [CS + 'approve', NF + 'Base::approve_for_owner', NF + 'emit_approve'])]
STALE = [c11('c11_stale_transfer_from', [CS + 'transfer', CS + 'transfer_from'], tier='thorough'),
         c11('c11_stale_burn_from', [CS + 'transfer', CS + 'burn_from'], tier='thorough')]

STUBS = [
    'consecutive flavour: Consecutive::owner_of is replaced (#[kani::stub]) by owner_of_spec in the history / C11 harnesses; owner_of_spec is proven equal to the real '
    'owner_of (same answers, traps exactly where it has none) on arbitrary stored states by nft_consec::owner_of_sound / owner_of_complete (counter <= 192, buckets of 2 words). '
    'Reason (measured): one inlined owner_of with symbolic id costs 1.3 M SAT variables / 4 GB, a 3-operation history contains 8 of them; its three nested scans have symbolic '
    'bounds, so every one is unwound to the global bound (a single call with bound 25 ran out of 12 GB)',
    'consecutive flavour: inside owner_of_sound / owner_of_complete and scan_bucket_vs_naive, find_bit_in_item is replaced by the loop-free item_scan_ref; '
    'nft_consec::scan_item_all_inputs proves the two equal for ALL inputs (and equal to the definition "first set bit at or after start")',
    'consecutive flavour: find_bit_in_item / find_bit_in_bucket are pub(crate); scan_item_all_inputs / scan_bucket_vs_naive call them through a second compilation of the '
    'library\'s own source file (#[path] include of consecutive/storage.rs into the harness crate; kani/src/nft_consec_shim.rs only resolves its `crate::non_fungible::…` imports)',
    'consecutive flavour: NFTSequentialStorageKey is private: TokenIdCounter is declared / read through a #[contracttype] mirror enum with the same variant name '
    '(confirmed in owner_of_sound through sequential::next_token_id)',
    'consecutive flavour, must-succeed harness owner_of_complete: ledger sequence <= u32::MAX - 518400 (otherwise the 30-day TTL extension overflows and the host traps)',
    'host-model features of the consec profiles (no change of results, documented in hostmodel: env.rs / model.rs): getmux = single-exit storage primitives, vw4 = 4-word values',
]

CHECKS = {
    'C10': {
        'kani': LINKS + HIST_QUICK + HIST_THOROUGH + DELEGATED,
        'bounds': 'consecutive: scans: ' + SCAN_B + ' || owner_of: ' + OWNER_B + ' || histories: ' + HIST_B,
        'outside_claim': 'consecutive flavour: real bucket width (100 items / 3200 ids per bucket; out of reach: the 100-word scan alone did not finish symbolic execution in 17 min / 12 GB), '
                         'more than two batches, batches larger than 70, more than 3 transfers / burns after the mints (quick tier: 2), ids above 191; token_uri',
        'stubs_and_assumes': STUBS,
    },
    'C11': {
        'kani': DELEGATED + DIRECT + APPROVE + STALE,
        'bounds': 'consecutive: ' + C11_B,
        'outside_claim': 'consecutive flavour: approval states are arbitrary at the moment of the call (declared), not built by approve / approve_for_all calls '
                         '(approve_for_all is Base code, covered by the base family); one explicit two-invocation history (live approval -> transfer -> transfer_from / burn_from by the formerly approved account)',
        'stubs_and_assumes': STUBS[:1],
    },
}
