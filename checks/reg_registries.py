"""C20: registries behave as the sets and maps they represent (RWA side). Harnesses: /verif/kani/src/registries.rs and
/verif/kani/src/registries/{claim_issuer,cti,binder,irs,docs,compliance}.rs. (The smart-account context-rule registry is a separate family.)"""
from registry import K

PROFILES = {
    # claim-issuer key registry: Vec<SigningKey> of 4 keys = 17 words
    'reg_ci': {'features': ['vw24']},
    # capacity limit of 20 registries per key: vectors of 21 elements (the code pushes before it tests the length), values of
    # 96 words (Vec<SigningKey> = 85, Vec<(u32, Address)> = 43); traphook = trap observer of the model, which lets the converse
    # direction of a limit clause ("is accepted at the documented maximum") report a trap under its own clause name
    'reg_ci21': {'features': ['cap21', 'vw96', 'traphook']},
    # claim topics and issuers: universe of 3 topics x 3 issuers, vectors of 3
    'reg_cap3': {'features': ['cap3']},
    # identity registry storage: IdentityProfile with 2 country entries (each carrying an optional 2-entry metadata map) = 32 words;
    # country-data events of 32 words
    'reg_irs': {'features': ['cap2', 'vw48', 'ew32']},
    # document manager: bucket of 3 (name, document) entries = 37 words; DocumentUpdated event = 12 words
    'reg_docs': {'features': ['cap3', 'vw48', 'ew32']},
}

CI = 'rwa::claim_issuer::'
CI_RD = [CI + 'is_key_allowed_for_topic']
CI_BOUNDS = ('one call from an ARBITRARY stored state satisfying the relation invariant: key K = (16 symbolic bytes of any length 0..16, scheme u32), '
             'bystander key K2, topic and bystander topic full u32, Topics(topic), Topics(t2) = 0..4 arbitrary keys, Pairs(K), Pairs(K2) = 0..4 '
             'arbitrary (topic, registry) pairs (registry ids full u32), each entry absent or present; registry answer arbitrary or failing; '
             'ledger/TTLs full u32; vector capacity 4, NS=12, unwind 26')
CI_LIMIT_BOUNDS = ('Pairs(K) = n ARBITRARY pairwise different (topic, registry) pairs, n symbolic in the stated range around '
                   'MAX_REGISTRIES_PER_KEY = 20 (vector capacity 21); Topics(topic) = 0..2 arbitrary other keys plus K exactly when a pair of K '
                   'names the topic; key bytes, scheme, topic, registry id symbolic; unwind 98')

CLAIM_ISSUER = [
    K('registries::claim_issuer::allow_key_step', 'reg_ci', functions=[CI + 'allow_key', CI + 'emit_key_allowed'] + CI_RD,
      bounds=CI_BOUNDS + '; at most 3 elements in the lists the call extends'),
    K('registries::claim_issuer::allow_key_accepts', 'reg_ci', tier='thorough', must_succeed=True, functions=[CI + 'allow_key'] + CI_RD,
      bounds=CI_BOUNDS + '; non-empty key, new pair, registry confirms, ledger sequence < 2^32 - 30 days'),
    K('registries::claim_issuer::remove_key_step', 'reg_ci', functions=[CI + 'remove_key', CI + 'emit_key_removed'], bounds=CI_BOUNDS),
    K('registries::claim_issuer::remove_key_accepts', 'reg_ci', must_succeed=True, functions=[CI + 'remove_key'], bounds=CI_BOUNDS + '; the pair is stored'),
    K('registries::claim_issuer::getters_agree', 'reg_ci', functions=CI_RD + [CI + 'is_key_allowed_for_registry'],
      bounds=CI_BOUNDS + '; witness key in {K, K2}, witness topic in {topic, t2}, witness registry full u32'),
    K('registries::claim_issuer::list_getters_agree', 'reg_ci', tier='thorough', functions=[CI + 'get_keys_for_topic', CI + 'get_registries'] + CI_RD,
      bounds=CI_BOUNDS + '; witness index full u32'),
    K('registries::claim_issuer::allow_key_registries_limit_not_exceeded', 'reg_ci21', functions=[CI + 'allow_key'] + CI_RD,
      bounds=CI_LIMIT_BOUNDS + '; n in 18..20'),
    K('registries::claim_issuer::allow_key_registries_limit_reachable', 'reg_ci21', must_succeed=True, functions=[CI + 'allow_key'] + CI_RD,
      bounds=CI_LIMIT_BOUNDS + '; n = 19 (the call makes it 20 = MAX_REGISTRIES_PER_KEY); non-empty key, new pair, registry confirms, '
             'ledger sequence < 2^32 - 30 days'),
    K('registries::claim_issuer::allow_key_below_registries_limit_accepted', 'reg_ci21', tier='thorough', must_succeed=True,
      functions=[CI + 'allow_key'] + CI_RD, bounds=CI_LIMIT_BOUNDS + '; n in 17..18; non-empty key, new pair, registry confirms'),
]

CT = 'rwa::claim_topics_and_issuers::storage::'
CT_RD = [CT + 'get_claim_topics', CT + 'get_trusted_issuers', CT + 'get_claim_topic_issuers', CT + 'get_trusted_issuer_claim_topics']
CT_BOUNDS = ('one call from an ARBITRARY stored state satisfying the relation invariant over a universe of 3 topics (symbolic pairwise different '
             'u32 values) and 3 issuer addresses: ClaimTopics, TrustedIssuers, IssuerClaimTopics(i), ClaimTopicIssuers(t) = arbitrary arrangements '
             'of 0..3 universe elements, every entry absent or present; argument vectors of 0..3 arbitrary u32; ledger/TTLs full u32; '
             'vector capacity 3, NS=12, unwind 13')

CTI = [
    K('registries::cti::add_claim_topic_step', 'reg_cap3', functions=[CT + 'add_claim_topic', 'emit_claim_topic_added'] + CT_RD[:1], bounds=CT_BOUNDS),
    K('registries::cti::remove_claim_topic_step', 'reg_cap3', functions=[CT + 'remove_claim_topic', 'emit_claim_topic_removed'] + CT_RD[:2], bounds=CT_BOUNDS),
    K('registries::cti::add_trusted_issuer_step', 'reg_cap3',
      functions=[CT + 'add_trusted_issuer', CT + 'validate_topics_exist', CT + 'validate_no_duplicate_topics', 'emit_trusted_issuer_added'] + CT_RD[:3],
      bounds=CT_BOUNDS),
    K('registries::cti::remove_trusted_issuer_step', 'reg_cap3', functions=[CT + 'remove_trusted_issuer', 'emit_trusted_issuer_removed'] + CT_RD, bounds=CT_BOUNDS),
    K('registries::cti::remove_trusted_issuer_accepts', 'reg_cap3', must_succeed=True, functions=[CT + 'remove_trusted_issuer'] + CT_RD,
      bounds=CT_BOUNDS + '; the issuer is listed; ledger sequence < 2^32 - 30 days'),
    K('registries::cti::update_issuer_claim_topics_step', 'reg_cap3', tier='thorough', timeout={'thorough': 2400},
      functions=[CT + 'update_issuer_claim_topics', CT + 'is_trusted_issuer', CT + 'validate_topics_exist', CT + 'validate_no_duplicate_topics',
                 'emit_issuer_topics_updated'] + CT_RD, bounds=CT_BOUNDS),
    K('registries::cti::getters_agree', 'reg_cap3', functions=CT_RD + [CT + 'is_trusted_issuer', CT + 'has_claim_topic'],
      bounds=CT_BOUNDS + '; witness issuer among 5 addresses (3 of the universe + 2 strangers), witness topic of the universe or any other value'),
    K('registries::cti::map_getter_agrees', 'reg_cap3', must_succeed=True, functions=[CT + 'get_claim_topics_and_issuers'] + CT_RD[:3] + [CT + 'is_trusted_issuer'],
      bounds=CT_BOUNDS + '; ledger sequence < 2^32 - 30 days'),
]

TB = 'rwa::utils::token_binder::'
TB_RD = [TB + 'storage::linked_token_count', TB + 'storage::get_persistent_entry']
TB_BOUNDS = ('one call from an ARBITRARY enumeration of 0..4 pairwise different tokens (address ids full u32) in bucket 0, TotalCount / bucket '
             'absent (never written) or present; ledger/TTLs full u32; vector capacity 4, NS=12, unwind 14')
TB_EDGE = ('count symbolic around BUCKET_SIZE = 100 (stated range), bucket 0 = 100 (or count) tokens: the fixed addresses 1000+i except ONE symbolic '
           'position holding an arbitrary address, bucket 1 = 0..3 arbitrary tokens (absent or present when empty), all pairwise different; token '
           'argument / witness index full u32; vector capacity 100, values of 128 words, unwind 130')

BINDER = [
    K('registries::binder::bind_token_step', functions=[TB + 'bind_token', TB + 'is_token_bound', TB + 'emit_token_bound'] + TB_RD, bounds=TB_BOUNDS + '; at most 3 tokens before'),
    K('registries::binder::unbind_token_step', functions=[TB + 'unbind_token', TB + 'get_token_index', TB + 'get_token_by_index', TB + 'emit_token_unbound'] + TB_RD,
      bounds=TB_BOUNDS),
    K('registries::binder::bind_tokens_step', functions=[TB + 'bind_tokens', TB + 'linked_tokens', TB + 'emit_token_bound'] + TB_RD,
      bounds='six shapes (tokens enumerated before, batch size): (0 never written, 2), (0, 4), (1, 3), (2, 2), (3, 1), (2, 0); all addresses '
             'arbitrary u32 ids (duplicates inside the batch and already-bound tokens included); lengths concrete per shape, vector capacity 4'),
    K('registries::binder::getters_agree', functions=[TB + 'is_token_bound', TB + 'linked_tokens'] + TB_RD, bounds=TB_BOUNDS),
    K('registries::binder::getter_by_index_agrees', functions=[TB + 'get_token_by_index', TB + 'get_token_index'] + TB_RD, bounds=TB_BOUNDS + '; index full u32'),
    K('registries::binder::getter_index_of_agrees', functions=[TB + 'get_token_by_index', TB + 'get_token_index'] + TB_RD, bounds=TB_BOUNDS),
    K('registries::binder::operations_accepted', tier='thorough', must_succeed=True,
      functions=[TB + 'get_token_by_index', TB + 'get_token_index', TB + 'unbind_token', TB + 'bind_token'] + TB_RD,
      bounds=TB_BOUNDS + '; at most 3 tokens before; ledger sequence < 2^32 - 30 days'),
]

IR = 'rwa::identity_registry_storage::'
IR_RD = [IR + 'storage::get_persistent_entry', IR + 'get_recovered_to']
IR_BOUNDS = ('one call from an ARBITRARY stored state over two accounts satisfying the invariant (identity <=> profile, profile lists >= 1 country, '
             'recovered => not registered): Identity / IdentityProfile / RecoveredTo of each account absent or present with arbitrary contents '
             '(identity and link addresses full u32 ids, 1..2 country entries with arbitrary relation and an optional metadata map of 0..2 '
             'entries with strings of 0..16 bytes); ledger/TTLs full u32; vector capacity 2, values of 48 words, NS=12, unwind 50')
IRS = [
    K('registries::irs::add_identity_step', 'reg_irs', functions=[IR + 'add_identity', IR + 'validate_country_data', IR + 'emit_identity_stored', IR + 'emit_country_data_event'] + IR_RD, bounds=IR_BOUNDS),
    K('registries::irs::remove_identity_step', 'reg_irs', functions=[IR + 'remove_identity', IR + 'emit_identity_unstored', IR + 'emit_country_data_event'], bounds=IR_BOUNDS),
    K('registries::irs::remove_identity_accepts', 'reg_irs', tier='thorough', must_succeed=True, functions=[IR + 'remove_identity'], bounds=IR_BOUNDS + '; the account is registered'),
    K('registries::irs::modify_identity_step', 'reg_irs', tier='thorough', functions=[IR + 'modify_identity', IR + 'emit_identity_modified'], bounds=IR_BOUNDS),
    K('registries::irs::recover_identity_step', 'reg_irs', functions=[IR + 'recover_identity', IR + 'emit_identity_recovered'] + IR_RD, bounds=IR_BOUNDS + '; old and new account symbolic among the two'),
    K('registries::irs::recovered_account_stays_out', 'reg_irs', functions=[IR + 'recover_identity', IR + 'add_identity'] + IR_RD,
      bounds=IR_BOUNDS + '; history: recover account 0 onto account 1, then a later invocation tries add_identity(account 0, ...) or recover_identity(1 -> 0)'),
    K('registries::irs::getters_agree', 'reg_irs', functions=[IR + 'stored_identity', IR + 'get_identity_profile'] + IR_RD, bounds=IR_BOUNDS),
    K('registries::irs::country_getters_agree', 'reg_irs', tier='thorough', functions=[IR + 'get_country_data', IR + 'get_country_data_entries', IR + 'get_identity_profile'] + IR_RD[:1],
      bounds=IR_BOUNDS + '; witness index full u32'),
    K('registries::irs::add_country_data_step', 'reg_irs', tier='thorough', functions=[IR + 'add_country_data_entries', IR + 'validate_country_data', IR + 'emit_country_data_event'] + IR_RD[:1],
      bounds=IR_BOUNDS + '; added list of 0..2 entries with old + added <= 2'),
    K('registries::irs::modify_country_data_step', 'reg_irs', tier='thorough', functions=[IR + 'modify_country_data', IR + 'validate_country_data', IR + 'get_identity_profile', IR + 'emit_country_data_event'],
      bounds=IR_BOUNDS + '; index full u32'),
    K('registries::irs::delete_country_data_step', 'reg_irs', tier='thorough', functions=[IR + 'delete_country_data', IR + 'get_identity_profile', IR + 'emit_country_data_event'],
      bounds=IR_BOUNDS + '; index full u32'),
]

DM = 'rwa::extensions::doc_manager::'
DM_BOUNDS = ('one call from an ARBITRARY stored state over 3 document names (symbolic pairwise different 32-byte values) satisfying the index invariant: '
             '0..3 documents in bucket 0 in an arbitrary order, each with arbitrary uri (0..16 bytes), hash and timestamp, Count / bucket never written or '
             'present; ledger time full u64; vector capacity 3, values of 48 words, NS=12, unwind 50')
DOCS = [
    K('registries::docs::set_document_step', 'reg_docs', functions=[DM + 'set_document', DM + 'get_document_count', DM + 'emit_document_updated'], bounds=DM_BOUNDS),
    K('registries::docs::remove_document_step', 'reg_docs', functions=[DM + 'remove_document', DM + 'get_document_count', DM + 'emit_document_removed'], bounds=DM_BOUNDS),
    K('registries::docs::getters_agree', 'reg_docs', functions=[DM + 'get_document', DM + 'get_document_by_index', DM + 'get_document_count', DM + 'get_documents'], bounds=DM_BOUNDS),
    K('registries::docs::operations_accepted', 'reg_docs', tier='thorough', must_succeed=True, functions=[DM + 'get_document', DM + 'get_document_by_index', DM + 'remove_document'],
      bounds=DM_BOUNDS + '; the name is stored, index below the count; ledger sequence < 2^32 - 30 days'),
]

CM = 'rwa::compliance::storage::'
CM_BOUNDS = ('one call, hook and bystander hook symbolic among the 5 hooks, HookModules(hook) = arbitrary pairwise different addresses (full u32 ids), '
             'HookModules(other) = 0..3, entries absent (when empty) or present; ')
CM_SMALL = CM_BOUNDS + '0..4 modules, vector capacity 4, unwind 14'
CM_LIMIT = CM_BOUNDS + 'module count symbolic around MAX_MODULES = 20 (stated range), vector capacity 21, unwind 98'
COMPLIANCE = [
    K('registries::compliance::add_module_step', functions=[CM + 'add_module_to', CM + 'get_modules_for_hook', 'emit_module_added'], bounds=CM_SMALL + '; at most 3 before'),
    K('registries::compliance::remove_module_step', functions=[CM + 'remove_module_from', CM + 'get_modules_for_hook', 'emit_module_removed'], bounds=CM_SMALL),
    K('registries::compliance::getters_agree', functions=[CM + 'get_modules_for_hook', CM + 'is_module_registered'], bounds=CM_SMALL),
    K('registries::compliance::add_module_limit_not_exceeded', 'reg_ci21', functions=[CM + 'add_module_to', CM + 'get_modules_for_hook'], bounds=CM_LIMIT + '; 18..20 modules before'),
    K('registries::compliance::add_module_limit_reachable', 'reg_ci21', must_succeed=True, functions=[CM + 'add_module_to', CM + 'get_modules_for_hook'],
      bounds=CM_LIMIT + '; 18..19 modules before, new module, ledger sequence < 2^32 - 30 days'),
    K('registries::compliance::remove_module_at_limit', 'reg_ci21', tier='thorough', functions=[CM + 'remove_module_from', CM + 'get_modules_for_hook'], bounds=CM_LIMIT + '; 19..20 modules before'),
]

CHECKS = {
    'C20': {
        'kani': CLAIM_ISSUER + CTI + BINDER + IRS + DOCS + COMPLIANCE,
        'bounds': 'claim-issuer keys: ' + CI_BOUNDS + ' | limit: ' + CI_LIMIT_BOUNDS + ' | claim topics and issuers: ' + CT_BOUNDS +
                  ' | token binder: ' + TB_BOUNDS + ' | identity registry storage: ' + IR_BOUNDS +
                  ' | documents: ' + DM_BOUNDS + ' | compliance modules: ' + CM_SMALL + ' / ' + CM_LIMIT,
        'outside_claim': ('histories are covered by induction over single calls from an arbitrary invariant-satisfying state (each invariant is assumed before and '
                          'asserted after every mutating call, the empty initial state satisfies it, and the getters are shown to describe the reference set/map '
                          'on every invariant-satisfying state); lists longer than the stated vector capacities, hence the limits MAX_KEYS_PER_TOPIC = 50, '
                          'MAX_CLAIM_TOPICS = 15, MAX_ISSUERS = 50, MAX_TOKENS = 10000, MAX_DOCUMENTS = 5000, MAX_COUNTRY_ENTRIES = 15 themselves (their comparisons '
                          'are on every growing path but never true within the capacities; MAX_REGISTRIES_PER_KEY = 20 and MAX_MODULES = 20 are exercised at the '
                          'limit); the token-binder bucket boundary AT THE REAL WIDTH (covered at bucket width 2 through the cfg(stellar_verif) hook, see reg_buckets.py; BUCKET_SIZE = 100: a harness with 100-element buckets, kani/src/registries/binder.rs mod edge, exceeds 12 GB in symbolic execution and is NOT registered; the in-bucket harnesses cover the swap-and-pop and index logic for counts below the vector capacity, the bucket arithmetic index / BUCKET_SIZE, index % BUCKET_SIZE is only exercised with quotient 0); the document-manager '
                          'bucket boundary at the real width (BUCKET_SIZE = 50 entries of 12 words; covered at width 2 through the hook) and URIs above 16 bytes (MAX_URI_LEN = 200); more than two accounts / two '
                          'country entries per identity; the hook-execution functions of the compliance contract (C04 family); the smart-account context-rule '
                          'registry (separate family); the contract-level wrappers that add authorization (the storage functions under test document that they '
                          'bypass authorization)'),
        'stubs_and_assumes': [
            'the representation invariant of each registry is ASSUMED on the pre-state and ASSERTED on the post-state of every mutating call',
            'claim issuer: the registry contract asked by allow_key (has_claim_topic) answers arbitrarily or fails; pinned to "true" in the must-succeed harnesses',
            'token binder / identity registry storage: the private key types TokenBinderStorageKey / IRSStorageKey are mirrored by enums with the same variant names (same storage keys)',
            'must-succeed harnesses assume ledger sequence + 30 days fits u32 (TTL extension)',
        ],
    },
}
