"""Which obligations decide which property (see /verif/DESIGN.md §4)."""

PROFILES = {
    # name: cargo features of the host model (capacities), extra cfgs
    'base': {'features': []},
}

HOOKS = {
    'guard': 'stellar_verif',
    'enable': 'RUSTFLAGS="--cfg stellar_verif" (passed by bin/check only to the harness profiles that need it)',
    'baseline_off_cmd': 'cd /repo && cargo test --workspace --no-fail-fast --offline',
    'source_commits': ['aa0f6ce', 'aeda89b'],
    'add_only': True,
}
NOT_APPLICABLE = {}

TRUSTED_BASE = [
    'host model /verif/hostmodel (storage/TTL/auth/event/foreign-call semantics written against soroban-env-host 25.0.1)',
    'rustc (Kani 0.68 nightly front end) + CBMC 6.11 + CaDiCaL',
    'Soroban host: rollback of failed invocations, no re-entrancy, archival/restoration of persistent entries',
]
ASSUMPTIONS = [
    'a failed invocation (contract error, host trap, Rust panic) is rolled back by the host: only normally returning paths carry obligations',
    'persistent and instance entries of the pre-state are live (archived entries are restored before use)',
]


def K(harness, profile='base', tier='quick', functions=(), bounds='', **kw):
    d = {'harness': harness, 'profile': profile, 'tier': tier, 'functions': list(functions), 'bounds': bounds}
    d.update(kw)
    return d


FUNGIBLE_BOUNDS = '4 tracked accounts (+ symbolic rest-of-world ghost), amounts/balances full i128, ledger/TTL full u32, NS=12 slots, unwind 18'
BASE_FNS = ['fungible::Base::update', 'fungible::Base::balance', 'fungible::Base::total_supply', 'fungible::Base::allowance_data',
            'fungible::Base::set_allowance', 'fungible::Base::spend_allowance']

FUNGIBLE_BASE = [
    K('fungible::c01_transfer', functions=BASE_FNS + ['fungible::Base::transfer', 'fungible::emit_transfer'], bounds=FUNGIBLE_BOUNDS),
    K('fungible::c01_transfer_from', functions=BASE_FNS + ['fungible::Base::transfer_from'], bounds=FUNGIBLE_BOUNDS),
    K('fungible::c01_mint', functions=BASE_FNS + ['fungible::Base::mint', 'fungible::emit_mint'], bounds=FUNGIBLE_BOUNDS),
    K('fungible::c01_burn', functions=BASE_FNS + ['fungible::burnable::Base::burn', 'emit_burn'], bounds=FUNGIBLE_BOUNDS),
    K('fungible::c01_burn_from', functions=BASE_FNS + ['fungible::burnable::Base::burn_from'], bounds=FUNGIBLE_BOUNDS),
    K('fungible::c02_approve_then_read', functions=BASE_FNS + ['fungible::Base::approve', 'fungible::Base::allowance'], bounds=FUNGIBLE_BOUNDS + '; read at an arbitrary later ledger'),
]

HS_FNS = ['role_transfer::transfer_role', 'role_transfer::accept_transfer']
HS_BOUNDS = '4 symbolic addresses, ledger numbers and TTLs full u32, min_temp_ttl = 1 (as the property prescribes), arbitrary stored pre-state (holder set/renounced, pending offer absent/live/expired), unwind 14'


def handshake(mod, fns):
    return [K('handshake::%s::%s' % (mod, h), functions=HS_FNS + fns, bounds=HS_BOUNDS)
            for h in ('offer_then_accept', 'accept_step', 'accept_step_witness', 'cancel_then_accept', 'renounce')]


HANDSHAKE = handshake('own', ['ownable::transfer_ownership', 'ownable::accept_ownership', 'ownable::renounce_ownership', 'ownable::enforce_owner_auth']) + \
    handshake('adm', ['access_control::transfer_admin_role', 'access_control::accept_admin_transfer', 'access_control::renounce_admin', 'access_control::enforce_admin_auth'])

CHECKS = {
    'C07': {
        'kani': HANDSHAKE,
        'cmds': [{'name': 'hostmodel-vs-real-host-ttl', 'cmd': {'quick': 'bin/difftest 3 400', 'thorough': 'bin/difftest 12 3000'}}],
        'bounds': HS_BOUNDS,
        'outside_claim': 'networks whose minimum temporary-entry lifetime exceeds 1 (the property fixes it to 1)',
    },
    'C01': {
        'kani': FUNGIBLE_BASE,
        'bounds': FUNGIBLE_BOUNDS,
        'outside_claim': 'more than 4 principals in one call (no entry point names more than 3); archived persistent entries; the global sum follows from the per-slot deltas by linear arithmetic',
    },
    'C02': {
        'kani': FUNGIBLE_BASE,
        'bounds': FUNGIBLE_BOUNDS,
        'outside_claim': 'RWA supervisory operations (excluded by the property)',
    },
}


# ---------------------------------------------------------------- fragments
# Every checks/reg_*.py may define PROFILES (dict), CHECKS (dict: property -> entry) and
# NOT_APPLICABLE (dict). Entries for the same property are merged (kani/smt lists concatenated).
def _merge():
    import glob, importlib.util, os
    here = os.path.dirname(os.path.abspath(__file__))
    for f in sorted(glob.glob(os.path.join(here, 'reg_*.py'))):
        spec = importlib.util.spec_from_file_location(os.path.basename(f)[:-3], f)
        m = importlib.util.module_from_spec(spec)
        spec.loader.exec_module(m)
        PROFILES.update(getattr(m, 'PROFILES', {}))
        NOT_APPLICABLE.update(getattr(m, 'NOT_APPLICABLE', {}))
        for pid, e in getattr(m, 'CHECKS', {}).items():
            cur = CHECKS.setdefault(pid, {})
            for k, v in e.items():
                if k in ('kani', 'smt', 'cmds', 'trusted_base', 'stubs_and_assumes', 'assumptions'):
                    cur[k] = cur.get(k, []) + list(v)
                elif k in ('bounds', 'outside_claim') and cur.get(k):
                    cur[k] = cur[k] + ' | ' + v
                else:
                    cur[k] = v


_merge()

# memory-heavy families: fewer harnesses at a time, larger per-harness memory limit
if 'C03' in CHECKS:
    CHECKS['C03']['jobs'] = {'quick': 6, 'thorough': 3}
    CHECKS['C03']['kani'] = [dict(_s, mem_gb=max(_s.get('mem_gb', 14), 20)) for _s in CHECKS['C03'].get('kani', [])]

if 'C20' in CHECKS:
    CHECKS['C20']['jobs'] = {'quick': 8, 'thorough': 6}
    CHECKS['C20']['kani'] = [dict(_s, mem_gb=20) if _s['harness'].startswith('context_rules::') else _s for _s in CHECKS['C20'].get('kani', [])]

# ---------------------------------------------------------------- quick-tier budget
# Quick = the check run on every change (target: a few minutes per property on 16 cores). Harnesses matching these
# patterns stay registered but run in the thorough tier only (converses, getter agreement, heavier shapes).
import re as _re
QUICK_DEMOTE = {
    'C20': [r'_accepts$', r'getters', r'getter_', r'update_name', r'update_valid_until', r'limit_not_exceeded$',
            r'context_rules::remove_policy$', r'context_rules::add_signer$'],
    'C01': [r'^votes::ex_', r'^gates::.*_ex::', r'^gates::capped'],
    'C02': [r'^votes::ex_', r'^gates::.*_ex::'],
}
# ... and these thorough harnesses are cheap enough for the quick tier (longer checkpoint timelines: 8 entries)
QUICK_PROMOTE = {'C13': [r'lookup_votes_8$', r'lookup_total_8$'],
                 # rule selection with policies and the 2-context batch: ~7 min each, but they are what decides
                 # "signers not named by the rule never count" and "once per context" (two seeded changes were missed without them)
                 'C03': [r'select_own_default$', r'select_own_own_2pol$', r'check_auth_glue_2ctx$']}
for _pid, _pats in QUICK_PROMOTE.items():
    if _pid in CHECKS:
        CHECKS[_pid]['kani'] = [dict(_s, tier='quick') if any(_re.search(_p, _s['harness']) for _p in _pats) else _s
                                for _s in CHECKS[_pid].get('kani', [])]
for _pid, _pats in QUICK_DEMOTE.items():
    if _pid in CHECKS:
        _new = []
        for _s in CHECKS[_pid].get('kani', []):
            _s = dict(_s)
            if _s.get('tier', 'quick') == 'quick' and any(_re.search(_p, _s['harness']) for _p in _pats):
                _s['tier'] = 'thorough'
            _new.append(_s)
        CHECKS[_pid]['kani'] = _new
