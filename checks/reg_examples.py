"""Example contracts named by the anchors of C05 / C14 / C17 / C18 that no other family mounts -- harness family kani/src/examples.rs
(one submodule per example; every exported entry point is called through the deployed contract type). The harnesses are ADDED to the
existing properties (fragments are merged); each submodule runs in the profile of its library family (profiles `vault`, `policies`,
`merkle`, `webauthn` are defined in reg_feevault.py / reg_policies.py / reg_merkle.py)."""
from registry import K

X = 'examples::'

# ---------------------------------------------------------------- C05 (+ C01 / C02 names): examples/fungible-vault
V = 'vault::Vault::'
VEX = 'examples/fungible-vault ExampleContract::'
VAULT_B = ('one call THROUGH THE EXAMPLE CONTRACT from an ARBITRARY stored state: 4 tracked share holders (+ symbolic rest-of-world ghost, sum == supply), '
           '5 addresses for operator / payer / receiver / vault / asset (all aliasings), amounts, balances, supply and total assets full i128, AssetAddress '
           'absent/any, decimals offset absent or 0..=10, share allowance absent/live/expired with any amount, asset stub with arbitrary non-negative balances '
           'and allowances and arbitrary expirations; mul_div_i128 = uninterpreted deterministic function; NS=12, unwind 18')
VAULT_FNS = [V + 'total_assets', V + 'query_asset', V + 'get_decimals_offset', V + 'convert_to_shares_with_rounding', V + 'convert_to_assets_with_rounding',
             'fungible::Base::update', 'fungible::Base::balance', 'fungible::Base::total_supply', 'vault::FungibleVault (default methods)']


def vx(name, fns, bounds=VAULT_B, **kw):
    return K(X + 'vault_ex::' + name, 'vault', functions=VAULT_FNS + fns, bounds=bounds, **kw)


VAULT_OPS = [
    vx('deposit', [VEX + 'deposit', VEX + 'preview_deposit', VEX + 'max_deposit', V + 'deposit', V + 'preview_deposit', V + 'deposit_internal', 'vault::emit_deposit']),
    vx('mint', [VEX + 'mint', VEX + 'preview_mint', VEX + 'max_mint', V + 'mint', V + 'preview_mint', V + 'deposit_internal', 'vault::emit_deposit']),
    vx('withdraw', [VEX + 'withdraw', VEX + 'preview_withdraw', VEX + 'max_withdraw', V + 'withdraw', V + 'preview_withdraw', V + 'withdraw_internal',
                    'fungible::Base::spend_allowance', 'vault::emit_withdraw']),
    vx('redeem', [VEX + 'redeem', VEX + 'preview_redeem', VEX + 'max_redeem', V + 'redeem', V + 'preview_redeem', V + 'withdraw_internal',
                  'fungible::Base::spend_allowance', 'vault::emit_withdraw']),
]
VAULT_TOKEN = [
    vx('token_transfer', [VEX + 'transfer', 'fungible::Base::transfer'], VAULT_B + '; share transfer between 4 tracked holders'),
    vx('token_transfer_from', [VEX + 'transfer_from', 'fungible::Base::transfer_from', 'fungible::Base::spend_allowance'], VAULT_B + '; share transfer between 4 tracked holders'),
    vx('token_approve', [VEX + 'approve', VEX + 'allowance', 'fungible::Base::approve', 'fungible::Base::allowance'], VAULT_B + '; read at an arbitrary later ledger'),
]
VAULT_VIEWS = [
    vx('views', [VEX + f for f in ('max_redeem', 'max_withdraw', 'max_deposit', 'max_mint', 'preview_deposit', 'preview_mint', 'preview_withdraw', 'preview_redeem',
                                   'convert_to_shares', 'convert_to_assets', 'total_assets', 'query_asset')],
       VAULT_B + '; one of the 12 read-only entry points, compared with the library Vault::* answer in the same state'),
    vx('token_views', [VEX + 'balance', VEX + 'total_supply', VEX + 'allowance', VEX + 'name', VEX + 'symbol', VEX + 'decimals', V + 'decimals', V + 'get_underlying_asset_decimals'],
       VAULT_B + '; asset decimals full u32; Meta entry absent / present with any decimals'),
    vx('constructor', [VEX + '__constructor', V + 'set_asset', V + 'set_decimals_offset', V + 'decimals', 'fungible::Base::set_metadata'],
       VAULT_B + '; Meta entry absent/present, constructor offset full u32, asset any of 5 addresses; then a second construction with any arguments'),
]

# ---------------------------------------------------------------- C14: threshold-policy / spending-limit-policy examples
ST = 'policies::simple_threshold::'
SL = 'policies::spending_limit::'
TEX = 'examples/multisig-smart-account/threshold-policy ThresholdPolicyContract::'
SEX = 'examples/multisig-smart-account/spending-limit-policy SpendingLimitPolicyContract::'
POL_B = ('one call THROUGH THE EXAMPLE CONTRACT; smart account any of 4 addresses, rule id full u32, ContextRule arbitrary (<= 4 signers, <= 4 policies), ledger/TTL full '
         'u32, policy entry of the (account, rule) pair absent or present with ANY stored value + the entry of one other pair (frame); authenticated-signer '
         'list of 0..4 signers, duplicates allowed; Context fully arbitrary; NS=12 slots, unwind 14')
SL_B = (POL_B + '; stored SpendingLimitData with 0..3 history entries satisfying the representation invariant I of policies.rs, limit/amounts full i128, '
        'period full u32, sequence >= 1; transfer amount any non-negative i128')


def px(mod, name, fns, bounds, **kw):
    return K(X + mod + '::' + name, profile='policies', functions=fns, bounds=bounds, **kw)


THRESHOLD = [
    px('threshold_ex', 'can_enforce', [TEX + 'can_enforce', ST + 'can_enforce'], POL_B + '; threshold full u32'),
    px('threshold_ex', 'enforce', [TEX + 'enforce', TEX + 'can_enforce', ST + 'enforce', ST + 'can_enforce'], POL_B + '; threshold full u32'),
    px('threshold_ex', 'enforce_accepts', [TEX + 'can_enforce', TEX + 'enforce', ST + 'enforce'], POL_B + '; can_enforce answered true and the account authorized', must_succeed=True),
    px('threshold_ex', 'install', [TEX + 'install', TEX + 'get_threshold', ST + 'install', ST + 'validate_and_set_threshold'], POL_B + '; threshold full u32'),
    px('threshold_ex', 'set_threshold', [TEX + 'set_threshold', TEX + 'get_threshold', TEX + 'can_enforce', ST + 'set_threshold', ST + 'validate_and_set_threshold'],
       POL_B + '; threshold full u32; then get_threshold and a can_enforce of a later invocation'),
    px('threshold_ex', 'uninstall', [TEX + 'uninstall', TEX + 'can_enforce', ST + 'uninstall'], POL_B),
    px('threshold_ex', 'get_threshold', [TEX + 'get_threshold', ST + 'get_threshold'], POL_B),
]
SPENDING = [
    px('spending_ex', 'can_enforce', [SEX + 'can_enforce', SL + 'can_enforce'], SL_B + ' (here: any i128 amount)'),
    px('spending_ex', 'enforce', [SEX + 'enforce', SL + 'enforce', SL + 'cleanup_old_entries', SL + 'get_spending_limit_data'], SL_B),
    px('spending_ex', 'agreement', [SEX + 'can_enforce', SEX + 'enforce', SL + 'can_enforce', SL + 'enforce'], SL_B + ' (here: any i128 amount)'),
    px('spending_ex', 'enforce_accepts', [SEX + 'can_enforce', SEX + 'enforce', SL + 'can_enforce', SL + 'enforce'],
       SL_B + '; sequence <= u32::MAX - 30 days, window total + amount representable in i128; can_enforce must return, and if it answered true with the '
              'account authorized enforce must return', must_succeed=True),
    px('spending_ex', 'install', [SEX + 'install', SL + 'install'], SL_B),
    px('spending_ex', 'set_spending_limit', [SEX + 'set_spending_limit', SL + 'set_spending_limit'], SL_B),
    px('spending_ex', 'uninstall', [SEX + 'uninstall', SEX + 'can_enforce', SL + 'uninstall'], SL_B),
    px('spending_ex', 'get_spending_limit_data', [SEX + 'get_spending_limit_data', SL + 'get_spending_limit_data'], SL_B),
]

# ---------------------------------------------------------------- C17: examples/fungible-merkle-airdrop
AEX = 'examples/fungible-merkle-airdrop AirdropContract::'
MD = 'merkle_distributor::MerkleDistributor::'
AIR_FNS = [MD + 'verify_and_set_claimed', MD + 'get_verification_args', MD + 'get_root', MD + 'is_claimed', MD + 'set_claimed', 'merkle_distributor::emit_set_claimed',
           'crypto::merkle::Verifier::verify', 'crypto::hashable::commutative_hash_pair', 'crypto::sha256::Sha256']
AIR_B = ('one call THROUGH THE EXAMPLE CONTRACT from an ARBITRARY stored state: index full u32, receiver any of 5 addresses (the contract itself included), amount full '
         'i128, proof of 0..3 arbitrary 32-byte elements; Root present/absent with any value, Claimed(index) absent / false / true with any TTL, Claimed(other index) '
         'likewise (frame), DataKey::TokenAddress absent / any of 5 addresses; token = stateful SEP-41 stub with arbitrary non-negative balances; SHA-256 = injective '
         'oracle; reference leaf hash = raw host hash of the serialisation of (index, receiver, amount), reference fold = merkle::ref_fold (sorted pairs); NS=12, unwind 14')


def ax(name, fns, bounds=AIR_B, **kw):
    return K(X + 'airdrop_ex::' + name, profile='merkle', functions=fns, bounds=bounds, **kw)


AIRDROP = [
    ax('claim', [AEX + 'claim'] + AIR_FNS),
    ax('claim_twice', [AEX + 'claim', AEX + 'is_claimed'] + AIR_FNS,
       'history: claim (any arguments, proof of 0..1 elements) -> later ledger, new authorization set -> claim for the same index with any receiver, amount and proof of '
       '0..1 elements; arbitrary stored pre-state as in airdrop_ex::claim'),
    ax('claim_accepts', [AEX + 'claim'] + AIR_FNS,
       'stored root = root of a sorted-pair 4-leaf tree holding H(serialisation of (index, receiver, amount)) at any of the 4 positions (other leaves arbitrary), '
       'Claimed(index) absent or false, token configured, contract balance >= amount >= 0, receiver balance + amount representable, honest 2-element proof; '
       'ledger <= u32::MAX / 2 when the flag entry exists', must_succeed=True),
    ax('is_claimed', [AEX + 'is_claimed', MD + 'is_claimed']),
    ax('constructor', [AEX + '__constructor', MD + 'set_root', 'merkle_distributor::emit_set_root'],
       AIR_B + '; root arbitrary 32 bytes, token / funding source any of 5 addresses, funding amount full i128'),
]

# ---------------------------------------------------------------- C18: ed25519-verifier / webauthn-verifier examples
EEX = 'examples/multisig-smart-account/ed25519-verifier Ed25519VerifierContract::verify'
WEX = 'examples/multisig-smart-account/webauthn-verifier WebauthnVerifierContract::verify'
WA = 'verifiers::webauthn::'
FS = '--max-field-sensitivity-array-size 1100'
ED_B = 'payload: arbitrary Bytes of length 0..=16, arbitrary 32-byte key and 64-byte signature, oracle answer arbitrary; unwind 20'
WDOC_B = ('client-data JSON = CONCRETE text (%s) inside an ARBITRARY WebAuthnSigData (64-byte signature, 37 bytes of authenticator data); sig_data = 8 FIXED bytes '
          'pinned to decode to that value (every other byte string does not decode; the contract reads sig_data only through from_xdr); key_data = n arbitrary bytes, n symbolic 0..=80 (65-byte key + 0..15 bytes of '
          'credential id); signature payload 32 arbitrary bytes; oracle answer arbitrary; core::str::from_utf8 stubbed by the over-approximation of verifiers.rs; unwind 200')


def wx(name, text, **kw):
    return K(X + 'webauthn_ex::' + name, profile='webauthn', cbmc_args=FS, bounds=WDOC_B % text,
             functions=[WEX, WA + 'verify', WA + 'validate_expected_type', WA + 'validate_challenge', 'verifiers::utils::extract_from_bytes',
                        'WebAuthnSigData::from_xdr (model: harness-pinned decoding)'], **kw)


VERIFIERS = [
    K(X + 'ed25519_ex::verify', functions=[EEX, 'verifiers::ed25519::verify'], bounds=ED_B),
    K(X + 'ed25519_ex::rejects', functions=[EEX, 'verifiers::ed25519::verify'], bounds=ED_B + '; oracle pinned to "invalid"'),
    K(X + 'ed25519_ex::accepts', functions=[EEX, 'verifiers::ed25519::verify'], bounds=ED_B + '; oracle pinned to "valid"', must_succeed=True),
    wx('verify_doc', '{"type":"webauthn.get","challenge":"<43>"}'),
    wx('verify_doc_accepts', '{"challenge":"<43>","type":"webauthn.get"}; genuine, n >= 65, oracle pinned to "valid"', must_succeed=True),
    wx('verify_short_key', '{"type":"webauthn.get","challenge":"<43>"}; n < 65'),
    wx('verify_undecodable_same_length', '{"type":"webauthn.get","challenge":"<43>"}; sig_data = 8 bytes other than the pinned ones'),
    wx('verify_undecodable_other_length', '{"type":"webauthn.get","challenge":"<43>"}; sig_data = 7 bytes'),
    wx('verify_oracle_rejects', '{"type":"webauthn.get","challenge":"<43>"}; oracle pinned to "invalid"'),
    wx('verify_wrong_type', '"type":"webauthn.create"'),
    wx('verify_other_challenge', 'challenge differing in its last character'),
]

EXAMPLE_LEVEL = ('EXAMPLE LEVEL (kani/src/examples.rs): the deployed example contracts are compiled unmodified with the pass-through #[contract] / #[contractimpl] of '
                 'the host model and called through their exported Rust entry points; the Val <-> typed-argument conversion of the real #[contractimpl] export '
                 'shims is the SDK\'s (trusted base)')

CHECKS = {
    'C05': {
        'kani': VAULT_OPS + VAULT_TOKEN + VAULT_VIEWS,
        'bounds': 'examples/fungible-vault: ' + VAULT_B,
        'stubs_and_assumes': [EXAMPLE_LEVEL],
    },
    # the base-token clause names of the deployed vault's share token (C01.vault_example.* / C02.vault_example.*, C01.vault.example_* / C02.vault.example_*)
    'C01': {'kani': VAULT_OPS + VAULT_TOKEN + VAULT_VIEWS[1:2]},
    'C02': {'kani': VAULT_OPS + VAULT_TOKEN + VAULT_VIEWS[1:2]},
    'C14': {
        'kani': THRESHOLD + SPENDING,
        'bounds': 'examples threshold-policy / spending-limit-policy: ' + SL_B,
        'stubs_and_assumes': [EXAMPLE_LEVEL],
    },
    'C17': {
        'kani': AIRDROP,
        'bounds': 'examples/fungible-merkle-airdrop: ' + AIR_B,
        'outside_claim': ('examples/fungible-merkle-airdrop IS linked since kani/src/examples.rs (airdrop_ex): claim returns normally => index unclaimed, proof folds (sorted pairs) '
                          'to the stored root from H(serialisation of exactly (index, receiver, amount)), index marked, exactly `amount` moved from the contract to '
                          'exactly `receiver` by one token transfer; no second claim of an index; honest claims accepted. Outside: proofs longer than 3 elements '
                          '(the fold is the library verifier\'s, see merkle::*::verify_is_fold), a token that deviates from SEP-41, byte-exact XDR of the leaf '
                          '(the model serialises the three fields injectively in the example\'s declaration order)'),
        'stubs_and_assumes': [EXAMPLE_LEVEL,
                              'airdrop_ex: the example\'s private types DataKey / Receiver are mirrored in the harness (same variant / field layout); a renamed storage key would '
                              'be written outside the declared universe and reported as inconclusive',
                              'airdrop_ex: token = stateful SEP-41 stub (moves exactly `amount` or traps; negative amounts trap; the calling contract needs no authorization '
                              'to send its own balance)'],
    },
    'C18': {
        'kani': VERIFIERS,
        'bounds': ('example verifiers: ed25519: ' + ED_B + '; webauthn: 4 concrete client-data documents x arbitrary payload / authenticator data / signature / '
                   'key_data of 0..=80 bytes / sig_data bytes'),
        'outside_claim': ('webauthn example: credential ids longer than 15 bytes (everything after byte 65 of key_data is ignored by the code: shown for 0..15 bytes); real XDR '
                          'decoding of sig_data (modelled as a harness-pinned partial injective decoding: the pinned bytes decode to an arbitrary WebAuthnSigData, all other '
                          'bytes do not decode; the pinned bytes are concrete, see examples.rs mk_input)'),
        'stubs_and_assumes': [EXAMPLE_LEVEL,
                              'webauthn_ex: WebAuthnSigData::from_xdr is the model\'s xdr::preset_from_xdr pairing (bytes, value), both arbitrary; a struct with two Bytes members '
                              'cannot be serialised into one model Bytes'],
    },
}
