"""C19 (fee forwarding) -- harness family kani/src/fee.rs; C05, E1 half (vault asset/share movement) -- kani/src/vault.rs.
The vault harnesses also assert the base-token clauses of the vault flavour under C01.vault.* / C02.vault.* names."""
from registry import K

PROFILES = {
    # target_args <= 2 Vals; the signed 6-tuple and the nested Vec<Val> are digests of the injective oracle (valdigest, 32-word inputs);
    # the ForwardExecuted event needs 14 words
    'fee': {'features': ['cap2', 'valdigest', 'hw32', 'ew32']},
    # src/vault.rs is compiled only with this feature: its harnesses carry #[kani::stub], which needs `-Z stubbing`
    'vault': {'features': ['vaultstub'], 'stubbing': True},
}

FA = 'fee_abstraction::'
FWD_FNS = [FA + 'collect_fee_and_invoke', FA + 'collect_fee', FA + 'validate_fee_bounds', FA + 'validate_expiration_ledger',
           FA + 'is_allowed_fee_token', FA + 'is_fee_token_allowlist_enabled', FA + 'emit_fee_collected', FA + 'emit_forward_executed']
FWD_B = ('one call from an ARBITRARY state: 5 addresses (user, recipient, fee token, target, forwarder, bystander drawn among them, all aliasings), '
         'fee / max fee full i128, expiration / ledger full u32, target fn any symbol, target args 0..2 arbitrary Vals, fee-token stub with arbitrary '
         'non-negative balances and allowances and arbitrary allowance expirations, allow-list Count absent/any u32 with the fee token a member at any '
         'index or not, the user\'s require_auth_for_args grant ARBITRARY words; unwind 34')
LIST_FNS = [FA + 'set_allowed_fee_token', FA + 'is_allowed_fee_token', FA + 'is_fee_token_allowlist_enabled', FA + 'emit_fee_token_allowlist_updated']
LIST_B = ('one call from an ARBITRARY registry over a universe of 3 tokens satisfying the representation invariant (count 0..3, symbolic enumeration '
          'order = symbolic removed position, Count absent or present when 0), storage TTLs arbitrary; unwind 34')
PED = 'examples/fee-forwarder-permissioned FeeForwarder::'

FEE = [
    K('fee::forward_eager', 'fee', functions=FWD_FNS, bounds=FWD_B),
    K('fee::forward_lazy_topup', 'fee', functions=FWD_FNS, bounds=FWD_B + '; existing allowance < max fee'),
    K('fee::forward_lazy_kept', 'fee', functions=FWD_FNS, bounds=FWD_B + '; existing allowance >= max fee'),
    K('fee::forward_other_tuple_refused', 'fee', functions=FWD_FNS, bounds=FWD_B + '; the user signed a tuple differing from the call in exactly one symbolically chosen field; either strategy'),
    K('fee::forward_failing_target', 'fee', functions=FWD_FNS, bounds=FWD_B + '; the target call is pinned to fail'),
    K('fee::collect_fee_step', 'fee', functions=FWD_FNS[1:7], bounds=FWD_B + '; either strategy'),
    K('fee::validators', 'fee', functions=[FA + 'validate_fee_bounds', FA + 'validate_expiration_ledger'], bounds='full i128 / u32'),
    K('fee::validators_accept', 'fee', must_succeed=True, functions=[FA + 'validate_fee_bounds', FA + 'validate_expiration_ledger'], bounds='full i128 / u32, in-range inputs'),
    K('fee::sweep', 'fee', functions=[FA + 'sweep_token', FA + 'emit_tokens_swept'], bounds='5 addresses, arbitrary non-negative token balances'),
    K('fee::allow_step', 'fee', functions=LIST_FNS, bounds=LIST_B),
    K('fee::disallow_step', 'fee', functions=LIST_FNS, bounds=LIST_B),
    K('fee::is_allowed_query', 'fee', functions=LIST_FNS[1:3], bounds=LIST_B + '; queried token among 5 addresses (2 outside the enumerable universe)'),
    K('fee::allowlist_from_empty', 'fee', functions=LIST_FNS, bounds='history allow a, allow b, disallow a, disallow b from the EMPTY storage, a != b among 3 tokens'),
    K('fee::permissionless_forward', 'fee', functions=FWD_FNS + ['examples/fee-forwarder-permissionless FeeForwarder::forward'], bounds=FWD_B + '; recipient = relayer'),
    K('fee::permissioned_forward', 'fee', functions=FWD_FNS + [PED + 'forward', 'stellar_macros::only_role', 'access_control::ensure_role'],
      bounds=FWD_B + '; recipient = forwarder; HasRole(relayer, executor) absent/present'),
    K('fee::permissioned_manager_gates', 'fee', functions=LIST_FNS + [FA + 'sweep_token', PED + 'enable_fee_token', PED + 'disable_fee_token', PED + 'sweep_tokens',
                                                                       'stellar_macros::only_role', 'access_control::ensure_role'],
      bounds=LIST_B + '; HasRole(operator, manager) and HasRole(operator, executor) absent/present'),
]

V = 'vault::Vault::'
VAULT_B = ('one call from an ARBITRARY stored state: 4 tracked share holders (+ symbolic rest-of-world ghost, sum == supply), 5 addresses for operator / payer / '
           'receiver / vault / asset (all aliasings), amounts, balances, supply and total assets full i128, AssetAddress absent/any, decimals offset absent or 0..=10, '
           'share allowance (owner, operator) absent/live/expired with any amount, asset stub with arbitrary non-negative balances and allowances and arbitrary '
           'expirations; mul_div_i128 = uninterpreted deterministic function (its value is decided by the smt obligations); NS=12, unwind 18')
VAULT_FNS = [V + 'total_assets', V + 'query_asset', V + 'get_decimals_offset', V + 'convert_to_shares_with_rounding', V + 'convert_to_assets_with_rounding',
             'fungible::Base::update', 'fungible::Base::balance', 'fungible::Base::total_supply']
VAULT = [
    K('vault::deposit', 'vault', functions=VAULT_FNS + [V + 'deposit', V + 'preview_deposit', V + 'max_deposit', V + 'deposit_internal', 'vault::emit_deposit'], bounds=VAULT_B),
    K('vault::mint', 'vault', functions=VAULT_FNS + [V + 'mint', V + 'preview_mint', V + 'max_mint', V + 'deposit_internal', 'vault::emit_deposit'], bounds=VAULT_B),
    K('vault::withdraw', 'vault', functions=VAULT_FNS + [V + 'withdraw', V + 'preview_withdraw', V + 'max_withdraw', V + 'withdraw_internal', 'fungible::Base::spend_allowance', 'vault::emit_withdraw'], bounds=VAULT_B),
    K('vault::redeem', 'vault', functions=VAULT_FNS + [V + 'redeem', V + 'preview_redeem', V + 'max_redeem', V + 'withdraw_internal', 'fungible::Base::spend_allowance', 'vault::emit_withdraw'], bounds=VAULT_B),
    K('vault::withdraw_respects_max', 'vault', functions=VAULT_FNS + [V + 'withdraw', V + 'max_withdraw', V + 'preview_redeem'], bounds=VAULT_B),
    K('vault::views', 'vault', functions=VAULT_FNS + [V + 'max_redeem', V + 'max_withdraw', V + 'preview_deposit', V + 'preview_mint', V + 'preview_withdraw', V + 'preview_redeem'], bounds=VAULT_B),
]
UF = ('stellar_contract_utils::math::mul_div_i128 replaced (#[kani::stub]) by an uninterpreted deterministic function of (x, y, denominator, rounding): '
      'arbitrary i128 result or failure per new argument tuple, zero denominator fails; its arithmetic is decided by the c05-arith smt obligations')

CHECKS = {
    'C19': {
        'kani': FEE,
        'bounds': FWD_B + ' | ' + LIST_B,
        'outside_claim': 'atomicity on failure is the host\'s rollback of a failed invocation (trusted); target argument lists longer than 2 values; more than 3 '
                         'allow-listed tokens; archived allow-list entries; fee tokens that deviate from SEP-41',
        'stubs_and_assumes': ['fee token = stateful SEP-41 stub (moves exactly `amount` or traps; negative amounts trap; approve needs the owner\'s authorization and refuses a '
                              'positive allowance whose expiration ledger is in the past; an expired allowance is worth 0; transfer_from spends the allowance and keeps its expiration)',
                              'the 6-tuple given to require_auth_for_args and the nested Vec<Val> are digests of an injective oracle (equal digests <-> equal tuples)',
                              'the target contract answers an arbitrary Val or fails'],
    },
    'C05': {
        'kani': VAULT,
        'bounds': 'E1: ' + VAULT_B,
        'stubs_and_assumes': [UF, 'underlying asset = stateful SEP-41 stub (moves exactly `amount` or traps; negative amounts trap; transfer needs the sender\'s authorization '
                                  'unless the sender is the calling contract; transfer_from needs the spender\'s and a live sufficient allowance)'],
    },
    # the vault flavour of the base-token clauses (names C01.vault.* / C02.vault.*)
    'C01': {'kani': VAULT[:4]},
    'C02': {'kani': VAULT[:4]},
}
