"""C20: documented capacity limits decided AT the limit, in both directions -- kani/src/limits.rs.

The step harnesses of the registries (reg_registries.py, reg_smartaccount.py) run with vectors of 3-4 elements: a comparison
against a documented maximum of 5 / 10 / 15 is on their paths but never true. Here every list that has a documented maximum
<= 20 is declared with MAX-1 / MAX elements in a profile whose vectors hold MAX+1 elements:
  *_at_limit     the list holds MAX elements (or the argument MAX+1): the addition NEVER returns normally
                 (clause C20.<registry>.<fn>.<limit>_limit_exact.not_exceeded);
  *_below_limit  the list holds MAX-1 elements (or the argument exactly MAX) and every other precondition holds: the addition
                 returns normally (traphook: the limit error is reported as ...limit_exact.reachable, any other trap as
                 ...accepted_below_the_limit; registered must-succeed, so Rust panics count) and the stored list holds at most
                 MAX elements (...limit_exact.not_exceeded_in_storage)."""
from registry import K

PROFILES = {
    # claim topics and issuers / IRS metadata: Vec<u32>, Vec<Address> of capacity 21 = 22 words; 18 declared slots (15 topics with
    # their issuer lists); TrustedIssuerAdded event = 23 words; vecclone = element-wise Vec::clone (new additive model feature: the
    # derived clone goes through core's MaybeUninit buffer and stops CBMC's constant propagation through vector elements)
    'lim_cti': {'features': ['cap21', 'vw24', 'ns24', 'ew32', 'traphook', 'vecclone']},
    # MAX_POLICIES = 5: vectors of 8; Vec<Signer> = 41 words (VW 48, XW 48: new additive model feature xw48 = word capacity of one
    # value behind a to_xdr handle), ContextRule = 61 (event <= EW 64, install(param, rule, account) = 67 <= AW 96)
    'lim_sa8': {'features': ['cap8', 'vw48', 'xdrdigest', 'xw48', 'aw96', 'ew64', 'traphook', 'vecclone']},
    # MAX_SIGNERS = 15: vectors of 21; Vec<Signer> = 106 words (VW 128, XW 128: new feature xw128), ContextRuleAdded = 139 words
    # (new additive model feature ew160)
    'lim_sa21': {'features': ['cap21', 'vw128', 'xdrdigest', 'xw128', 'ew160', 'traphook', 'vecclone']},
}
# CBMC keeps arrays up to 160 elements field-sensitive (default 64): the 128-word values and 160-word events stay constants
# where the harness made them constants (otherwise every vector length read back from storage is symbolic: 10x the cost or out of memory)
CB160 = '--max-field-sensitivity-array-size 160'

SA = 'smart_account::'
FP = [SA + f for f in ('get_context_rule', 'validate_signers_and_policies', 'compute_fingerprint', 'validate_and_set_fingerprint', 'remove_fingerprint')]
SA_COMMON = ('one call on ONE stored rule (rule id 7 and NextId 7 FIXED: ids are opaque storage-key components, the step harnesses quantify '
             'over them; with a symbolic id no storage look-up is decided during symbolic execution), Meta{any of the three types, any 1-byte '
             'name, any expiry}; ledger/TTLs full u32; account any of 5 addresses; storage functions called directly (authorization is the '
             'wrapper\'s business, context_rules.rs)')
SIG_LIST = ('signers = delegated signers with the FIXED address ids 1000, 1001, ... except the LAST stored one, which is any other u32 (the '
            'library insertion-sorts the list twice per call; with 15 symbolic elements every insertion position is symbolic and the two sorts '
            'exhaust 20 GB, see outside_claim)')
AT = '; two ARBITRARY fingerprint entries present or absent (whichever fingerprints the call computes may or may not be on record)'
BELOW = '; no fingerprint on record (no equal rule exists), ledger sequence <= u32::MAX - 30 days, policy installs pinned to return'


def S8(h, fns, bounds, **kw):
    return K('limits::ctxrules::' + h, profile='lim_sa8', functions=[SA + f for f in fns] + FP, bounds=bounds + '; vector capacity 8, unwind 98', **kw)


def S21(h, fns, bounds, **kw):
    # mem_gb 20: a passing *_at_limit harness needs 1.5 GB (the call traps before the fingerprint code); if the limit is
    # NOT enforced the call runs on through two insertion sorts of 16 signers: 7-13 GB until the counterexample is found
    return K('limits::ctxrules::' + h, profile='lim_sa21', functions=[SA + f for f in fns] + FP, bounds=bounds + '; vector capacity 21, unwind 130/170',
             cbmc_args=CB160, mem_gb=20, **kw)


CTXRULES = [
    S8('add_policy_policies_at_limit', ['add_policy'],
       SA_COMMON + '; the rule holds MAX_POLICIES = 5 ARBITRARY pairwise different policies (address ids full u32) and 0, 1 or 2 arbitrary '
       'different delegated signers; any new policy address, any install parameter, any answer of the policy contract' + AT),
    S8('add_policy_policies_below_limit', ['add_policy'],
       SA_COMMON + '; the rule holds 4 ARBITRARY pairwise different policies and 1 arbitrary delegated signer; any new policy not in the rule' + BELOW,
       must_succeed=True),
    S8('add_context_rule_policies_at_limit', ['add_context_rule'],
       'one call from any registry state (NextId 7, Count arbitrary, Ids(Default) of 0..2 older ids, anything stored under id 7): new Default rule '
       'with 0 or 1 arbitrary delegated signers and a policy map of MAX_POLICIES + 1 = 6 arbitrary increasing addresses with arbitrary parameters; '
       'any name, any expiry' + AT),
    S8('add_context_rule_policies_below_limit', ['add_context_rule'],
       'as at_limit, with exactly MAX_POLICIES = 5 policies and 1 signer; Count < 15, expiry absent or not in the past' + BELOW, must_succeed=True),
    S21('add_signer_signers_at_limit', ['add_signer'],
        SA_COMMON + '; the rule holds MAX_SIGNERS = 15 signers and no policy; ' + SIG_LIST + '; the new signer is ARBITRARY: '
        'delegated (any address id) or external (any verifier id, one arbitrary key byte)' + AT),
    S21('add_signer_signers_below_limit', ['add_signer'],
        SA_COMMON + '; the rule holds 14 signers and 1 arbitrary policy; ' + SIG_LIST + '; the new signer is ARBITRARY (delegated or external with a '
        '1-byte key), not in the rule' + BELOW, must_succeed=True, tier='thorough'),
    S21('add_context_rule_signers_at_limit', ['add_context_rule'],
        'one call from any registry state (as add_context_rule_policies_at_limit): new Default rule with MAX_SIGNERS + 1 = 16 signers and no policy; '
        + SIG_LIST + AT),
    S21('add_context_rule_signers_below_limit', ['add_context_rule'],
        'as at_limit, with exactly MAX_SIGNERS = 15 signers; Count < 15, expiry absent or not in the past' + BELOW, must_succeed=True),
]

CT = 'rwa::claim_topics_and_issuers::storage::'
CT_ISS = ('universe of n registered topics with the FIXED values 100, 101, ... (topic values are only compared and used in storage keys; with symbolic '
          'topics none of the n ClaimTopicIssuers look-ups is decided during symbolic execution), each with its ClaimTopicIssuers entry (one ARBITRARY '
          'other issuer for every second topic, nobody for the others); TrustedIssuers = one arbitrary other issuer; the issuer of the call = address 3; '
          'the list passed = all n topics; ledger/TTLs full u32; 18-19 declared slots (NS 24), vector capacity 21, unwind 26')
CTI = [
    K('limits::cti::add_claim_topic_topics_at_limit', 'lim_cti', functions=[CT + 'add_claim_topic', CT + 'get_claim_topics'],
      bounds='ClaimTopics = n ARBITRARY pairwise different topics (full u32), n symbolic in 13..15 (MAX_CLAIM_TOPICS = 15); any new topic; whatever is '
             'stored under ClaimTopicIssuers(topic); vector capacity 21, unwind 26'),
    K('limits::cti::add_claim_topic_topics_below_limit', 'lim_cti', must_succeed=True, functions=[CT + 'add_claim_topic', CT + 'get_claim_topics'],
      bounds='ClaimTopics = 14 ARBITRARY pairwise different topics; any topic not in the list; ledger sequence < 2^32 - 30 days'),
    K('limits::cti::add_trusted_issuer_topics_at_limit', 'lim_cti', functions=[CT + 'add_trusted_issuer'], bounds='n = MAX_CLAIM_TOPICS + 1 = 16 (even if that many topics were registered); the issuer is new; ' + CT_ISS),
    K('limits::cti::add_trusted_issuer_topics_below_limit', 'lim_cti', must_succeed=True,
      functions=[CT + 'add_trusted_issuer', CT + 'validate_no_duplicate_topics', CT + 'validate_topics_exist', CT + 'get_claim_topic_issuers'],
      bounds='n = MAX_CLAIM_TOPICS = 15; the issuer is new; ledger sequence < 2^32 - 30 days; ' + CT_ISS),
    K('limits::cti::update_issuer_topics_at_limit', 'lim_cti', functions=[CT + 'update_issuer_claim_topics'], bounds='n = 16; the issuer is trusted and holds topic 100; ' + CT_ISS),
    K('limits::cti::update_issuer_topics_below_limit', 'lim_cti', must_succeed=True,
      functions=[CT + 'update_issuer_claim_topics', CT + 'validate_no_duplicate_topics', CT + 'validate_topics_exist', CT + 'get_claim_topic_issuers',
                 CT + 'get_trusted_issuer_claim_topics', CT + 'is_trusted_issuer'],
      bounds='n = 15; the issuer is trusted and holds topic 100; ledger sequence < 2^32 - 30 days; ' + CT_ISS),
]

IR = 'rwa::identity_registry_storage::'
IRS = [
    K('limits::irs::validate_country_data_metadata_at_limit', 'lim_cti', functions=[IR + 'validate_country_data'],
      bounds='one country entry (any individual relation) whose metadata map holds MAX_METADATA_ENTRIES + 1 = 11 ARBITRARY pairwise different keys with '
             'arbitrary values of 0..16 bytes; map capacity 21, unwind 26'),
    K('limits::irs::validate_country_data_metadata_below_limit', 'lim_cti', must_succeed=True, functions=[IR + 'validate_country_data'],
      bounds='as at_limit with exactly MAX_METADATA_ENTRIES = 10 entries'),
]

CHECKS = {
    'C20': {
        'kani': CTXRULES + CTI + IRS,
        'bounds': ('limits AT the limit (kani/src/limits.rs): MAX_POLICIES = 5 and MAX_SIGNERS = 15 in add_policy / add_signer / add_context_rule, '
                   'MAX_CLAIM_TOPICS = 15 in add_claim_topic / add_trusted_issuer / update_issuer_claim_topics, MAX_METADATA_ENTRIES = 10 in '
                   'validate_country_data: the list holds MAX (never one more) and MAX-1 (one more is accepted) elements; ' + SA_COMMON + '; ' + SIG_LIST),
        'outside_claim': ('limits: MAX_COUNTRY_ENTRIES = 15 is NOT decided at the limit (an IdentityProfile whose vectors hold 16 elements is 1 + 16 * 71 = '
                          '1137 words: every CountryData carries an optional metadata map of the same capacity; the largest model value is 128 words); '
                          'MAX_METADATA_ENTRIES = 10 is decided on validate_country_data itself (the only place it is enforced; its three callers run it on '
                          'every entry they store: step harnesses registries::irs), not through a stored profile; signer lists at the limit have fixed '
                          'contents except the last stored and the new signer (15 ARBITRARY signers: add_signer exhausts 20 GB / 25 min in symbolic execution '
                          'at 14 stored signers; measured 0.5 M steps and 1.2 GB per stored signer); external signers at the limit carry 1-byte keys; '
                          'rule ids / NextId fixed to 7; per-issuer topic lists at the limit use fixed topic values; limits above 20 (MAX_KEYS_PER_TOPIC = 50, '
                          'MAX_ISSUERS = 50, MAX_TOKENS, MAX_DOCUMENTS, MAX_HISTORY_ENTRIES = 1000) as before'),
        'stubs_and_assumes': [
            'limits: *_below_limit harnesses assume every OTHER precondition of the addition (element not yet listed, no equal rule on record, TTL '
            'extension representable, foreign policy installs return); *_at_limit harnesses assume nothing but the representation invariant of the one list',
            'limits: smart-account storage functions are called directly (no authorization layer); to_xdr is the injective handle oracle (xdrdigest)',
        ],
    },
}
