"""C04 (RWA gates) + the RWA flavour of C01 / C02. Harnesses: /verif/kani/src/rwa.rs."""
from registry import K

# ne8: event log of 8 records (recover_balance publishes up to 5 events; the default log holds 4)
PROFILES = {'rwa': {'features': ['ne8']}}

RWA_BOUNDS = ('2 parties with full freeze state (balance, AddressFrozen, FrozenTokens; both orders and from == to) + 1 '
              'balance-only bystander + symbolic rest-of-world supply ghost; spender any of 5 addresses; amounts/balances '
              'full i128; ledger/TTL full u32; pause flag, compliance and identity-verifier entries present/absent with '
              'arbitrary addresses (possibly equal to each other, to the token or to a party); every answer of the two '
              'foreign contracts arbitrary (or failing); NS=12 slots, event log 8, call log 8, unwind 18')
BASE = ['fungible::Base::update', 'fungible::Base::balance', 'fungible::Base::total_supply']
FRZ = ['rwa::RWA::is_frozen', 'rwa::RWA::get_frozen_tokens', 'rwa::RWA::get_free_tokens', 'rwa::RWA::compliance',
       'rwa::RWA::identity_verifier']
GATE = FRZ + ['rwa::RWA::validate_transfer', 'pausable::paused']


def R(h, fns, bounds=RWA_BOUNDS, **kw):
    return K('rwa::' + h, profile='rwa', functions=fns, bounds=bounds, **kw)


TRANSFER = R('c04_transfer', BASE + GATE + ['rwa::RWA::transfer', '<RWA as ContractOverrides>::transfer', 'fungible::emit_transfer'])
TRANSFER_FROM = R('c04_transfer_from', BASE + FRZ + ['rwa::RWA::transfer_from', '<RWA as ContractOverrides>::transfer_from', 'fungible::Base::spend_allowance',
                                                    'fungible::Base::allowance_data', 'fungible::Base::set_allowance',
                                                    'fungible::emit_transfer'])
VALIDATE = R('c04_validate_transfer', BASE + GATE)
MINT = R('c04_mint', BASE + FRZ + ['rwa::RWA::mint', 'rwa::emit_mint'])
FORCED = R('c04_forced_transfer', BASE + FRZ + ['rwa::RWA::forced_transfer', 'rwa::emit_tokens_unfrozen', 'fungible::emit_transfer'])
BURN = R('c04_burn', BASE + FRZ + ['rwa::RWA::burn', 'rwa::emit_tokens_unfrozen', 'rwa::emit_burn'])
RECOVER = R('c04_recover_balance', BASE + FRZ + ['rwa::RWA::recover_balance', 'rwa::RWA::forced_transfer',
                                                 'rwa::RWA::freeze_partial_tokens', 'rwa::RWA::set_address_frozen',
                                                 'rwa::emit_recovery_success'])
# I2 (0 <= frozen <= balance) of the supervisory entry points: twin harnesses (same set-up + call, only that clause)
FORCED_I2 = R('c04_forced_transfer_i2', FORCED['functions'])
BURN_I2 = R('c04_burn_i2', BURN['functions'])
RECOVER_I2 = R('c04_recover_balance_i2', RECOVER['functions'])
FREEZE = R('c04_freeze_partial_tokens', BASE[1:2] + FRZ[1:2] + ['rwa::RWA::freeze_partial_tokens', 'rwa::emit_tokens_frozen'])
UNFREEZE = R('c04_unfreeze_partial_tokens', FRZ[1:2] + ['rwa::RWA::unfreeze_partial_tokens', 'rwa::emit_tokens_unfrozen'])
SETFROZEN = R('c04_set_address_frozen', ['rwa::RWA::set_address_frozen', 'rwa::emit_address_frozen'])
HISTORY = R('c04_close_gate_then_transfer', BASE + GATE + ['rwa::RWA::transfer', 'pausable::pause', 'rwa::RWA::set_address_frozen',
                                                           'rwa::RWA::freeze_partial_tokens'],
            bounds=RWA_BOUNDS + '; two invocations (gate setter, then transfer at an arbitrary later ledger with a fresh authorization set)')

STUBS = [
    'compliance and identity-verifier contracts are oracles: each client call is logged and answers an arbitrary value of its '
    'return type or fails (a failing callee traps the token call)',
    'pre-state assumes I1 (balances >= 0, tracked + rest == supply) and I2 (0 <= frozen(a) <= balance(a)); I2 is proved '
    'preserved by every entry point of the family (for transfer_from: under the free-balance gate, which is its own clause)',
    'PausableStorageKey is mirrored in the harness (the library keeps it in a private module); the history harness checks '
    'against the real pausable::pause that the mirrored key is the entry the gate reads',
]

CHECKS = {
    'C04': {
        'kani': [TRANSFER, TRANSFER_FROM, VALIDATE, MINT, FORCED, FORCED_I2, BURN, BURN_I2, RECOVER, RECOVER_I2, FREEZE, UNFREEZE,
                 SETFROZEN, HISTORY],
        'bounds': RWA_BOUNDS,
        'outside_claim': 'the bodies of the compliance / identity-verifier contracts (they are oracles here); the contract-level '
                         'wrappers of the examples (operator authorization is property C06); sequences are covered by induction '
                         'over single steps from an arbitrary invariant-satisfying state, not by explicit long histories; '
                         'archived persistent entries',
        'stubs_and_assumes': STUBS,
    },
    'C01': {
        'kani': [TRANSFER, TRANSFER_FROM, MINT, FORCED, BURN, RECOVER],
        'bounds': 'RWA flavour: ' + RWA_BOUNDS,
    },
    'C02': {
        'kani': [TRANSFER, TRANSFER_FROM],
        'bounds': 'RWA flavour: ' + RWA_BOUNDS,
    },
}
