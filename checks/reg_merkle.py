"""C17 (Merkle proofs + single-claim distributor: kani/src/merkle.rs) and C18 (signature verifiers: kani/src/verifiers.rs)."""
from registry import K

PROFILES = {
    # 64-byte pair inputs (bytesdirect: all byte-string lengths are concrete), 12 oracle records, oracle realised as a
    # call log with pairwise "equal input <-> equal digest" constraints (hashack: same injective function as the
    # table-backed one, 4..20x cheaper for chained hashes of symbolic data)
    'merkle': {'features': ['bytes64', 'bytesdirect', 'nh12', 'hashack']},
    # depth-3 trees (8 leaves): 7 + 6 oracle calls, 24 records (thorough tier only)
    'merkle3': {'features': ['bytes64', 'bytesdirect', 'nh24', 'hashack']},
    # webauthn: client data up to 192 bytes, oracle inputs of 32 words, 21-word secp256r1 query;
    # utf8stub compiles verifiers::wa (harnesses carry #[kani::stub(core::str::from_utf8, ..)], needs -Z stubbing)
    'webauthn': {'features': ['utf8stub', 'bytes192', 'hw32', 'aw40', 'bytesdirect', 'slicedirect', 'hashack'], 'stubbing': True},
}

CR = 'crypto::'
MV = [CR + 'merkle::Verifier::verify', CR + 'hashable::commutative_hash_pair', CR + 'hashable::hash_pair']
MVI = [CR + 'merkle::Verifier::verify_with_index', CR + 'hashable::hash_pair']
MD = 'merkle_distributor::MerkleDistributor::'
DIST_S = [MD + 'verify_and_set_claimed', MD + 'get_verification_args', MD + 'get_root', MD + 'is_claimed', MD + 'set_claimed',
          'merkle_distributor::emit_set_claimed'] + MV
DIST_I = [MD + 'verify_with_index_and_set_claimed', MD + 'get_verification_args', MD + 'get_root', MD + 'is_claimed', MD + 'set_claimed',
          'merkle_distributor::emit_set_claimed'] + MVI

T4 = ('tree of 4 leaves (depth 2) built in the harness with an independent reference (host hash of the concatenation), leaves = 4 ARBITRARY '
      '32-byte values (equal ones and values equal to internal nodes included); candidate leaf / proof elements / root: arbitrary 32-byte '
      'values; leaf index symbolic 0..3; hashes: injective oracle, <= 12 calls; unwind 14')
T4H = ('tree of 4 leaves (depth 2) built in the harness, leaves = H(d_i) for 4 pairwise distinct ARBITRARY 32-byte leaf data d_i (the '
       'distributor hashes the XDR of the leaf the same way); leaf index symbolic 0..3; appended element / other root arbitrary; unwind 14')
T8 = ('tree of 8 leaves (depth 3) built in the harness by the independent reference, leaves = 8 ARBITRARY 32-byte values; candidate leaf / proof '
      'elements arbitrary; hashes: injective oracle, <= 24 calls; unwind 26')
T3 = ('unbalanced tree N(N(l0, l1), l2), leaves = H(d_i) for 3 pairwise distinct arbitrary 32-byte leaf data; honest proofs of all 3 leaves; '
      'candidate value, index and proof (1 or 2 arbitrary elements) arbitrary; unwind 14')
FOLD = 'proof of symbolic length 0..4 with arbitrary elements, arbitrary leaf / root / index (full u32); unwind 14'
DIST = ('leaf = (index: full u32, account: any of 4 addresses, amount: full i128), leaf hash = H(XDR(leaf)); proof: 0..3 arbitrary elements; '
        'stored state arbitrary: Root present/absent with any value, Claimed(index) absent / false / true with any TTL, Claimed(other index) '
        'likewise (frame); ledger/TTL full u32; NS=12 slots; unwind 14')


def merkle(mod, hname, quick_all):
    """harness family of one hasher; quick_all: the whole family in the quick tier, else only the core harnesses"""
    P = 'merkle::%s::' % mod
    HF = [CR + '%s::new' % hname, CR + '%s::update' % hname, CR + '%s::finalize' % hname]
    t = 'quick' if quick_all else 'thorough'

    def k(name, fns, bounds, tier='quick', **kw):
        return K(P + name, profile='merkle', tier=tier, functions=fns + HF, bounds=bounds, **kw)
    return [
        k('pair_hashing', [CR + 'hashable::hash_pair', CR + 'hashable::commutative_hash_pair'], 'two arbitrary 32-byte values; unwind 14', must_succeed=True),
        k('honest4_sorted', MV, T4, must_succeed=True),
        k('honest4_indexed', MVI, T4, must_succeed=True),
        k('sound4_sorted', MV, T4 + '; proof = 2 arbitrary elements'),
        k('sound4_indexed', MVI, T4 + '; proof = 2 arbitrary elements, index full u32'),
        k('short_sorted', MV, T4 + '; proof = 0 or 1 arbitrary elements'),
        k('short_indexed', MVI, T4 + '; proof = 0 or 1 arbitrary elements, index full u32'),
        k('index_guards', MVI, FOLD),
        k('corrupt_len_root_sorted', MV, T4H, tier=t),
        k('corrupt_len_root_indexed', MVI, T4H + '; truncated proof with ANY index', tier=t),
        k('corrupt_reorder_sorted', MV, T4H, tier=t),
        k('corrupt_reorder_index_indexed', MVI, T4H + '; wrong index: any u32 other than the leaf\'s', tier=t),
        k('tree3_sorted', MV, T3, tier=t),
        k('tree3_indexed', MVI, T3, tier=t),
        K(P + 'honest8', profile='merkle3', tier='thorough', must_succeed=True, functions=MV + MVI + HF, bounds=T8 + '; either form, leaf index symbolic 0..7'),
        K(P + 'sound8_sorted', profile='merkle3', tier='thorough', functions=MV + HF, bounds=T8 + '; proof = 3 arbitrary elements'),
        K(P + 'sound8_indexed', profile='merkle3', tier='thorough', functions=MVI + HF, bounds=T8 + '; proof = 3 arbitrary elements, index full u32'),
        k('verify_is_fold', MV, FOLD, tier='thorough', must_succeed=True),
        k('verify_with_index_is_fold', MVI, FOLD, tier='thorough'),
        k('dist_claim_sorted', DIST_S, DIST),
        k('dist_claim_indexed', DIST_I, DIST),
        k('dist_claim_accepts', DIST_S + DIST_I, 'stored root = root of a 4-leaf tree containing H(XDR(leaf)) at position leaf.index in 0..3 (other leaves arbitrary), '
          'Claimed(index) absent or false, honest 2-element proof, either claim form; ledger <= u32::MAX / 2 when the flag entry exists (TTL extension '
          'representable); unwind 14', must_succeed=True),
        k('dist_second_claim', DIST_S + DIST_I + [MD + 'set_root'], 'history: claim (either form, proof of 0..1 elements) -> later ledger, optional set_root(any) -> '
          'claim for the same index with any leaf contents, any proof of 0..1 elements, either form; arbitrary stored pre-state as above', tier=t),
        k('dist_frames', [MD + 'set_root', MD + 'set_claimed', MD + 'is_claimed', MD + 'get_root', 'merkle_distributor::emit_set_root',
                          'merkle_distributor::emit_set_claimed'], DIST + '; one of the four functions, arbitrary arguments'),
    ]


VU = 'verifiers::utils::'
WA = 'verifiers::webauthn::'
WAV = [WA + 'verify', WA + 'validate_expected_type', WA + 'validate_challenge', WA + 'validate_user_present_bit_set',
       WA + 'validate_user_verified_bit_set', WA + 'validate_backup_eligibility_and_state', VU + 'base64_url_encode', VU + 'extract_from_bytes',
       'serde_json_core::de::from_slice (real parser)']
FS = '--max-field-sensitivity-array-size 1100'   # the 1024-byte client-data buffer stays field-sensitive (concrete text stays concrete)
DOCB = ('client-data JSON = CONCRETE text (%s), challenge = base64url of one fixed 32-byte payload; signature payload (32 bytes), '
        'authenticator data (37 bytes incl. the flags byte), 65-byte public key and 64-byte signature ARBITRARY; oracle answer arbitrary; '
        'core::str::from_utf8 stubbed by an over-approximation (ASCII => Ok, otherwise Ok or Err); unwind 200')


def wdoc(name, text, **kw):
    return K('verifiers::wa::' + name, profile='webauthn', functions=WAV, bounds=DOCB % text, cbmc_args=FS, **kw)


C18 = [
    K('verifiers::b64_diff_12', functions=[VU + 'base64_url_encode'], bounds='EVERY input of length 0..=12 (symbolic length, symbolic bytes), 16-byte destination with arbitrary previous contents; unwind 18'),
    K('verifiers::b64_diff_33', functions=[VU + 'base64_url_encode'], bounds='EVERY input of length 0..=33, 44-byte destination; unwind 46'),
    K('verifiers::b64_diff_96', functions=[VU + 'base64_url_encode'], bounds='EVERY input of length 0..=96, 128-byte destination; unwind 130'),
    K('verifiers::b64_diff_255', tier='thorough', functions=[VU + 'base64_url_encode'], bounds='EVERY input of length 0..=255, 340-byte destination; unwind 342'),
    K('verifiers::b64_challenge32', functions=[VU + 'base64_url_encode'], bounds='every 32-byte input into the 43-byte buffer used by validate_challenge; unwind 45'),
    K('verifiers::extract_ranges', functions=[VU + 'extract_from_bytes'], bounds='N = 4; data: arbitrary Bytes of length 0..=16; Range / RangeInclusive / RangeFrom / RangeTo with full-u32 bounds; unwind 20'),
    K('verifiers::extract_in_range_accepts', must_succeed=True, functions=[VU + 'extract_from_bytes'], bounds='N = 4; data of length 0..=16; every start with start + 4 <= len'),
    K('verifiers::webauthn_flags', functions=[WA + 'validate_user_present_bit_set', WA + 'validate_user_verified_bit_set', WA + 'validate_backup_eligibility_and_state'], bounds='all 256 flag bytes'),
    K('verifiers::webauthn_flags_accepts', must_succeed=True, functions=[WA + 'validate_user_present_bit_set', WA + 'validate_user_verified_bit_set', WA + 'validate_backup_eligibility_and_state'], bounds='all flag bytes with UP, UV and not (BS without BE)'),
    K('verifiers::webauthn_type_validator', functions=[WA + 'validate_expected_type'], bounds='type string of symbolic length 0..=16 with arbitrary bytes; unwind 20'),
    K('verifiers::webauthn_type_validator_accepts', must_succeed=True, functions=[WA + 'validate_expected_type'], bounds='"webauthn.get"'),
    K('verifiers::webauthn_challenge_validator', profile='webauthn', functions=[WA + 'validate_challenge', VU + 'base64_url_encode', VU + 'extract_from_bytes'],
      bounds='payload of symbolic length 0..=34 with arbitrary bytes, challenge string of symbolic length 0..=44 with arbitrary bytes; unwind 46'),
    K('verifiers::webauthn_challenge_validator_accepts', profile='webauthn', must_succeed=True, functions=[WA + 'validate_challenge', VU + 'base64_url_encode'],
      bounds='every 32-byte payload with its reference encoding as challenge'),
    K('verifiers::ed25519_verify', functions=['verifiers::ed25519::verify'], bounds='payload: arbitrary Bytes of length 0..=16, arbitrary 32-byte key and 64-byte signature, oracle answer arbitrary; unwind 20'),
    K('verifiers::ed25519_rejects', functions=['verifiers::ed25519::verify'], bounds='as ed25519_verify, oracle pinned to "invalid"'),
    K('verifiers::ed25519_accepts', must_succeed=True, functions=['verifiers::ed25519::verify'], bounds='as ed25519_verify, oracle pinned to "valid"'),
    wdoc('webauthn_doc_type_challenge', '{"type":"webauthn.get","challenge":"<43>"}'),
    wdoc('webauthn_doc_type_challenge_accepts', '{"type":"webauthn.get","challenge":"<43>"}; payload = the named one, flags fine, oracle pinned to "valid"', must_succeed=True),
    wdoc('webauthn_doc_challenge_type', '{"challenge":"<43>","type":"webauthn.get"}'),
    wdoc('webauthn_doc_challenge_type_accepts', '{"challenge":"<43>","type":"webauthn.get"}; genuine', must_succeed=True),
    wdoc('webauthn_doc_extra_members', 'white space, extra members origin (string), crossOrigin (boolean), x (nested object with array)'),
    wdoc('webauthn_doc_extra_members_accepts', 'white space and extra members; genuine', must_succeed=True),
    wdoc('webauthn_doc_wrong_type', '"type":"webauthn.create"'),
    wdoc('webauthn_doc_padded_challenge', 'challenge with "=" appended'),
    wdoc('webauthn_doc_missing_type', 'no type member'),
    wdoc('webauthn_doc_duplicate_type', 'type member twice (create, then get)'),
    wdoc('webauthn_doc_other_challenge', 'challenge differing in its last character'),
    wdoc('webauthn_doc_oracle_rejects', '{"type":"webauthn.get","challenge":"<43>"}; oracle pinned to "invalid"'),
    wdoc('webauthn_doc_short_auth_data', '{"type":"webauthn.get","challenge":"<43>"}; authenticator data of symbolic length 0..=36'),
]

CHECKS = {
    'C17': {
        'kani': merkle('keccak', 'keccak::Keccak256', True) + merkle('sha', 'sha256::Sha256', False),
        'bounds': ('trees: balanced 4 leaves (depth 2), unbalanced 3 leaves and (thorough) balanced 8 leaves (depth 3), built in the harness by an independent reference; proofs of 0..4 '
                   'arbitrary elements; distributor: ' + DIST + '; both hashers (Keccak-256: whole family in the quick tier; SHA-256: honest / '
                   'soundness / short-proof / guard / distributor step harnesses quick, corruption, 3-leaf and history harnesses thorough)'),
        'outside_claim': (
            'WHAT IS PROVED (oracle model). (a) honest 2-element proof of every leaf of the 4-tree verifies (sorted form; positional form with the '
            'leaf\'s index), for arbitrary leaf values. (b) ANY 2-element proof that makes verify / verify_with_index return true for ANY 32-byte '
            'value: the value is one of the four leaves (the one at the given index) and the proof is exactly that leaf\'s honest proof -- so an altered '
            'leaf, an altered proof element and (positional form, distinct leaves) a wrong index are rejected; this holds for arbitrary leaf values. '
            '(c) the classic caveat, stated exactly: a proof SHORTER than the depth verifies exactly the internal nodes -- 1 element: only (n01 with n23) '
            'or (n23 with n01) [positional: at index 0 / 1], 0 elements: only the root; hence one of the four leaves passes with a short proof only if its '
            'VALUE equals an internal node, i.e. the leaf pre-image is a 64-byte concatenation of two nodes (the caller\'s duty, documented upstream). '
            '(d) with leaves = H(32-byte data) (no 64-byte pre-images): truncated (drop last), extended (append any element), reordered proofs, any other '
            'root, any other index: false or trap; 3-leaf tree: honest proofs verify and whatever verifies with 1 or 2 elements is honest. With FREE leaf '
            'values (d) is not provable: the oracle admits the cycle l0 = H(l0 || l1) with l1 = n23, for which root = n01 and the truncated proof passes. '
            '(e) thorough tier: (a) and (b) for the 8-leaf tree of depth 3 with 3-element proofs. OUTSIDE: trees deeper than 3 / more than 8 leaves (verify_is_fold / verify_with_index_is_fold show, for every proof length 0..4, that the '
            'library result is the reference fold compared with the root; the level-by-level soundness argument for deeper trees is the same oracle '
            'argument, not machine-checked); the `len >= 32` guard of verify_with_index (unreachable with 4-element vectors; the `index >= 2^len` guard '
            'is checked for len 0..4 and full-u32 index); real SHA-256 / Keccak-256 (collision resistance is the oracle assumption); byte-exact XDR (the '
            'model serialises leaves injectively); examples/fungible-merkle-airdrop (not linked into the harness crate: its claim is '
            'verify_and_set_claimed followed by one token transfer; a failing transfer rolls the claim back on the host)'),
        'stubs_and_assumes': [
            'sha256 / keccak256: injective oracle (feature hashack: call log with pairwise "equal (kind, length, bytes) <-> equal digest" constraints; '
            'identical function to the table-backed oracle)',
            'corruption / 3-leaf harnesses: leaves are H(d_i) of pairwise distinct 32-byte leaf data (no 64-byte leaf pre-images: the upstream caveat)',
            'distributor pre-state: Claimed entries hold an arbitrary bool (superset of the reachable states, which only ever store true)',
        ],
    },
    'C18': {
        'kani': C18,
        'bounds': ('base64url: every input of length 0..=96 (quick) / 0..=255 (thorough) and the 32-byte challenge case; extract_from_bytes: N = 4 on data '
                   'of 0..=16 bytes, all four range kinds, full-u32 bounds; flags: all 256 bytes; type validator: every string of <= 16 bytes; challenge '
                   'validator: every payload of <= 34 bytes x every string of <= 44 bytes; ed25519: payload <= 16 bytes, every key / signature; '
                   'webauthn::verify: 8 concrete client-data documents x arbitrary payload / authenticator data (37 bytes) / key / signature'),
        'outside_claim': (
            'webauthn::verify with SYMBOLIC client-data contents is out of reach: templates {"type":"<12 symbolic>","challenge":"<43 symbolic>"} and the '
            'two variants with only the LAST member symbolic (harnesses verifiers::wa::webauthn_verify_tc, webauthn_verify_symbolic_challenge, '
            'webauthn_verify_symbolic_type; not registered) did not finish symbolic execution within 25 min each (> 20 000 unwindings of the parser\'s '
            'back-slash counting loop: every symbolic byte may be a quote, after which the cursor is symbolic and the remaining bytes are parsed as '
            'further JSON members). Instead: the real parser runs on concrete documents (both member orders, white space, extra string / boolean / '
            'nested members, wrong / missing / duplicate type, damaged / padded challenge) with everything else symbolic, and the type and challenge '
            'checks are verified directly on arbitrary strings. Also outside: client data longer than 192 bytes and the > 1024-byte guard (model Bytes '
            'capacity); real P-256 / Ed25519 mathematics ("genuine => accepted" is "oracle accepts and well-formed => accepted", must-succeed mode); '
            'payloads longer than 32 bytes are accepted on their first 32 bytes (validate_challenge takes payload[0..32]; the property speaks of the '
            '32-byte payload); malformed key / signature LENGTHS cannot reach the library (typed BytesN<32> / BytesN<64> / BytesN<65>: the host\'s Val -> '
            'BytesN conversion is trusted base; the example webauthn contract takes the first 65 bytes of a longer key_data via extract_from_bytes(0..65))'),
        'stubs_and_assumes': [
            'ed25519_verify / secp256r1_verify: oracles logged as foreign calls on address id u32::MAX (answer arbitrary or pinned)',
            'sha256: injective oracle (hashack realisation)',
            'verifiers::wa::*: core::str::from_utf8 replaced by an over-approximating stub (pure ASCII => Ok as the real function; anything else => Ok or Err '
            'arbitrarily): the real implementation reads word-wise after align_offset, which depends on the symbolic buffer address',
            'verifiers::wa::*: cbmc --max-field-sensitivity-array-size 1100 (precision-neutral: arrays up to 1100 elements are split into scalars)',
        ],
    },
}
