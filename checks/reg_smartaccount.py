"""C03 (smart-account authorization: soundness + rule precedence) -- kani/src/smart_account.rs
C20, smart-account part (context-rule registry) -- kani/src/context_rules.rs"""
from registry import K

# The two families are compiled only in these profiles (lib.rs gates them on aw96 / xdrdigest and CAP = 2 or 3).
PROFILES = {
    # CAP 2, Bytes 32 (the 32-byte payload is passed to verifiers as Bytes): Signer 7 words, Vec<Signer> 15 (<= VW 24),
    # ContextRule 31, Context 21; can_enforce/enforce(context, signers, rule, account) = 68 argument words (<= AW 96, new
    # additive model feature aw96); key_data / sig_data `into_val` are digests of the injective oracle (valdigest)
    'sa_auth': {'features': ['cap2', 'bytes32', 'vw24', 'valdigest', 'aw96']},
    # the same + smart_account::glue (a harness with #[kani::stub])
    'sa_glue': {'features': ['cap2', 'bytes32', 'vw24', 'valdigest', 'aw96', 'saglue'], 'stubbing': True},
    # CAP 3, Bytes 16: Signer 5, Vec<Signer> 16, ContextRule 31 (event <= EW 32; install(param, rule, account) 37 <= AW 40);
    # `to_xdr` = 4-byte handle of the injective oracle (new additive model feature xdrdigest: a faithful serialisation of a
    # Vec<Signer> can never fit into one model Bytes); bytesdirect: all byte-string lengths in the fingerprint are concrete
    'sa_rules': {'features': ['cap3', 'vw24', 'xdrdigest', 'aw40', 'ew32', 'bytesdirect']},
}

SA = 'smart_account::'
AUTH_FNS = [SA + f for f in ('do_check_auth', 'authenticate', 'get_validated_context', 'get_valid_context_rules',
                             'get_authenticated_signers', 'can_enforce_all_policies', 'get_context_rule')] + \
    ['policies::PolicyClient::can_enforce', 'policies::PolicyClient::enforce', 'verifiers::VerifierClient::verify']
EXAMPLE_AUTH = ['examples/multisig-smart-account MultisigContract::__check_auth']

AUTH_COMMON = ('registry built directly in storage: CAP rule slots with fixed distinct ids (opaque to the code under test; C20 quantifies over all ids), each unlisted / listed '
               'under the context\'s own type / listed under Default, Meta{name 1-2 bytes, valid_until any Option<u32>}, Signers(id) and '
               'Policies(id) present or absent, duplicates allowed; signers Delegated(any of 5 addresses) or External(any of 5 verifiers, '
               'key of 1-2 arbitrary bytes); signature data 1-2 arbitrary bytes; payload any 32 bytes; context of the variant named per harness '
               '(contract any of 5 addresses / any wasm hash, any function name, 0..CAP arbitrary arguments; the VARIANT is fixed per harness, see below); ledger full u32; '
               'every verifier/policy answer arbitrary or failing; require_auth_for_args grants arbitrary per address; unwind 98')
SEL_FNS = [SA + f for f in ('get_validated_context', 'get_valid_context_rules', 'get_authenticated_signers', 'can_enforce_all_policies',
                            'get_context_rule')] + ['policies::PolicyClient::can_enforce']
B_AUTH = 'CAP=2: 0..2 signatures; ' + AUTH_COMMON
B_SEL = ('CAP=2: 1 context, 2 LISTED rules in the concrete list shape named by the harness (older slot, newer slot), <= 2 signers and <= 1 policy per '
         'rule, 0..2 supplied signers; ' + AUTH_COMMON)
B_SEL2 = B_SEL.replace('<= 1 policy', '<= 2 policies')
B_ONE = ('CAP=2: whole check, 1 context, ONE listed rule (Default / own type) + one stored but unlisted rule, <= 2 signers and <= 2 policies per rule, '
         '0..2 signatures; ' + AUTH_COMMON)
B_TWO = 'CAP=2: whole check, 1 context, an own-type rule and a Default rule, <= 2 signers and <= 1 policy per rule, 0..2 signatures; ' + AUTH_COMMON
B_GLUE = ('CAP=2: do_check_auth with get_validated_context STUBBED (#[kani::stub]) by a recorder returning a harness-chosen (rule, context, signers) per call: '
          'batch of exactly 2 contract-call contexts, per context an arbitrary rule (any id, <= 1 signer, <= 2 policies, Default / CallContract type) and <= 1 '
          'selected signer, 0..1 signatures; storage untouched; ' + AUTH_COMMON)
CALLCTX = '; context: contract call (Context::Contract)'
B_SEL_ANY = B_SEL.replace('in the concrete list shape named by the harness (older slot, newer slot)', 'of symbolic kinds (unlisted / own type / Default)')
PINNED = ('; all foreign calls pinned to return (boolean answers arbitrary), verifier answers true, delegated signers grant (payload,), the reference finds a '
          'satisfied rule; sequence <= u32::MAX - 40 days (TTL extension representable)')
# CBMC: ArgBuf has 96 words; keep arrays up to 128 elements field-sensitive (default 64) -- faster and far less memory
CB = '--max-field-sensitivity-array-size 128'


# measured (16 busy cores): quick tier 1-4 min per harness; thorough: selection harnesses ~6 min, whole-check harnesses 5-14 min
TO = {'quick': 2400, 'thorough': 5400}


def A(h, fns, bounds, **kw):
    return K('smart_account::' + h, profile=kw.pop('profile', 'sa_auth'), functions=fns, bounds=bounds, cbmc_args=CB, timeout=TO, mem_gb=12, **kw)


C03 = [
    A('authenticate_signatures', [SA + 'authenticate', 'verifiers::VerifierClient::verify'], B_AUTH),
    A('authenticate_signatures_accepts', [SA + 'authenticate', 'verifiers::VerifierClient::verify'], B_AUTH + PINNED, must_succeed=True),
    A('select_own_own', SEL_FNS, B_SEL + CALLCTX, tier='thorough'),
    A('select_default_default', SEL_FNS, B_SEL + CALLCTX, tier='thorough'),
    A('select_own_default', SEL_FNS, B_SEL + CALLCTX, tier='thorough'),
    A('select_default_own', SEL_FNS, B_SEL + CALLCTX, tier='thorough'),
    A('select_create_own_default', SEL_FNS, B_SEL + '; context: CreateContractHostFn', tier='thorough'),
    A('select_any_accepts', SEL_FNS, B_SEL_ANY + CALLCTX + PINNED, must_succeed=True),
    A('check_auth_one_default_rule', AUTH_FNS + EXAMPLE_AUTH, B_ONE + CALLCTX + '; through the example account\'s __check_auth', tier='thorough'),
    A('check_auth_one_default_rule_accepts', AUTH_FNS, B_ONE + CALLCTX + PINNED, must_succeed=True, tier='thorough'),
    A('select_own_own_2pol', SEL_FNS, B_SEL2 + CALLCTX, tier='thorough'),
    A('check_auth_own_and_default_rule', AUTH_FNS, B_TWO + CALLCTX, tier='thorough'),
    A('glue::check_auth_glue_2ctx', [SA + 'do_check_auth', SA + 'authenticate', 'policies::PolicyClient::enforce', 'verifiers::VerifierClient::verify'], B_GLUE, profile='sa_glue', tier='thorough'),
]

RULE_FNS = [SA + f for f in ('get_context_rule', 'compute_fingerprint', 'validate_and_set_fingerprint', 'remove_fingerprint',
                             'validate_signers_and_policies')]
VIA = 'examples/multisig-smart-account MultisigContract::'
R_COMMON = ('CAP=3; one inductive step from an arbitrary stored state: rule id full u32, Meta{type any of the three variants, name 1-2 bytes, '
            'valid_until any}, pairwise different signers (Delegated(any of 5) / External(any of 5 verifiers, 1-2 key bytes)) and policies '
            '(any of 5 addresses), at least one of them; fingerprint entries of the old and the new (type, signer set, policy set) present or '
            'absent; ledger/TTL full u32; account any of 5 addresses with a symbolic authorization set; foreign policy contracts answer '
            'arbitrarily or fail; NS=12, unwind 42')


def R(h, fns, bounds, **kw):
    return K('context_rules::' + h, profile='sa_rules', functions=RULE_FNS + [SA + f for f in fns] + [VIA + fns[0]], bounds=bounds,
             timeout={'quick': 1800, 'thorough': 3600}, mem_gb=12, **kw)


ADD_B = ('CAP=3; arbitrary NextId / Count (present or absent, full u32), the id list of the rule\'s type with 0..2 ids below NextId, whatever is '
         'stored under the next id; arguments: type any variant, name 1-2 bytes, valid_until any, 0..3 signers (duplicates allowed), policy map of '
         '0..3 (address, arbitrary Val) pairs; the fingerprint entry of the argument\'s (type, signer set, policy set) present or absent; unwind 42')
C20 = [
    R('add_rule', ['add_context_rule', 'get_context_rules_count'], ADD_B),
    R('add_rule_accepts', ['add_context_rule'], ADD_B + '; fresh fingerprint, distinct signers, non-empty, unexpired, Count < 15, NextId < u32::MAX, installs pinned to return', must_succeed=True),
    R('remove_rule', ['remove_context_rule'], R_COMMON + '; rule with <= 2 signers and <= 2 policies; its id at any position of a list of 1..3 distinct ids; Count / NextId arbitrary; one other fingerprint entry (frame)'),
    R('remove_rule_accepts', ['remove_context_rule'], R_COMMON + '; stored rule, Count >= 1', must_succeed=True),
    R('add_signer', ['add_signer'], R_COMMON + '; rule with 0..2 signers, 0..2 policies; any new signer'),
    R('add_signer_accepts', ['add_signer'], R_COMMON + '; stored rule, signer not in the rule, fresh fingerprint', must_succeed=True),
    R('remove_signer', ['remove_signer'], R_COMMON + '; rule with 0..3 signers, 0..2 policies; any signer'),
    R('remove_signer_accepts', ['remove_signer'], R_COMMON + '; stored rule, member signer, something remains, fresh fingerprint', must_succeed=True),
    R('add_policy', ['add_policy'], R_COMMON + '; rule with 0..2 signers, 0..2 policies; any policy address and install parameter'),
    R('add_policy_accepts', ['add_policy'], R_COMMON + '; stored rule, policy not in the rule, fresh fingerprint, install pinned to return', must_succeed=True),
    R('remove_policy', ['remove_policy'], R_COMMON + '; rule with 0..2 signers, 0..3 policies; any policy address'),
    R('remove_policy_accepts', ['remove_policy'], R_COMMON + '; stored rule, member policy, something remains, fresh fingerprint', must_succeed=True),
    R('update_name', ['update_context_rule_name'], R_COMMON),
    R('update_valid_until', ['update_context_rule_valid_until'], R_COMMON),
    K('context_rules::getters', profile='sa_rules', mem_gb=12, functions=[SA + 'get_context_rules', SA + 'get_context_rules_count', SA + 'get_context_rule'],
      bounds='CAP=3; a list of 0..2 distinct ids of one type with their Meta / Signers / Policies entries (<= 2 signers, <= 2 policies each), Count present or absent'),
]

CHECKS = {
    'C03': {
        'kani': C03,
        'bounds': ('split along do_check_auth = authenticate ; get_validated_context per context ; enforce per validated context. quick: ' + B_AUTH + ' | ' + B_SEL_ANY +
                   ' (converse only) | thorough adds: the selection over every two-rule list shape with its trace and returned rule (' + B_SEL + '), <= 2 policies, a '
                   'contract-creation context; the whole check over one and over two listed rules (' + B_ONE + '); the composition for a batch of 2 contexts (' + B_GLUE + ')'),
        'outside_claim': ('rule sets beyond 2 listed rules / 2 signers / 2 policies per rule / 2 signatures; batches of 2 contexts only compositionally (stubbed selection; the un-stubbed whole check over 2 contexts exhausts 12 GB), batches beyond 2 (documented maxima 15 / 15 / 5; the loops are uniform: three listed rules at CAP=3 exhaust 12 GB; '
                          'the whole do_check_auth is checked over registries with at most two listed rules, the selection over every two-rule list shape separately: small-scope argument); real signature cryptography (verifier contracts are oracles) and real policy contracts (C14 covers the library\'s own); '
                          'the host\'s own matching of __check_auth results to the invocation tree; key and signature data longer than 2 bytes, rule names longer than 2 bytes '
                          '(opaque to the code under test); archived persistent entries'),
        'stubs_and_assumes': [
            'glue::check_auth_glue_2ctx replaces get_validated_context by a recording stub (what the real selection returns is the subject of the select_* harnesses)',
            'registry invariant assumed for the pre-state (proved stepwise by the C20 context_rules harnesses): a listed id has a Meta of the list\'s type and is listed once',
            'Signatures map: sorted, duplicate-free keys (the host\'s map invariant)',
            '"newest first" = reverse list order (lists are append-only, so list order is creation order)',
            'a policy\'s answer is what the logged call returned (a foreign contract may answer the same question differently twice)',
        ],
    },
    'C20': {
        'kani': C20,
        'bounds': 'context rules: ' + R_COMMON,
        'outside_claim': ('context rules: MAX_SIGNERS = 15 and MAX_POLICIES = 5 cannot be reached with vectors of capacity 3 (the clauses "within_max_*" hold trivially; the '
                          'comparisons `len > MAX` are shared with MAX_CONTEXT_RULES-style code but are NOT exercised at the limit); MAX_CONTEXT_RULES = 15 IS exercised exactly '
                          '(Count symbolic: refused at 15, accepted at 14); lists longer than 3; the global statements (Count = number of stored rules, every stored id below '
                          'NextId, fingerprints of different rules differ) follow from the per-step deltas by induction, not checked as one formula; XDR byte layout (to_xdr is an '
                          'injective oracle handle); archived persistent entries'),
        'stubs_and_assumes': [
            'context rules: representation invariant assumed per step: stored rule has Meta+Signers+Policies, pairwise different signers / policies, at least one of them; '
            'its id occurs exactly once in Ids(its type); listed ids are below NextId',
            'context rules: fingerprint reference = sha256-oracle(handle(type) ++ handle(sorted signers) ++ handle(sorted policies)) with the harness\' own insertion sort',
        ],
    },
}
