//! Shared harness helpers.
use soroban_sdk::model::{self, world, NADDR, VW};
use soroban_sdk::{Address, Flat};

/// property assertion: the runner recognises failed checks by the `PROP:` prefix
#[macro_export]
macro_rules! prop {
    ($c:expr, $($name:tt)+) => {
        kani::assert($c, concat!("PROP:", $($name)+))
    };
}
/// reachability witness: the runner requires every cover to be SATISFIED
#[macro_export]
macro_rules! witness {
    ($c:expr, $name:literal) => {
        kani::cover!($c, $name)
    };
}

/// symbolic ledger position, TTL limits and authorization set
pub fn setup_world() {
    let w = world();
    w.seq = kani::any();
    w.timestamp = kani::any();
    w.max_ttl = kani::any();
    kani::assume(w.max_ttl >= 2);
    w.min_temp_ttl = 1;
    w.min_pers_ttl = kani::any();
    kani::assume(w.min_pers_ttl >= 1 && w.min_pers_ttl <= w.max_ttl);
    w.contract = kani::any();
    kani::assume((w.contract as usize) < NADDR);
    let mut i = 0;
    while i < NADDR {
        w.authorized[i] = kani::any();
        i += 1;
    }
}
pub fn addr_below(n: u32) -> Address {
    let id: u32 = kani::any();
    kani::assume(id < n);
    Address::from_id(id)
}
pub fn arb_words() -> [u64; VW] {
    let mut w = [0u64; VW];
    let mut i = 0;
    while i < VW {
        w[i] = kani::any();
        i += 1;
    }
    w
}
pub fn words_of<V: Flat>(v: &V) -> [u64; VW] {
    model::val_of(v)
}
pub fn authorized(a: &Address) -> bool {
    model::is_authorized(a)
}
/// final checks shared by all harnesses: the call stayed inside the declared universe
pub fn end_checks(declared: usize) {
    kani::assert(!world().overflow, "MODEL-OVERFLOW: flag set");
    kani::assert(model::unclaimed_from(declared), "MODEL-OVERFLOW: a key outside the declared universe was written");
}
