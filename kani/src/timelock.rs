//! C08: timelock operation lifecycle (stellar_governance::timelock::storage), one inductive step
//! from an arbitrary stored pre-state.
//!
//! Pre-state: `OperationLedger(id)` for the operation under test (slot 0) and for its predecessor
//! (slot 1) with symbolic presence and symbolic stored value (0 = unset, 1 = done, otherwise the
//! ready ledger; a PRESENT entry holding 0 is included although the code never writes one),
//! symbolic `MinDelay` (slot 2), symbolic ledger sequence >= 2 (0 and 1 are the sentinels; the
//! property excludes them). `id = hash_operation(op)` is computed first through the real code
//! (keccak256 = the model's injective hash oracle), then the slot is declared under that id.
//! If the predecessor field happens to equal the operation's own id (a keccak fixed point; the
//! oracle does not exclude it) slot 1 is not declared and the predecessor's state IS slot 0.
//!
//! Profile `timelock`: cap2 (args: Vec<Val> of symbolic length 0..=2, arbitrary Vals), bytes192
//! (the hashed serialisation is 168 bytes), hw32 (hash-oracle input words), ew32 (event words),
//! bytesdirect (direct indexing in Bytes::append: all lengths are concrete here).
use soroban_sdk::model::{self, world, ArgBuf};
use soroban_sdk::{Address, Arb, BytesN, Env, Symbol, Val, Vec as SVec};
use stellar_governance::timelock::{
    cancel_operation, execute_operation, get_min_delay, get_operation_ledger, get_operation_state,
    hash_operation, is_operation_done, is_operation_pending, is_operation_ready, operation_exists,
    schedule_operation, set_execute_operation, set_min_delay, MinDelayChanged, Operation,
    OperationCancelled, OperationExecuted, OperationScheduled, OperationState, TimelockStorageKey,
};

use crate::util::*;

pub const S_OP: usize = 0;
pub const S_PRED: usize = 1;
pub const S_MIN: usize = 2;
pub const DECLARED: usize = 3;

pub fn arb_operation() -> Operation {
    Operation {
        target: Address::arb(),
        function: Symbol::arb(),
        args: <SVec<Val> as Arb>::arb(),
        predecessor: <BytesN<32> as Arb>::arb(),
        salt: <BytesN<32> as Arb>::arb(),
    }
}
pub fn zero_id(e: &Env) -> BytesN<32> {
    BytesN::<32>::from_array(e, &[0u8; 32])
}
/// symbolic ledger >= 2, symbolic authorization set
pub fn setup() -> Env {
    setup_world();
    kani::assume(world().seq >= 2);
    Env::default()
}
/// declare `OperationLedger(id)` in slot `i` with symbolic presence / value; returns the stored
/// value in the sense of the library (absent = 0)
pub fn declare_op_slot(i: usize, id: &BytesN<32>) -> u32 {
    let present: bool = kani::any();
    let v: u32 = kani::any();
    let lu: u32 = kani::any();
    model::declare_val(i, 0, &TimelockStorageKey::OperationLedger(id.clone()), present, &v, lu);
    if present {
        v
    } else {
        0
    }
}
pub struct MinPre {
    pub present: bool,
    pub value: u32,
}
pub fn declare_min_delay(i: usize) -> MinPre {
    let present: bool = kani::any();
    let value: u32 = kani::any();
    model::declare_val(i, 2, &TimelockStorageKey::MinDelay, present, &value, 0);
    MinPre { present, value }
}
pub fn stored_now(i: usize) -> u32 {
    let s = model::slot(i);
    if s.present {
        model::slot_val::<u32>(i)
    } else {
        0
    }
}
/// the Unset/Waiting/Ready/Done table of the property
pub fn table(stored: u32, seq: u32) -> OperationState {
    if stored == 0 {
        OperationState::Unset
    } else if stored == 1 {
        OperationState::Done
    } else if stored > seq {
        OperationState::Waiting
    } else {
        OperationState::Ready
    }
}

pub struct Pre {
    pub e: Env,
    pub op: Operation,
    pub id: BytesN<32>,
    pub stored: u32,
    pub pred_stored: u32,
    pub pred_aliases_op: bool,
    pub min: MinPre,
    pub s_op: model::Slot,
    pub s_pred: model::Slot,
    pub s_min: model::Slot,
}
/// operation + predecessor + MinDelay pre-state
pub fn declare_all() -> Pre {
    let e = setup();
    let op = arb_operation();
    let id = hash_operation(&e, &op);
    let stored = declare_op_slot(S_OP, &id);
    let alias = op.predecessor == id;
    let mut pred_stored = stored;
    if !alias {
        pred_stored = declare_op_slot(S_PRED, &op.predecessor);
    }
    let min = declare_min_delay(S_MIN);
    Pre {
        e,
        op,
        id,
        stored,
        pred_stored,
        pred_aliases_op: alias,
        min,
        s_op: model::slot(S_OP),
        s_pred: model::slot(S_PRED),
        s_min: model::slot(S_MIN),
    }
}
fn args_buf(args: &SVec<Val>) -> ArgBuf {
    let mut a = ArgBuf::new();
    a.push(args);
    a
}

// ------------------------------------------------------------------ state function
#[kani::proof]
#[kani::unwind(34)]
pub fn c08_state_table() {
    let e = setup();
    let id = <BytesN<32> as Arb>::arb();
    let stored = declare_op_slot(S_OP, &id);
    let seq = world().seq;
    let want = table(stored, seq);
    let which: u8 = kani::any();
    kani::assume(which < 6);
    // every query may extend the entry's TTL but must not change its value
    if which == 0 {
        prop!(get_operation_state(&e, &id) == want, "C08.state.matches_unset_waiting_ready_done_table");
        witness!(want == OperationState::Unset, "state_unset");
        witness!(want == OperationState::Waiting, "state_waiting");
        witness!(want == OperationState::Ready && stored == seq, "state_ready_at_boundary");
        witness!(want == OperationState::Waiting && stored as u64 == seq as u64 + 1, "state_waiting_at_boundary");
        witness!(want == OperationState::Done, "state_done");
    } else if which == 1 {
        prop!(get_operation_ledger(&e, &id) == stored, "C08.state.ledger_getter_returns_stored_value");
    } else if which == 2 {
        prop!(operation_exists(&e, &id) == (stored != 0), "C08.state.exists_iff_not_unset");
    } else if which == 3 {
        prop!(is_operation_pending(&e, &id) == (stored >= 2), "C08.state.pending_iff_waiting_or_ready");
    } else if which == 4 {
        prop!(is_operation_ready(&e, &id) == (stored >= 2 && stored <= seq), "C08.state.ready_iff_delay_elapsed");
    } else {
        prop!(is_operation_done(&e, &id) == (stored == 1), "C08.state.done_iff_marker");
    }
    prop!(stored_now(S_OP) == stored, "C08.state.queries_do_not_change_the_stored_value");
    prop!(model::n_events() == 0 && model::n_calls() == 0, "C08.state.queries_have_no_effects");
    end_checks(1);
}

// ------------------------------------------------------------------ schedule
#[kani::proof]
#[kani::unwind(34)]
pub fn c08_schedule() {
    let p = declare_all();
    let delay: u32 = kani::any();
    let seq = world().seq;

    let rid = schedule_operation(&p.e, &p.op, delay);

    prop!(rid == p.id, "C08.schedule.returns_the_operation_id");
    prop!(p.stored == 0, "C08.schedule.only_when_unset");
    prop!(p.min.present, "C08.schedule.needs_min_delay_configured");
    prop!(delay >= p.min.value, "C08.schedule.delay_at_least_min_delay");
    let want = seq as u64 + delay as u64;
    let want = if want > u32::MAX as u64 { u32::MAX } else { want as u32 };
    prop!(model::slot(S_OP).present && stored_now(S_OP) == want, "C08.schedule.stores_sequence_plus_delay_saturating");
    prop!(stored_now(S_OP) >= 2, "C08.schedule.ready_ledger_is_not_a_sentinel");
    prop!(stored_now(S_OP) >= seq, "C08.schedule.not_ready_before_now");
    if !p.pred_aliases_op {
        prop!(model::slots_equal(&model::slot(S_PRED), &p.s_pred), "C08.schedule.predecessor_untouched");
    }
    prop!(model::slots_equal(&model::slot(S_MIN), &p.s_min), "C08.schedule.min_delay_untouched");
    prop!(model::n_calls() == 0, "C08.schedule.invokes_nothing");
    let ev = OperationScheduled {
        id: p.id.clone(),
        target: p.op.target.clone(),
        function: p.op.function.clone(),
        args: p.op.args.clone(),
        predecessor: p.op.predecessor.clone(),
        salt: p.op.salt.clone(),
        delay,
    };
    prop!(
        model::n_events() == 1 && model::event_is(0, OperationScheduled::EVENT_ID, &ev.event_words()),
        "C08.schedule.emits_scheduled_event"
    );
    witness!(delay == p.min.value && delay > 0, "scheduled_with_exactly_min_delay");
    witness!(delay == 0, "scheduled_with_zero_delay");
    witness!(want == u32::MAX && delay < u32::MAX && seq < u32::MAX, "scheduled_saturating");
    witness!(p.op.args.len() == 2, "scheduled_two_args");
    witness!(p.pred_stored == 0 && !p.pred_aliases_op, "scheduled_with_unset_predecessor");
    end_checks(DECLARED);
}

// ------------------------------------------------------------------ execute
fn execute_post(p: &Pre, seq: u32) {
    prop!(p.stored >= 2 && p.stored <= seq, "C08.execute.only_when_ready");
    prop!(
        p.op.predecessor == zero_id(&p.e) || p.pred_stored == 1,
        "C08.execute.predecessor_absent_or_done"
    );
    prop!(model::slot(S_OP).present && stored_now(S_OP) == 1, "C08.execute.marks_done");
    if !p.pred_aliases_op {
        // reading the predecessor may extend its TTL; presence and value must not change
        prop!(
            model::slot(S_PRED).present == p.s_pred.present && stored_now(S_PRED) == p.pred_stored,
            "C08.execute.predecessor_value_untouched"
        );
    }
    prop!(model::slots_equal(&model::slot(S_MIN), &p.s_min), "C08.execute.min_delay_untouched");
    let ev = OperationExecuted {
        id: p.id.clone(),
        target: p.op.target.clone(),
        function: p.op.function.clone(),
        args: p.op.args.clone(),
        predecessor: p.op.predecessor.clone(),
        salt: p.op.salt.clone(),
    };
    prop!(
        model::n_events() == 1 && model::event_is(0, OperationExecuted::EVENT_ID, &ev.event_words()),
        "C08.execute.emits_executed_event"
    );
}

#[kani::proof]
#[kani::unwind(34)]
pub fn c08_execute() {
    let p = declare_all();
    let seq = world().seq;

    let _ret: Val = execute_operation(&p.e, &p.op);

    execute_post(&p, seq);
    prop!(
        model::n_calls() == 1 && model::call_count(&p.op.target, p.op.function.w, &args_buf(&p.op.args)) == 1,
        "C08.execute.target_invoked_exactly_once_with_the_operation"
    );
    prop!(!model::call_at(0).failed, "C08.execute.returns_only_if_target_succeeded");
    witness!(p.stored == seq, "executed_at_first_ready_ledger");
    witness!(p.op.predecessor == zero_id(&p.e), "executed_without_predecessor");
    witness!(p.op.predecessor != zero_id(&p.e), "executed_after_done_predecessor");
    witness!(p.op.args.len() == 2, "executed_two_args");
    witness!(p.op.target == p.e.current_contract_address(), "executed_on_any_target");
    end_checks(DECLARED);
}

#[kani::proof]
#[kani::unwind(34)]
pub fn c08_set_execute() {
    let p = declare_all();
    let seq = world().seq;

    set_execute_operation(&p.e, &p.op);

    execute_post(&p, seq);
    prop!(model::n_calls() == 0, "C08.set_execute.invokes_nothing");
    witness!(p.stored == seq, "marked_at_first_ready_ledger");
    witness!(p.stored == 2, "marked_long_after_ready");
    witness!(p.op.predecessor != zero_id(&p.e), "marked_after_done_predecessor");
    end_checks(DECLARED);
}

// ------------------------------------------------------------------ cancel
#[kani::proof]
#[kani::unwind(34)]
pub fn c08_cancel() {
    let e = setup();
    let id = <BytesN<32> as Arb>::arb();
    let stored = declare_op_slot(S_OP, &id);
    let other = <BytesN<32> as Arb>::arb();
    kani::assume(other != id);
    let _ = declare_op_slot(S_PRED, &other);
    let s_other = model::slot(S_PRED);
    let seq = world().seq;

    cancel_operation(&e, &id);

    prop!(stored >= 2, "C08.cancel.only_when_waiting_or_ready");
    prop!(!model::slot_live(S_OP), "C08.cancel.operation_becomes_unset");
    prop!(model::slots_equal(&model::slot(S_PRED), &s_other), "C08.cancel.other_operations_untouched");
    prop!(model::n_calls() == 0, "C08.cancel.invokes_nothing");
    let ev = OperationCancelled { id: id.clone() };
    prop!(
        model::n_events() == 1 && model::event_is(0, OperationCancelled::EVENT_ID, &ev.event_words()),
        "C08.cancel.emits_cancelled_event"
    );
    witness!(stored > seq, "cancelled_waiting");
    witness!(stored <= seq, "cancelled_ready");
    end_checks(2);
    // a cancelled id reads as Unset again
    prop!(get_operation_state(&e, &id) == OperationState::Unset, "C08.cancel.state_reads_unset_afterwards");
}

// ------------------------------------------------------------------ Done is absorbing
#[kani::proof]
#[kani::unwind(34)]
pub fn c08_done_is_absorbing() {
    let p = declare_all();
    kani::assume(p.stored == 1);
    let which: u8 = kani::any();
    kani::assume(which < 4);
    witness!(which == 3 && p.min.present && p.op.predecessor == zero_id(&p.e), "done_state_declared");
    if which == 0 {
        let delay: u32 = kani::any();
        let _ = schedule_operation(&p.e, &p.op, delay);
        prop!(false, "C08.done.never_rescheduled");
    } else if which == 1 {
        let _ = execute_operation(&p.e, &p.op);
        prop!(false, "C08.done.never_reexecuted");
    } else if which == 2 {
        set_execute_operation(&p.e, &p.op);
        prop!(false, "C08.done.never_remarked");
    } else {
        cancel_operation(&p.e, &p.id);
        prop!(false, "C08.done.never_cancelled");
    }
}

// ------------------------------------------------------------------ hash_operation
#[kani::proof]
#[kani::unwind(34)]
pub fn c08_hash_is_function_of_the_five_fields() {
    let e = setup();
    let a = arb_operation();
    let b = arb_operation();
    let ida = hash_operation(&e, &a);
    let idb = hash_operation(&e, &b);
    let same = a.target == b.target
        && a.function == b.function
        && a.args == b.args
        && a.predecessor == b.predecessor
        && a.salt == b.salt;
    prop!(!same || ida == idb, "C08.hash.equal_fields_give_equal_id");
    prop!(same || ida != idb, "C08.hash.any_field_difference_gives_different_id");
    witness!(same, "hash_same_operation");
    witness!(!same && a.target == b.target && a.function == b.function && a.args == b.args && a.predecessor == b.predecessor, "hash_only_salt_differs");
    witness!(!same && a.function == b.function && a.args == b.args && a.predecessor == b.predecessor && a.salt == b.salt, "hash_only_target_differs");
    witness!(!same && a.target == b.target && a.function == b.function && a.predecessor == b.predecessor && a.salt == b.salt && a.args.len() == b.args.len(), "hash_only_an_argument_differs");
    witness!(!same && a.target == b.target && a.function == b.function && a.predecessor == b.predecessor && a.salt == b.salt && a.args.len() != b.args.len(), "hash_only_argument_count_differs");
    prop!(model::n_events() == 0 && model::n_calls() == 0, "C08.hash.no_effects");
    end_checks(0);
}

// ------------------------------------------------------------------ min delay
#[kani::proof]
#[kani::unwind(34)]
pub fn c08_min_delay() {
    let e = setup();
    let id = <BytesN<32> as Arb>::arb();
    let _ = declare_op_slot(S_OP, &id);
    let s_op = model::slot(S_OP);
    let min = declare_min_delay(1);
    let new: u32 = kani::any();
    let set: bool = kani::any();
    if set {
        set_min_delay(&e, new);
        prop!(model::slot(1).present && model::slot_val::<u32>(1) == new, "C08.min_delay.set_stores_new_value");
        let ev = MinDelayChanged { old_delay: if min.present { min.value } else { 0 }, new_delay: new };
        prop!(
            model::n_events() == 1 && model::event_is(0, MinDelayChanged::EVENT_ID, &ev.event_words()),
            "C08.min_delay.set_emits_change_event"
        );
        prop!(get_min_delay(&e) == new, "C08.min_delay.get_returns_what_was_set");
    } else {
        let got = get_min_delay(&e);
        prop!(min.present && got == min.value, "C08.min_delay.get_returns_stored_value_or_fails");
        prop!(model::n_events() == 0, "C08.min_delay.get_has_no_effects");
    }
    prop!(model::slots_equal(&model::slot(S_OP), &s_op), "C08.min_delay.scheduled_operations_untouched");
    witness!(set && !min.present, "first_configuration");
    witness!(set && min.present && new < min.value, "delay_lowered");
    witness!(!set, "getter_returns");
    end_checks(2);
}
