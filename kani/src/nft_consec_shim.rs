//! Name-resolution shim for `nft_consec::consec_src` (a `#[path]` include of the library's own
//! consecutive/storage.rs, compiled a second time inside this crate so that its `pub(crate)` scan functions can be
//! called): that file imports `crate::non_fungible::{…}`. Everything is the library's own item, re-exported; only
//! the two paths that are private in the library are spelled out (`extensions::consecutive`, and the trait
//! `overrides::BurnableOverrides`, which is not nameable from outside: a same-shape local trait; no harness uses it).
pub use stellar_tokens::non_fungible::*;
pub mod extensions {
    pub mod consecutive {
        pub use stellar_tokens::non_fungible::consecutive::emit_consecutive_mint;
    }
}
pub mod overrides {
    use soroban_sdk::{Address, Env};
    pub trait BurnableOverrides {
        fn burn(e: &Env, from: &Address, token_id: u32);
        fn burn_from(e: &Env, spender: &Address, from: &Address, token_id: u32);
    }
}
