//! C17: Merkle proof verification (`crypto::merkle::Verifier`, `hashable::{hash_pair, commutative_hash_pair}`,
//! the Keccak-256 / SHA-256 `Hasher`s) and the single-claim distributor (`merkle_distributor::storage`).
//!
//! Hashes are the model's injective oracle (`model::hash_oracle`): equal (kind, length, bytes) -> equal digest; a
//! new input gets a digest different from every digest handed out before. Trees are built IN THE HARNESS with an
//! independent reference (`raw` = the host function on the concatenation, order decided on the flat big-endian
//! words), never with the library's own pair hashing.
//!
//! Two kinds of leaves:
//!  * "free" leaves: four arbitrary 32-byte values (possibly equal, possibly equal to an internal node: the
//!    adversarial reading) -- used where the claim holds for ANY leaf values (honest proofs, uniqueness of
//!    full-depth proofs, short proofs, truncation, extension, other root);
//!  * "hashed" leaves: `leaf_i = H(d_i)` for arbitrary 32-byte leaf data `d_i` (what the distributor does with the
//!    XDR of the leaf) -- the leaf pre-images are not 64 bytes long, which is exactly the upstream caveat, and
//!    the oracle then keeps leaves and internal nodes apart without any extra assumption (reordering, wrong
//!    index, the unbalanced 3-leaf shape).
use soroban_sdk::model::{self, world, CAP};
use soroban_sdk::{contracttype, Address, Arb, Bytes, BytesN, Env, Val, Vec};
use stellar_contract_utils::crypto::hashable::{commutative_hash_pair, hash_pair};
use stellar_contract_utils::crypto::hasher::Hasher;
use stellar_contract_utils::crypto::keccak::Keccak256;
use stellar_contract_utils::crypto::merkle::Verifier;
use stellar_contract_utils::crypto::sha256::Sha256;
use stellar_contract_utils::merkle_distributor::{
    IndexableLeaf, MerkleDistributor, MerkleDistributorStorageKey, SetClaimed, SetRoot,
};

use crate::util::*;

pub type B32 = BytesN<32>;

/// the raw host hash behind a library `Hasher`
pub trait Kind {
    type H: Hasher<Output = B32>;
    fn raw(e: &Env, data: &Bytes) -> B32;
}
pub struct KK;
impl Kind for KK {
    type H = Keccak256;
    fn raw(e: &Env, data: &Bytes) -> B32 {
        e.crypto().keccak256(data).to_bytes()
    }
}
pub struct KS;
impl Kind for KS {
    type H = Sha256;
    fn raw(e: &Env, data: &Bytes) -> B32 {
        e.crypto().sha256(data).to_bytes()
    }
}

pub fn cat(a: &B32, b: &B32) -> Bytes {
    let mut x: Bytes = a.into();
    let y: Bytes = b.into();
    x.append(&y);
    x
}
/// reference: positional node = H(a || b)
pub fn node_pos<X: Kind>(e: &Env, a: &B32, b: &B32) -> B32 {
    X::raw(e, &cat(a, b))
}
/// reference: sorted node = H(min || max), order = lexicographic order of the bytes (the model's `Ord` of `BytesN`)
pub fn node_sorted<X: Kind>(e: &Env, a: &B32, b: &B32) -> B32 {
    // (one call site on the ordered pair)
    let (lo, hi) = if *b < *a { (b, a) } else { (a, b) };
    node_pos::<X>(e, lo, hi)
}
pub fn arb32() -> B32 {
    <B32 as Arb>::arb()
}
/// leaf = H(32 arbitrary bytes of leaf data)
pub fn hashed_leaf<X: Kind>(e: &Env) -> (B32, B32) {
    let d = arb32();
    let db: Bytes = (&d).into();
    (d.clone(), X::raw(e, &db))
}

pub struct Tree4 {
    pub l: [B32; 4],
    pub n01: B32,
    pub n23: B32,
    pub root: B32,
}
pub fn build4<X: Kind>(e: &Env, l: [B32; 4], sorted: bool) -> Tree4 {
    let (n01, n23) = if sorted {
        (node_sorted::<X>(e, &l[0], &l[1]), node_sorted::<X>(e, &l[2], &l[3]))
    } else {
        (node_pos::<X>(e, &l[0], &l[1]), node_pos::<X>(e, &l[2], &l[3]))
    };
    let root = if sorted { node_sorted::<X>(e, &n01, &n23) } else { node_pos::<X>(e, &n01, &n23) };
    Tree4 { l, n01, n23, root }
}
impl Tree4 {
    pub fn leaf(&self, i: u32) -> B32 {
        match i {
            0 => self.l[0].clone(),
            1 => self.l[1].clone(),
            2 => self.l[2].clone(),
            _ => self.l[3].clone(),
        }
    }
    pub fn sibling(&self, i: u32) -> B32 {
        self.leaf(i ^ 1)
    }
    pub fn uncle(&self, i: u32) -> B32 {
        if i < 2 {
            self.n23.clone()
        } else {
            self.n01.clone()
        }
    }
    /// (x, p0, p1) is (leaf i, its sibling, its uncle) for some i
    pub fn is_honest_triple(&self, x: &B32, p0: &B32, p1: &B32) -> bool {
        let mut r = false;
        let mut i = 0u32;
        while i < 4 {
            r |= *x == self.leaf(i) && *p0 == self.sibling(i) && *p1 == self.uncle(i);
            i += 1;
        }
        r
    }
}
/// depth 3: 8 leaves, 4 + 2 internal nodes, root
pub struct Tree8 {
    pub l: [B32; 8],
    pub m: [B32; 4],
    pub n: [B32; 2],
    pub root: B32,
}
pub fn build8<X: Kind>(e: &Env, l: [B32; 8], sorted: bool) -> Tree8 {
    let f = |a: &B32, b: &B32| if sorted { node_sorted::<X>(e, a, b) } else { node_pos::<X>(e, a, b) };
    let m = [f(&l[0], &l[1]), f(&l[2], &l[3]), f(&l[4], &l[5]), f(&l[6], &l[7])];
    let n = [f(&m[0], &m[1]), f(&m[2], &m[3])];
    let root = f(&n[0], &n[1]);
    Tree8 { l, m, n, root }
}
fn pick<const N: usize>(a: &[B32; N], i: u32) -> B32 {
    let mut r = a[0].clone();
    let mut k = 1;
    while k < N {
        if i == k as u32 {
            r = a[k].clone();
        }
        k += 1;
    }
    r
}
impl Tree8 {
    pub fn leaf(&self, i: u32) -> B32 {
        pick(&self.l, i)
    }
    pub fn sibling(&self, i: u32) -> B32 {
        pick(&self.l, i ^ 1)
    }
    pub fn uncle(&self, i: u32) -> B32 {
        pick(&self.m, (i / 2) ^ 1)
    }
    pub fn great_uncle(&self, i: u32) -> B32 {
        pick(&self.n, (i / 4) ^ 1)
    }
    pub fn is_honest(&self, i: u32, x: &B32, p0: &B32, p1: &B32, p2: &B32) -> bool {
        *x == self.leaf(i) && *p0 == self.sibling(i) && *p1 == self.uncle(i) && *p2 == self.great_uncle(i)
    }
    pub fn is_honest_any(&self, x: &B32, p0: &B32, p1: &B32, p2: &B32) -> bool {
        let mut r = false;
        let mut i = 0u32;
        while i < 8 {
            r |= self.is_honest(i, x, p0, p1, p2);
            i += 1;
        }
        r
    }
}
pub fn free_leaves8() -> [B32; 8] {
    [arb32(), arb32(), arb32(), arb32(), arb32(), arb32(), arb32(), arb32()]
}
pub fn free_leaves() -> [B32; 4] {
    [arb32(), arb32(), arb32(), arb32()]
}
pub fn hashed_leaves<X: Kind>(e: &Env) -> [B32; 4] {
    let (d0, l0) = hashed_leaf::<X>(e);
    let (d1, l1) = hashed_leaf::<X>(e);
    let (d2, l2) = hashed_leaf::<X>(e);
    let (d3, l3) = hashed_leaf::<X>(e);
    // pairwise distinct leaf data (hence, by the oracle, pairwise distinct leaves)
    kani::assume(d0 != d1 && d0 != d2 && d0 != d3 && d1 != d2 && d1 != d3 && d2 != d3);
    [l0, l1, l2, l3]
}

/// reference fold of a proof of symbolic length
pub fn ref_fold<X: Kind>(e: &Env, proof: &Vec<B32>, leaf: &B32, sorted: bool, index: u32) -> B32 {
    let mut h = leaf.clone();
    let mut idx = index;
    let mut k = 0;
    while k < CAP {
        if (k as u32) < proof.len() {
            let p = proof.get_unchecked(k as u32);
            h = if sorted {
                node_sorted::<X>(e, &h, &p)
            } else if idx % 2 == 0 {
                node_pos::<X>(e, &h, &p)
            } else {
                node_pos::<X>(e, &p, &h)
            };
            idx /= 2;
        }
        k += 1;
    }
    h
}

#[contracttype]
#[derive(Clone)]
pub struct Leaf {
    pub index: u32,
    pub account: Address,
    pub amount: i128,
}
impl IndexableLeaf for Leaf {
    fn index(&self) -> u32 {
        self.index
    }
}

const S_ROOT: usize = 0;
const S_CLAIMED: usize = 1;
const S_OTHER: usize = 2;

pub struct DistPre {
    pub root_present: bool,
    pub root: B32,
    pub claimed_pre: bool,
    pub other: u32,
}
/// arbitrary distributor state: Root set or not, Claimed(index) absent / false / true, Claimed(other) likewise
pub fn declare_dist(index: u32) -> DistPre {
    let root_present: bool = kani::any();
    let root = arb32();
    model::declare_val(S_ROOT, 2, &MerkleDistributorStorageKey::Root, root_present, &root, 0);
    let cp: bool = kani::any();
    let cv: bool = kani::any();
    let lu: u32 = kani::any();
    model::declare_val(S_CLAIMED, 0, &MerkleDistributorStorageKey::Claimed(index), cp, &cv, lu);
    let other: u32 = kani::any();
    kani::assume(other != index);
    let op: bool = kani::any();
    let ov: bool = kani::any();
    let olu: u32 = kani::any();
    model::declare_val(S_OTHER, 0, &MerkleDistributorStorageKey::Claimed(other), op, &ov, olu);
    DistPre { root_present, root, claimed_pre: cp && cv, other }
}
pub fn claimed_now(slot: usize) -> bool {
    model::slot(slot).present && model::slot_val::<bool>(slot)
}
pub fn arb_leaf() -> Leaf {
    Leaf { index: kani::any(), account: addr_below(4), amount: kani::any() }
}
pub fn arb_proof(max: u32) -> Vec<B32> {
    let p = <Vec<B32> as Arb>::arb();
    kani::assume(p.len() <= max);
    p
}

macro_rules! merkle_family {
    ($modname:ident, $X:ty, $tag:literal) => {
        pub mod $modname {
            use super::*;
            type X = $X;
            type H = <$X as Kind>::H;

            // ------------------------------------------------------------ pair hashing
            /// hash_pair = H(a || b); commutative_hash_pair = H(min || max), symmetric
            #[kani::proof]
            #[kani::unwind(14)]
            pub fn pair_hashing() {
                let e = Env::default();
                let a = arb32();
                let b = arb32();
                world().must_succeed = true;
                let hp = hash_pair(&a, &b, H::new(&e));
                let c1 = commutative_hash_pair(&a, &b, H::new(&e));
                let c2 = commutative_hash_pair(&b, &a, H::new(&e));
                world().must_succeed = false;
                prop!(hp == node_pos::<X>(&e, &a, &b), concat!("C17.", $tag, ".hash_pair.is_hash_of_concatenation"));
                prop!(c1 == node_sorted::<X>(&e, &a, &b), concat!("C17.", $tag, ".commutative_hash_pair.is_hash_of_sorted_concatenation"));
                prop!(c1 == c2, concat!("C17.", $tag, ".commutative_hash_pair.symmetric"));
                if a != b {
                    prop!(hp != hash_pair(&b, &a, H::new(&e)), concat!("C17.", $tag, ".hash_pair.order_matters"));
                }
                witness!(a < b, "a_below_b");
                witness!(a > b, "a_above_b");
                witness!(a == b, "a_equals_b");
                kani::assert(!world().overflow, "MODEL-OVERFLOW: flag set");
            }

            // ------------------------------------------------------------ honest proofs (must succeed)
            #[kani::proof]
            #[kani::unwind(14)]
            pub fn honest4_sorted() {
                let e = Env::default();
                let t = build4::<X>(&e, free_leaves(), true);
                let i: u32 = kani::any();
                kani::assume(i < 4);
                let proof = Vec::from_array(&e, [t.sibling(i), t.uncle(i)]);
                world().must_succeed = true;
                let r = Verifier::<H>::verify(&e, proof, t.root.clone(), t.leaf(i));
                world().must_succeed = false;
                prop!(r, concat!("C17.", $tag, ".verify.honest_proof_accepted"));
                witness!(i == 0, "leaf0");
                witness!(i == 3, "leaf3");
                witness!(t.l[0] > t.l[1] && t.n01 > t.n23, "both_levels_swapped");
                kani::assert(!world().overflow, "MODEL-OVERFLOW: flag set");
            }
            #[kani::proof]
            #[kani::unwind(14)]
            pub fn honest4_indexed() {
                let e = Env::default();
                let t = build4::<X>(&e, free_leaves(), false);
                let i: u32 = kani::any();
                kani::assume(i < 4);
                let proof = Vec::from_array(&e, [t.sibling(i), t.uncle(i)]);
                world().must_succeed = true;
                let r = Verifier::<H>::verify_with_index(&e, proof, t.root.clone(), t.leaf(i), i);
                world().must_succeed = false;
                prop!(r, concat!("C17.", $tag, ".verify_with_index.honest_proof_accepted"));
                witness!(i == 0, "leaf0");
                witness!(i == 1, "leaf1");
                witness!(i == 2, "leaf2");
                witness!(i == 3, "leaf3");
                kani::assert(!world().overflow, "MODEL-OVERFLOW: flag set");
            }

            // ------------------------------------------------------------ soundness / uniqueness, full depth
            /// ANY 2-element proof that verifies ANY value: the value is one of the four leaves and the proof
            /// is exactly that leaf's honest proof (so every altered leaf / altered proof element is rejected)
            #[kani::proof]
            #[kani::unwind(14)]
            pub fn sound4_sorted() {
                let e = Env::default();
                let t = build4::<X>(&e, free_leaves(), true);
                let x = arb32();
                let p0 = arb32();
                let p1 = arb32();
                let proof = Vec::from_array(&e, [p0.clone(), p1.clone()]);
                let r = Verifier::<H>::verify(&e, proof, t.root.clone(), x.clone());
                if r {
                    prop!(
                        x == t.l[0] || x == t.l[1] || x == t.l[2] || x == t.l[3],
                        concat!("C17.", $tag, ".verify.full_depth_proof_verifies_only_a_leaf")
                    );
                    prop!(t.is_honest_triple(&x, &p0, &p1), concat!("C17.", $tag, ".verify.full_depth_proof_is_the_honest_one"));
                }
                witness!(r, "some_proof_verifies");
                witness!(!r, "some_proof_fails");
                kani::assert(!world().overflow, "MODEL-OVERFLOW: flag set");
            }
            #[kani::proof]
            #[kani::unwind(14)]
            pub fn sound4_indexed() {
                let e = Env::default();
                let t = build4::<X>(&e, free_leaves(), false);
                let x = arb32();
                let p0 = arb32();
                let p1 = arb32();
                let idx: u32 = kani::any();
                let proof = Vec::from_array(&e, [p0.clone(), p1.clone()]);
                let r = Verifier::<H>::verify_with_index(&e, proof, t.root.clone(), x.clone(), idx);
                prop!(idx < 4, concat!("C17.", $tag, ".verify_with_index.index_below_two_pow_len"));
                if r {
                    prop!(
                        x == t.leaf(idx) && p0 == t.sibling(idx) && p1 == t.uncle(idx),
                        concat!("C17.", $tag, ".verify_with_index.full_depth_proof_verifies_only_the_leaf_at_index")
                    );
                }
                witness!(r, "some_proof_verifies");
                witness!(!r, "some_proof_fails");
                kani::assert(!world().overflow, "MODEL-OVERFLOW: flag set");
            }

            // ------------------------------------------------------------ shorter proofs: internal nodes only
            /// a 1-element proof verifies exactly the two children of the root, the empty proof only the root
            #[kani::proof]
            #[kani::unwind(14)]
            pub fn short_sorted() {
                let e = Env::default();
                let t = build4::<X>(&e, free_leaves(), true);
                let x = arb32();
                let proof = arb_proof(1);
                let n = proof.len();
                let p = proof.get(0);
                let r = Verifier::<H>::verify(&e, proof, t.root.clone(), x.clone());
                if r {
                    if n == 0 {
                        prop!(x == t.root, concat!("C17.", $tag, ".verify.empty_proof_verifies_only_the_root"));
                    } else {
                        let p = p.unwrap();
                        prop!(
                            (x == t.n01 && p == t.n23) || (x == t.n23 && p == t.n01),
                            concat!("C17.", $tag, ".verify.one_element_proof_verifies_only_a_child_of_the_root")
                        );
                    }
                }
                witness!(r && n == 0, "root_itself");
                witness!(r && n == 1, "internal_node");
                kani::assert(!world().overflow, "MODEL-OVERFLOW: flag set");
            }
            #[kani::proof]
            #[kani::unwind(14)]
            pub fn short_indexed() {
                let e = Env::default();
                let t = build4::<X>(&e, free_leaves(), false);
                let x = arb32();
                let idx: u32 = kani::any();
                let proof = arb_proof(1);
                let n = proof.len();
                let p = proof.get(0);
                let r = Verifier::<H>::verify_with_index(&e, proof, t.root.clone(), x.clone(), idx);
                prop!(idx < (1u32 << n), concat!("C17.", $tag, ".verify_with_index.index_below_two_pow_len"));
                if r {
                    if n == 0 {
                        prop!(x == t.root, concat!("C17.", $tag, ".verify_with_index.empty_proof_verifies_only_the_root"));
                    } else {
                        let p = p.unwrap();
                        prop!(
                            (idx == 0 && x == t.n01 && p == t.n23) || (idx == 1 && x == t.n23 && p == t.n01),
                            concat!("C17.", $tag, ".verify_with_index.one_element_proof_verifies_only_a_child_of_the_root")
                        );
                    }
                }
                witness!(r && n == 0, "root_itself");
                witness!(r && n == 1 && idx == 1, "internal_node_right");
                kani::assert(!world().overflow, "MODEL-OVERFLOW: flag set");
            }

            // ------------------------------------------------------------ corrupted honest proofs
            /// hashed leaves: drop the last element / append any element / any other root: rejected.
            /// (With FREE leaf values the oracle admits a hash cycle `l0 = H(l0 || l1)`, `l1 = n23`, which makes
            /// root = n01 and lets the truncated proof pass: not a property of the code but of leaf values that
            /// are chosen as a function of their own hash; hashed leaves exclude it.)
            #[kani::proof]
            #[kani::unwind(14)]
            pub fn corrupt_len_root_sorted() {
                let e = Env::default();
                let t = build4::<X>(&e, hashed_leaves::<X>(&e), true);
                let i: u32 = kani::any();
                kani::assume(i < 4);
                let kind: u8 = kani::any();
                kani::assume(kind < 3);
                let z = arb32();
                let (proof, root) = match kind {
                    0 => (Vec::from_array(&e, [t.sibling(i)]), t.root.clone()),
                    1 => (Vec::from_array(&e, [t.sibling(i), t.uncle(i), z.clone()]), t.root.clone()),
                    _ => (Vec::from_array(&e, [t.sibling(i), t.uncle(i)]), z.clone()),
                };
                kani::assume(kind != 2 || z != t.root);
                let r = Verifier::<H>::verify(&e, proof, root, t.leaf(i));
                if kind == 0 {
                    prop!(!r, concat!("C17.", $tag, ".verify.truncated_proof_rejected"));
                } else if kind == 1 {
                    prop!(!r, concat!("C17.", $tag, ".verify.extended_proof_rejected"));
                } else {
                    prop!(!r, concat!("C17.", $tag, ".verify.other_root_rejected"));
                }
                witness!(kind == 0, "truncated");
                witness!(kind == 1, "extended");
                witness!(kind == 2, "other_root");
                kani::assert(!world().overflow, "MODEL-OVERFLOW: flag set");
            }
            #[kani::proof]
            #[kani::unwind(14)]
            pub fn corrupt_len_root_indexed() {
                let e = Env::default();
                let t = build4::<X>(&e, hashed_leaves::<X>(&e), false);
                let i: u32 = kani::any();
                kani::assume(i < 4);
                let kind: u8 = kani::any();
                kani::assume(kind < 3);
                let z = arb32();
                let (proof, root) = match kind {
                    0 => (Vec::from_array(&e, [t.sibling(i)]), t.root.clone()),
                    1 => (Vec::from_array(&e, [t.sibling(i), t.uncle(i), z.clone()]), t.root.clone()),
                    _ => (Vec::from_array(&e, [t.sibling(i), t.uncle(i)]), z.clone()),
                };
                kani::assume(kind != 2 || z != t.root);
                // the index a caller of the shortened proof could pass: any
                let idx: u32 = if kind == 0 { kani::any() } else { i };
                let r = Verifier::<H>::verify_with_index(&e, proof, root, t.leaf(i), idx);
                if kind == 0 {
                    prop!(!r, concat!("C17.", $tag, ".verify_with_index.truncated_proof_rejected"));
                } else if kind == 1 {
                    prop!(!r, concat!("C17.", $tag, ".verify_with_index.extended_proof_rejected"));
                } else {
                    prop!(!r, concat!("C17.", $tag, ".verify_with_index.other_root_rejected"));
                }
                witness!(kind == 0, "truncated");
                witness!(kind == 1, "extended");
                witness!(kind == 2, "other_root");
                kani::assert(!world().overflow, "MODEL-OVERFLOW: flag set");
            }
            /// hashed, pairwise distinct leaves: the two proof elements swapped -> rejected
            #[kani::proof]
            #[kani::unwind(14)]
            pub fn corrupt_reorder_sorted() {
                let e = Env::default();
                let t = build4::<X>(&e, hashed_leaves::<X>(&e), true);
                let i: u32 = kani::any();
                kani::assume(i < 4);
                let proof = Vec::from_array(&e, [t.uncle(i), t.sibling(i)]);
                let r = Verifier::<H>::verify(&e, proof, t.root.clone(), t.leaf(i));
                prop!(!r, concat!("C17.", $tag, ".verify.reordered_proof_rejected"));
                witness!(i == 2, "leaf2");
                kani::assert(!world().overflow, "MODEL-OVERFLOW: flag set");
            }
            /// hashed, pairwise distinct leaves: swapped proof elements (any index), or the honest proof
            /// with any other index -> rejected or trapped
            #[kani::proof]
            #[kani::unwind(14)]
            pub fn corrupt_reorder_index_indexed() {
                let e = Env::default();
                let t = build4::<X>(&e, hashed_leaves::<X>(&e), false);
                let i: u32 = kani::any();
                kani::assume(i < 4);
                let idx: u32 = kani::any();
                let swap: bool = kani::any();
                kani::assume(swap || idx != i);
                let proof = if swap {
                    Vec::from_array(&e, [t.uncle(i), t.sibling(i)])
                } else {
                    Vec::from_array(&e, [t.sibling(i), t.uncle(i)])
                };
                let r = Verifier::<H>::verify_with_index(&e, proof, t.root.clone(), t.leaf(i), idx);
                if swap {
                    prop!(!r, concat!("C17.", $tag, ".verify_with_index.reordered_proof_rejected"));
                } else {
                    prop!(!r, concat!("C17.", $tag, ".verify_with_index.wrong_index_rejected"));
                }
                witness!(swap && idx == i, "reordered");
                witness!(!swap && idx == (i ^ 1), "neighbour_index");
                witness!(!swap && idx == (i ^ 2), "cousin_index");
                kani::assert(!world().overflow, "MODEL-OVERFLOW: flag set");
            }

            // ------------------------------------------------------------ guards of verify_with_index
            /// symbolic proof length 0..=CAP and symbolic index: returns only if index < 2^len
            /// (the `len >= 32` guard cannot be reached with CAP = 4 elements)
            #[kani::proof]
            #[kani::unwind(14)]
            pub fn index_guards() {
                let e = Env::default();
                let proof = arb_proof(CAP as u32);
                let n = proof.len();
                let idx: u32 = kani::any();
                let root = arb32();
                let leaf = arb32();
                let r = Verifier::<H>::verify_with_index(&e, proof.clone(), root.clone(), leaf.clone(), idx);
                prop!(n < 32, concat!("C17.", $tag, ".verify_with_index.proof_shorter_than_32"));
                prop!((idx as u64) < (1u64 << n), concat!("C17.", $tag, ".verify_with_index.index_below_two_pow_len"));
                witness!(n == 0, "len0");
                witness!(n == CAP as u32 && idx == (1u32 << n) - 1, "len_cap_last_index");
                witness!(r && n == 3, "verifies_len3");
                kani::assert(!world().overflow, "MODEL-OVERFLOW: flag set");
            }
            /// positional form, symbolic proof length 0..=CAP: result = (positional fold == root)
            #[kani::proof]
            #[kani::unwind(14)]
            pub fn verify_with_index_is_fold() {
                let e = Env::default();
                let proof = arb_proof(CAP as u32);
                let n = proof.len();
                let idx: u32 = kani::any();
                let root = arb32();
                let leaf = arb32();
                let r = Verifier::<H>::verify_with_index(&e, proof.clone(), root.clone(), leaf.clone(), idx);
                prop!(
                    r == (ref_fold::<X>(&e, &proof, &leaf, false, idx) == root),
                    concat!("C17.", $tag, ".verify_with_index.result_is_positional_fold_equals_root")
                );
                witness!(r && n == CAP as u32, "verifies_len_cap");
                witness!(!r && n == 1, "fails_len1");
                kani::assert(!world().overflow, "MODEL-OVERFLOW: flag set");
            }
            /// sorted form, symbolic proof length 0..=CAP: result = (sorted fold == root), never traps
            #[kani::proof]
            #[kani::unwind(14)]
            pub fn verify_is_fold() {
                let e = Env::default();
                let proof = arb_proof(CAP as u32);
                let n = proof.len();
                let root = arb32();
                let leaf = arb32();
                world().must_succeed = true;
                let r = Verifier::<H>::verify(&e, proof.clone(), root.clone(), leaf.clone());
                world().must_succeed = false;
                prop!(
                    r == (ref_fold::<X>(&e, &proof, &leaf, true, 0) == root),
                    concat!("C17.", $tag, ".verify.result_is_sorted_fold_equals_root")
                );
                witness!(r && n == CAP as u32, "verifies_len_cap");
                witness!(!r && n == 0, "fails_len0");
                kani::assert(!world().overflow, "MODEL-OVERFLOW: flag set");
            }

            // ------------------------------------------------------------ depth 3 (8 leaves; profile with NH = 24)
            #[kani::proof]
            #[kani::unwind(26)]
            pub fn honest8() {
                let e = Env::default();
                let sorted: bool = kani::any();
                let t = build8::<X>(&e, free_leaves8(), sorted);
                let i: u32 = kani::any();
                kani::assume(i < 8);
                let proof = Vec::from_array(&e, [t.sibling(i), t.uncle(i), t.great_uncle(i)]);
                world().must_succeed = true;
                let r = if sorted {
                    Verifier::<H>::verify(&e, proof, t.root.clone(), t.leaf(i))
                } else {
                    Verifier::<H>::verify_with_index(&e, proof, t.root.clone(), t.leaf(i), i)
                };
                world().must_succeed = false;
                if sorted {
                    prop!(r, concat!("C17.", $tag, ".verify.depth3.honest_proof_accepted"));
                } else {
                    prop!(r, concat!("C17.", $tag, ".verify_with_index.depth3.honest_proof_accepted"));
                }
                witness!(sorted && i == 5, "sorted_leaf5");
                witness!(!sorted && i == 6, "indexed_leaf6");
                kani::assert(!world().overflow, "MODEL-OVERFLOW: flag set");
            }
            #[kani::proof]
            #[kani::unwind(26)]
            pub fn sound8_sorted() {
                let e = Env::default();
                let t = build8::<X>(&e, free_leaves8(), true);
                let x = arb32();
                let p0 = arb32();
                let p1 = arb32();
                let p2 = arb32();
                let proof = Vec::from_array(&e, [p0.clone(), p1.clone(), p2.clone()]);
                let r = Verifier::<H>::verify(&e, proof, t.root.clone(), x.clone());
                if r {
                    prop!(t.is_honest_any(&x, &p0, &p1, &p2), concat!("C17.", $tag, ".verify.depth3.full_depth_proof_is_the_honest_one"));
                }
                witness!(r, "some_proof_verifies");
                witness!(!r, "some_proof_fails");
                kani::assert(!world().overflow, "MODEL-OVERFLOW: flag set");
            }
            #[kani::proof]
            #[kani::unwind(26)]
            pub fn sound8_indexed() {
                let e = Env::default();
                let t = build8::<X>(&e, free_leaves8(), false);
                let x = arb32();
                let p0 = arb32();
                let p1 = arb32();
                let p2 = arb32();
                let idx: u32 = kani::any();
                let proof = Vec::from_array(&e, [p0.clone(), p1.clone(), p2.clone()]);
                let r = Verifier::<H>::verify_with_index(&e, proof, t.root.clone(), x.clone(), idx);
                prop!(idx < 8, concat!("C17.", $tag, ".verify_with_index.index_below_two_pow_len"));
                if r {
                    prop!(
                        t.is_honest(idx, &x, &p0, &p1, &p2),
                        concat!("C17.", $tag, ".verify_with_index.depth3.full_depth_proof_verifies_only_the_leaf_at_index")
                    );
                }
                witness!(r && idx == 6, "some_proof_verifies_at_6");
                witness!(!r, "some_proof_fails");
                kani::assert(!world().overflow, "MODEL-OVERFLOW: flag set");
            }

            // ------------------------------------------------------------ unbalanced 3-leaf tree
            /// root = N(N(l0, l1), l2), hashed pairwise distinct leaves; leaf 2 has a 1-element proof.
            /// honest proofs verify; whatever verifies with a proof of 1 or 2 elements is honest.
            #[kani::proof]
            #[kani::unwind(14)]
            pub fn tree3_sorted() {
                let e = Env::default();
                let (d0, l0) = hashed_leaf::<X>(&e);
                let (d1, l1) = hashed_leaf::<X>(&e);
                let (d2, l2) = hashed_leaf::<X>(&e);
                kani::assume(d0 != d1 && d0 != d2 && d1 != d2);
                let n01 = node_sorted::<X>(&e, &l0, &l1);
                let root = node_sorted::<X>(&e, &n01, &l2);
                // honest
                let i: u32 = kani::any();
                kani::assume(i < 3);
                let (leaf, hp) = match i {
                    0 => (l0.clone(), Vec::from_array(&e, [l1.clone(), l2.clone()])),
                    1 => (l1.clone(), Vec::from_array(&e, [l0.clone(), l2.clone()])),
                    _ => (l2.clone(), Vec::from_array(&e, [n01.clone()])),
                };
                prop!(Verifier::<H>::verify(&e, hp, root.clone(), leaf), concat!("C17.", $tag, ".verify.tree3.honest_proof_accepted"));
                // anything that verifies
                let x = arb32();
                let proof = arb_proof(2);
                kani::assume(proof.len() >= 1);
                let n = proof.len();
                let p0 = proof.get(0).unwrap();
                let p1 = proof.get(1);
                let r = Verifier::<H>::verify(&e, proof, root.clone(), x.clone());
                if r {
                    if n == 1 {
                        prop!(
                            (x == l2 && p0 == n01) || (x == n01 && p0 == l2),
                            concat!("C17.", $tag, ".verify.tree3.one_element_proof_verifies_only_a_child_of_the_root")
                        );
                    } else {
                        let p1 = p1.unwrap();
                        prop!(
                            p1 == l2 && ((x == l0 && p0 == l1) || (x == l1 && p0 == l0)),
                            concat!("C17.", $tag, ".verify.tree3.two_element_proof_verifies_only_a_deep_leaf_honestly")
                        );
                    }
                }
                witness!(r && n == 1 && x == l2, "shallow_leaf");
                witness!(r && n == 2, "deep_leaf");
                kani::assert(!world().overflow, "MODEL-OVERFLOW: flag set");
            }
            #[kani::proof]
            #[kani::unwind(14)]
            pub fn tree3_indexed() {
                let e = Env::default();
                let (d0, l0) = hashed_leaf::<X>(&e);
                let (d1, l1) = hashed_leaf::<X>(&e);
                let (d2, l2) = hashed_leaf::<X>(&e);
                kani::assume(d0 != d1 && d0 != d2 && d1 != d2);
                let n01 = node_pos::<X>(&e, &l0, &l1);
                let root = node_pos::<X>(&e, &n01, &l2);
                let i: u32 = kani::any();
                kani::assume(i < 3);
                // positions: leaf 0 -> index 0 (depth 2), leaf 1 -> index 1 (depth 2), leaf 2 -> index 1 (depth 1)
                let (leaf, hp, hidx) = match i {
                    0 => (l0.clone(), Vec::from_array(&e, [l1.clone(), l2.clone()]), 0u32),
                    1 => (l1.clone(), Vec::from_array(&e, [l0.clone(), l2.clone()]), 1u32),
                    _ => (l2.clone(), Vec::from_array(&e, [n01.clone()]), 1u32),
                };
                prop!(
                    Verifier::<H>::verify_with_index(&e, hp, root.clone(), leaf, hidx),
                    concat!("C17.", $tag, ".verify_with_index.tree3.honest_proof_accepted")
                );
                let x = arb32();
                let idx: u32 = kani::any();
                let proof = arb_proof(2);
                kani::assume(proof.len() >= 1);
                let n = proof.len();
                let p0 = proof.get(0).unwrap();
                let p1 = proof.get(1);
                let r = Verifier::<H>::verify_with_index(&e, proof, root.clone(), x.clone(), idx);
                if r {
                    if n == 1 {
                        prop!(
                            (idx == 1 && x == l2 && p0 == n01) || (idx == 0 && x == n01 && p0 == l2),
                            concat!("C17.", $tag, ".verify_with_index.tree3.one_element_proof_verifies_only_a_child_of_the_root")
                        );
                    } else {
                        let p1 = p1.unwrap();
                        prop!(
                            p1 == l2 && ((idx == 0 && x == l0 && p0 == l1) || (idx == 1 && x == l1 && p0 == l0)),
                            concat!("C17.", $tag, ".verify_with_index.tree3.two_element_proof_verifies_only_a_deep_leaf_honestly")
                        );
                    }
                }
                witness!(r && n == 1 && x == l2, "shallow_leaf");
                witness!(r && n == 2, "deep_leaf");
                kani::assert(!world().overflow, "MODEL-OVERFLOW: flag set");
            }

            // ------------------------------------------------------------ distributor
            fn claim(e: &Env, sorted: bool, leaf: Leaf, proof: Vec<B32>) {
                if sorted {
                    MerkleDistributor::<H>::verify_and_set_claimed(e, leaf, proof)
                } else {
                    MerkleDistributor::<H>::verify_with_index_and_set_claimed(e, leaf, proof)
                }
            }
            fn leaf_hash(e: &Env, leaf: &Leaf) -> B32 {
                use soroban_sdk::xdr::ToXdr;
                <X as Kind>::raw(e, &leaf.clone().to_xdr(e))
            }
            fn dist_claim(sorted: bool, fname: &'static str) {
                let _ = fname;
                setup_world();
                let e = Env::default();
                let leaf = arb_leaf();
                let pre = declare_dist(leaf.index);
                let other0 = model::slot(S_OTHER);
                let root0 = model::slot(S_ROOT);
                let proof = arb_proof(3);

                claim(&e, sorted, leaf.clone(), proof.clone());

                if sorted {
                    prop!(pre.root_present, concat!("C17.", $tag, ".verify_and_set_claimed.needs_root"));
                    prop!(!pre.claimed_pre, concat!("C17.", $tag, ".verify_and_set_claimed.index_was_unclaimed"));
                    prop!(
                        ref_fold::<X>(&e, &proof, &leaf_hash(&e, &leaf), true, 0) == pre.root,
                        concat!("C17.", $tag, ".verify_and_set_claimed.proof_verifies_against_stored_root")
                    );
                    prop!(claimed_now(S_CLAIMED), concat!("C17.", $tag, ".verify_and_set_claimed.index_now_claimed"));
                    prop!(
                        model::n_events() == 1
                            && model::event_is(0, SetClaimed::EVENT_ID, &SetClaimed { index: Val::from(leaf.index) }.event_words()),
                        concat!("C17.", $tag, ".verify_and_set_claimed.exactly_one_set_claimed_event")
                    );
                    prop!(
                        model::slots_equal(&model::slot(S_OTHER), &other0) && model::slots_equal(&model::slot(S_ROOT), &root0),
                        concat!("C17.", $tag, ".verify_and_set_claimed.other_indices_and_root_untouched")
                    );
                } else {
                    prop!(pre.root_present, concat!("C17.", $tag, ".verify_with_index_and_set_claimed.needs_root"));
                    prop!(!pre.claimed_pre, concat!("C17.", $tag, ".verify_with_index_and_set_claimed.index_was_unclaimed"));
                    prop!(
                        (leaf.index as u64) < (1u64 << proof.len())
                            && ref_fold::<X>(&e, &proof, &leaf_hash(&e, &leaf), false, leaf.index) == pre.root,
                        concat!("C17.", $tag, ".verify_with_index_and_set_claimed.proof_verifies_against_stored_root")
                    );
                    prop!(claimed_now(S_CLAIMED), concat!("C17.", $tag, ".verify_with_index_and_set_claimed.index_now_claimed"));
                    prop!(
                        model::n_events() == 1
                            && model::event_is(0, SetClaimed::EVENT_ID, &SetClaimed { index: Val::from(leaf.index) }.event_words()),
                        concat!("C17.", $tag, ".verify_with_index_and_set_claimed.exactly_one_set_claimed_event")
                    );
                    prop!(
                        model::slots_equal(&model::slot(S_OTHER), &other0) && model::slots_equal(&model::slot(S_ROOT), &root0),
                        concat!("C17.", $tag, ".verify_with_index_and_set_claimed.other_indices_and_root_untouched")
                    );
                }
                witness!(proof.len() == 0, "claim_with_empty_proof");
                witness!(proof.len() == 3, "claim_with_3_element_proof");
                witness!(model::slot(S_CLAIMED).live_until != 0, "claim_returns");
                end_checks(3);
            }
            #[kani::proof]
            #[kani::unwind(14)]
            pub fn dist_claim_sorted() {
                dist_claim(true, "verify_and_set_claimed")
            }
            #[kani::proof]
            #[kani::unwind(14)]
            pub fn dist_claim_indexed() {
                dist_claim(false, "verify_with_index_and_set_claimed")
            }

            /// after a successful claim (either form), NO claim for the same index (any leaf carrying it, any proof,
            /// either form, after any root change) returns normally
            #[kani::proof]
            #[kani::unwind(14)]
            pub fn dist_second_claim() {
                setup_world();
                let e = Env::default();
                let leaf = arb_leaf();
                let _pre = declare_dist(leaf.index);
                let proof = arb_proof(1);
                let first_sorted: bool = kani::any();
                claim(&e, first_sorted, leaf.clone(), proof);
                witness!(true, "first_claim_returns");
                // a later invocation: ledger moved on, possibly a new root
                let seq2: u32 = kani::any();
                kani::assume(seq2 >= world().seq);
                world().seq = seq2;
                if kani::any() {
                    MerkleDistributor::<H>::set_root(&e, arb32());
                }
                let mut leaf2 = arb_leaf();
                leaf2.index = leaf.index;
                let proof2 = arb_proof(1);
                let second_sorted: bool = kani::any();
                claim(&e, second_sorted, leaf2, proof2);
                prop!(false, concat!("C17.", $tag, ".distributor.no_second_claim_for_an_index"));
            }

            /// honest claim against the stored root of a 4-leaf tree with the index unclaimed: accepted
            #[kani::proof]
            #[kani::unwind(14)]
            pub fn dist_claim_accepts() {
                setup_world();
                let e = Env::default();
                let sorted: bool = kani::any();
                let mut leaf = arb_leaf();
                let i: u32 = kani::any();
                kani::assume(i < 4);
                leaf.index = i;
                let me = leaf_hash(&e, &leaf);
                // the other three leaves: arbitrary values
                let mut l = free_leaves();
                let mut k = 0;
                while k < 4 {
                    if k as u32 == i {
                        l[k] = me.clone();
                    }
                    k += 1;
                }
                let t = build4::<X>(&e, l, sorted);
                model::declare_val(S_ROOT, 2, &MerkleDistributorStorageKey::Root, true, &t.root, 0);
                let cp: bool = kani::any();
                let lu: u32 = kani::any();
                model::declare_val(S_CLAIMED, 0, &MerkleDistributorStorageKey::Claimed(i), cp, &false, lu);
                // (a present `false` flag gets its TTL extended: keep the extension representable)
                kani::assume(!cp || world().seq <= u32::MAX / 2);
                let proof = Vec::from_array(&e, [t.sibling(i), t.uncle(i)]);
                world().must_succeed = true;
                claim(&e, sorted, leaf.clone(), proof);
                world().must_succeed = false;
                prop!(claimed_now(S_CLAIMED), concat!("C17.", $tag, ".distributor.honest_claim_accepted_and_marked"));
                witness!(sorted && i == 3, "sorted_leaf3");
                witness!(!sorted && i == 2, "indexed_leaf2");
                end_checks(2);
            }

            /// set_root / set_claimed / is_claimed / get_root: no function ever resets a Claimed flag
            #[kani::proof]
            #[kani::unwind(14)]
            pub fn dist_frames() {
                setup_world();
                let e = Env::default();
                let index: u32 = kani::any();
                let pre = declare_dist(index);
                let claimed0 = model::slot(S_CLAIMED);
                let other0 = model::slot(S_OTHER);
                let other_pre = claimed_now(S_OTHER);
                let root0 = model::slot(S_ROOT);
                let op: u8 = kani::any();
                kani::assume(op < 4);
                let new_root = arb32();
                match op {
                    0 => {
                        MerkleDistributor::<H>::set_root(&e, new_root.clone());
                        prop!(
                            model::slot(S_ROOT).present && model::slot_val::<B32>(S_ROOT) == new_root,
                            concat!("C17.", $tag, ".set_root.root_stored")
                        );
                        prop!(MerkleDistributor::<H>::get_root(&e) == new_root, concat!("C17.", $tag, ".set_root.get_root_reads_it"));
                        let rb: Bytes = (&new_root).into();
                        prop!(
                            model::n_events() == 1 && model::event_is(0, SetRoot::EVENT_ID, &SetRoot { root: rb }.event_words()),
                            concat!("C17.", $tag, ".set_root.exactly_one_set_root_event")
                        );
                        prop!(
                            model::slots_equal(&model::slot(S_CLAIMED), &claimed0) && model::slots_equal(&model::slot(S_OTHER), &other0),
                            concat!("C17.", $tag, ".set_root.claimed_flags_untouched")
                        );
                    }
                    1 => {
                        MerkleDistributor::<H>::set_claimed(&e, index);
                        prop!(claimed_now(S_CLAIMED), concat!("C17.", $tag, ".set_claimed.index_now_claimed"));
                        prop!(
                            model::slots_equal(&model::slot(S_OTHER), &other0) && model::slots_equal(&model::slot(S_ROOT), &root0),
                            concat!("C17.", $tag, ".set_claimed.other_indices_and_root_untouched")
                        );
                    }
                    2 => {
                        let r = MerkleDistributor::<H>::is_claimed(&e, index);
                        prop!(r == pre.claimed_pre, concat!("C17.", $tag, ".is_claimed.reads_the_flag"));
                        prop!(claimed_now(S_CLAIMED) == pre.claimed_pre, concat!("C17.", $tag, ".is_claimed.flag_unchanged"));
                        prop!(model::n_events() == 0, concat!("C17.", $tag, ".is_claimed.no_event"));
                        prop!(
                            model::slots_equal(&model::slot(S_OTHER), &other0) && model::slots_equal(&model::slot(S_ROOT), &root0),
                            concat!("C17.", $tag, ".is_claimed.other_indices_and_root_untouched")
                        );
                    }
                    _ => {
                        let r = MerkleDistributor::<H>::get_root(&e);
                        prop!(pre.root_present && r == pre.root, concat!("C17.", $tag, ".get_root.reads_stored_root_or_fails"));
                        prop!(
                            model::slots_equal(&model::slot(S_CLAIMED), &claimed0)
                                && model::slots_equal(&model::slot(S_OTHER), &other0)
                                && model::slots_equal(&model::slot(S_ROOT), &root0),
                            concat!("C17.", $tag, ".get_root.nothing_changes")
                        );
                    }
                }
                // never reset, whatever the operation
                prop!(!pre.claimed_pre || claimed_now(S_CLAIMED), concat!("C17.", $tag, ".distributor.claimed_flag_never_reset"));
                prop!(!other_pre || claimed_now(S_OTHER), concat!("C17.", $tag, ".distributor.claimed_flag_never_reset"));
                witness!(op == 0 && pre.claimed_pre, "set_root_with_claimed_index");
                witness!(op == 1, "set_claimed");
                witness!(op == 2 && pre.claimed_pre, "is_claimed_true");
                witness!(op == 2 && !pre.claimed_pre, "is_claimed_false");
                witness!(op == 3, "get_root");
                end_checks(3);
            }
        }
    };
}

merkle_family!(keccak, KK, "keccak");
merkle_family!(sha, KS, "sha256");
