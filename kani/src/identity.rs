//! C15: an RWA identity is verified only by valid claims from currently trusted issuers.
//!
//! (A) verifier side (`identity_verifier::storage::{verify_identity, validate_claim, recovery_target}`):
//!     the identity registry storage, the claim-topics-and-issuers contract, the identity-claims
//!     contract and the issuers are FOREIGN contracts; every answer is arbitrary (within the vector
//!     capacity) and logged. The post-conditions are reconstructed from the foreign-call log.
//! (B) issuer side: see the second half of this file (`issuer` module; other capacity profile).
use soroban_sdk::model::{self, world, ArgBuf, CallRec, CAP, NC, TAG_ADDR};
// (`Vec` stays std's here: the runner appends concrete-playback tests, which use std's Vec, to this file)
use soroban_sdk::{Address, Arb, Bytes, BytesN, Env, Flat, Map, String, Symbol, Vec as SVec};
use stellar_tokens::rwa::identity_claims::{generate_claim_id, Claim};
use stellar_tokens::rwa::identity_verifier::storage::{
    recovery_target, validate_claim, verify_identity, IdentityVerifierStorageKey,
};

use crate::util::*;

const F_STORED: u64 = Symbol::of("stored_identity");
const F_RECOVERED: u64 = Symbol::of("get_recovered_to");
const F_MAP: u64 = Symbol::of("get_claim_topics_and_issuers");
const F_IDS: u64 = Symbol::of("get_claim_ids_by_topic");
const F_CLAIM: u64 = Symbol::of("get_claim");
const F_VALID: u64 = Symbol::of("is_claim_valid");

/// words of a `Bytes`
const BYW: usize = <Bytes as Flat>::W;
// flat layout of `Claim`: topic, scheme, issuer, signature, data, uri
const C_TOPIC: usize = 0;
const C_SCHEME: usize = 1;
const C_ISSUER: usize = 2;
const C_SIG: usize = 3;
// flat layout of the `is_claim_valid` arguments: identity, topic, scheme, signature, data
const A_IDENTITY: usize = 0;
const A_TOPIC: usize = 1;
const A_SCHEME: usize = 2;
const A_SIG: usize = 3;
const A_N: usize = 3 + 2 * BYW;

type TopicMap = Map<u32, SVec<Address>>;

fn any_address() -> Address {
    Address::from_id(kani::any())
}
fn w_addr(a: &Address) -> u64 {
    (TAG_ADDR << 56) | a.id as u64
}

pub const S_CTI: usize = 0;
pub const S_IRS: usize = 1;

/// the verifier's two instance entries: present or absent, any addresses (possibly equal)
pub fn declare_verifier(force_present: bool) -> (Address, Address) {
    let cti = any_address();
    let irs = any_address();
    let p0: bool = kani::any();
    let p1: bool = kani::any();
    kani::assume(!force_present || (p0 && p1));
    model::declare_val(S_CTI, 2, &IdentityVerifierStorageKey::ClaimTopicsAndIssuers, p0, &cti, 0);
    model::declare_val(S_IRS, 2, &IdentityVerifierStorageKey::IdentityRegistryStorage, p1, &irs, 0);
    (cti, irs)
}

/// An oracle answer is decoded by the library through `Flat::unflat`, which looks at the tag byte and
/// the low 32 bits of a u32 / address word only; re-encoding gives the canonical word.
fn canon_u32(w: u64) -> u64 {
    model::tag_u32(w as u32)
}
fn canon_addr(w: u64) -> u64 {
    (TAG_ADDR << 56) | (w as u32) as u64
}
/// the arguments the verifier must pass to the issuer for the claim whose (answered) flat words are `claim`
fn valid_args_of(identity: &Address, topic: u32, claim: &[u64]) -> ArgBuf {
    let mut a = ArgBuf::new();
    a.w[A_IDENTITY] = w_addr(identity);
    a.w[A_TOPIC] = model::tag_u32(topic);
    a.w[A_SCHEME] = canon_u32(claim[C_SCHEME]);
    let mut k = 0;
    while k < 2 * BYW {
        // signature, data: a length word followed by the packed bytes
        let w = claim[C_SIG + k];
        a.w[A_SIG + k] = if k == 0 || k == BYW { canon_u32(w) } else { w };
        k += 1;
    }
    a.n = A_N as u32;
    a
}

const IDSW: usize = 1 + 4 * CAP; // words of a SVec<BytesN<32>>

/// the answered id list `ids` (flat words of a SVec<BytesN<32>>) contains `id`
fn lists_id(ids: &[u64; IDSW], id: &[u64]) -> bool {
    let len = ids[0] as u32; // tag checked by the library's own decoding on this path
    let mut found = false;
    let mut k = 0;
    while k < CAP {
        if (k as u32) < len {
            let mut same = true;
            let mut q = 0;
            while q < 4 {
                same &= ids[1 + 4 * k + q] == id[q];
                q += 1;
            }
            found |= same;
        }
        k += 1;
    }
    found
}

fn in_list(issuers: &SVec<Address>, id: u32) -> bool {
    let mut r = false;
    let mut k = 0;
    while k < CAP {
        if let Some(a) = issuers.get(k as u32) {
            r |= a.id == id;
        }
        k += 1;
    }
    r
}

/// The foreign-call log shows, for `topic`: an issuer X of `issuers`, a claim the identity holds
/// (answered by its `get_claim` for an id that its latest `get_claim_ids_by_topic(topic)` answer
/// lists) with (topic, X), and, directly after it, a call
/// `X.try_is_claim_valid(identity, topic, scheme, signature, data of that claim)` answered Ok(Ok).
/// One pass over the log (records are read in place at concrete indices).
fn topic_satisfied(identity: &Address, topic: u32, issuers: &SVec<Address>) -> bool {
    let w = world();
    let n = w.n_calls;
    let mut ids = [0u64; IDSW];
    let mut ids_known = false;
    let mut prev_held = false; // record i-1 answered a claim the identity holds under `topic`
    let mut ok = false;
    let mut i = 0;
    while i < NC {
        let r = &w.calls[i];
        let live = (i as u32) < n && !r.failed;
        if i > 0 && prev_held && live && r.func == F_VALID && in_list(issuers, r.callee) {
            let c = &w.calls[i - 1];
            ok |= canon_u32(c.ret[C_TOPIC]) == model::tag_u32(topic)
                && canon_addr(c.ret[C_ISSUER]) == ((TAG_ADDR << 56) | r.callee as u64)
                && r.args.eq(&valid_args_of(identity, topic, &c.ret));
        }
        prev_held = live
            && r.callee == identity.id
            && r.func == F_CLAIM
            && r.args.n == 4
            && ids_known
            && lists_id(&ids, &r.args.w[..4]);
        if live && r.callee == identity.id && r.func == F_IDS && r.args.n == 1 && r.args.w[0] == model::tag_u32(topic) {
            ids_known = true;
            let mut q = 0;
            while q < IDSW {
                ids[q] = r.ret[q];
                q += 1;
            }
        }
        i += 1;
    }
    ok
}

/// verify_identity over an arbitrary registry / identity / issuers (<= CAP topics, 0..CAP issuers
/// per topic, 0..CAP claim ids per topic, every answer arbitrary or failing)
#[kani::proof]
#[kani::unwind(18)]
pub fn c15_verify_identity() {
    setup_world();
    let e = Env::default();
    let (cti, irs) = declare_verifier(false);
    let account = any_address();

    verify_identity(&e, &account);

    let s_cti = model::slot(S_CTI);
    let s_irs = model::slot(S_IRS);
    let r0 = model::call_at(0);
    let r1 = model::call_at(1);
    let mut acc_args = ArgBuf::new();
    acc_args.push(&account);
    // (guarded by a coin so that a failure here does not cut the paths of the witnesses below:
    //  kani::assert assumes its condition afterwards)
    if kani::any::<bool>() {
        prop!(s_cti.present && s_irs.present, "C15.verifier.needs_configured_registry_contracts");
        prop!(
            model::n_calls() >= 2 && r0.callee == irs.id && r0.func == F_STORED && r0.args.eq(&acc_args) && !r0.failed,
            "C15.verifier.identity_is_the_one_registered_for_the_account"
        );
        prop!(
            r1.callee == cti.id && r1.func == F_MAP && r1.args.n == 0 && !r1.failed,
            "C15.verifier.required_topics_read_from_the_configured_contract"
        );
    }
    // the answers as the library decoded them (the same decoding succeeded inside the call)
    let identity = Address::from_id(r0.ret[0] as u32);
    let map = <TopicMap as Flat>::unflat(&r1.ret[..<TopicMap as Flat>::W]);
    let topics = map.keys();
    let lists = map.values();
    witness!(topics.len() == 0, "no_required_topics");
    // one symbolic witness: the j-th required topic
    let j: u32 = kani::any();
    kani::assume(j < topics.len());
    let topic = topics.get(j).unwrap();
    let issuers = lists.get(j).unwrap();
    let sat = topic_satisfied(&identity, topic, &issuers);
    // (kani::assert cuts the path after a failing check: witnesses come first)
    witness!(topics.len() == 2 && issuers.len() == 2 && j == 1, "second_of_two_topics_two_issuers");
    witness!(model::n_calls() as usize == NC, "call_log_full_2x2x2");
    // (no witness for the empty-issuer region: it is reachable only while the defect below exists)
    end_checks(2);
    if issuers.len() > 0 {
        prop!(sat, "C15.verifier.required_topic_with_issuers_has_valid_claim_of_a_trusted_issuer");
    } else {
        // predicted defect (DESIGN.md C15): a required topic with NO trusted issuer is silently satisfied
        prop!(sat, "C15.verifier.required_topic_needs_trusted_issuer_claim");
    }
}

/// One required topic, one trusted issuer: each way a claim can fail to count, separately named.
#[kani::proof]
#[kani::unwind(18)]
pub fn c15_verify_identity_single() {
    setup_world();
    let e = Env::default();
    let (_cti, _irs) = declare_verifier(false);
    let account = any_address();
    let identity = any_address();
    let issuer = any_address();
    let topic: u32 = kani::any();
    let mut map: TopicMap = Map::new(&e);
    map.set(topic, SVec::from_array(&e, [issuer.clone()]));
    let ids: SVec<BytesN<32>> = SVec::arb();
    let claim = Claim::arb();
    let rejected: bool = kani::any();
    model::preset_call::<Address>(0, false, &identity);
    model::preset_call::<TopicMap>(1, false, &map);
    model::preset_call::<SVec<BytesN<32>>>(2, false, &ids);
    model::preset_call::<Claim>(3, false, &claim);
    model::preset_call::<()>(4, rejected, &());

    verify_identity(&e, &account);

    witness!(true, "single_topic_single_issuer_returns");
    let cid = generate_claim_id(&e, &issuer, topic);
    prop!(ids.contains(&cid), "C15.verifier.single.claim_must_be_held_under_the_required_topic");
    prop!(claim.topic == topic, "C15.verifier.single.claim_for_another_topic_never_counts");
    prop!(claim.issuer == issuer, "C15.verifier.single.claim_of_an_untrusted_issuer_never_counts");
    prop!(!rejected, "C15.verifier.single.claim_rejected_by_its_issuer_never_counts");
    let mut idarg = ArgBuf::new();
    idarg.push(&cid);
    let mut targ = ArgBuf::new();
    targ.push(&topic);
    let r2 = model::call_at(2);
    let r3 = model::call_at(3);
    let r4 = model::call_at(4);
    prop!(
        r2.callee == identity.id && r2.func == F_IDS && r2.args.eq(&targ)
            && r3.callee == identity.id && r3.func == F_CLAIM && r3.args.eq(&idarg),
        "C15.verifier.single.claims_read_from_the_registered_identity"
    );
    let mut va = ArgBuf::new();
    va.push(&identity);
    va.push(&topic);
    va.push(&claim.scheme);
    va.push(&claim.signature);
    va.push(&claim.data);
    prop!(
        model::n_calls() == 5 && r4.callee == issuer.id && r4.func == F_VALID && r4.args.eq(&va),
        "C15.verifier.single.issuer_asked_with_exactly_the_held_claim"
    );
    end_checks(2);
}

/// Converse: every oracle pinned to a satisfying configuration (1 or 2 required topics, 1 or 2
/// trusted issuers each, the first issuer's claim held, matching and confirmed) => returns.
#[kani::proof]
#[kani::unwind(18)]
pub fn c15_verify_identity_accepts() {
    setup_world();
    let e = Env::default();
    let (_cti, _irs) = declare_verifier(true);
    let account = any_address();
    let identity = any_address();
    let two: bool = kani::any();
    let t0: u32 = kani::any();
    let t1: u32 = kani::any();
    kani::assume(t0 < t1);
    let mut map: TopicMap = Map::new(&e);
    let mut t = 0;
    while t < 2 {
        if t == 0 || two {
            let topic = if t == 0 { t0 } else { t1 };
            let good = any_address();
            let mut issuers = SVec::from_array(&e, [good.clone()]);
            if kani::any::<bool>() {
                issuers.push_back(any_address());
            }
            map.set(topic, issuers);
            let cid = generate_claim_id(&e, &good, topic);
            let ids: SVec<BytesN<32>> = SVec::arb();
            kani::assume(ids.contains(&cid));
            let mut claim = Claim::arb();
            claim.topic = topic;
            claim.issuer = good;
            model::preset_call::<SVec<BytesN<32>>>(2 + 3 * t, false, &ids);
            model::preset_call::<Claim>(3 + 3 * t, false, &claim);
            model::preset_call::<()>(4 + 3 * t, false, &());
        }
        t += 1;
    }
    model::preset_call::<Address>(0, false, &identity);
    model::preset_call::<TopicMap>(1, false, &map);
    world().must_succeed = true;

    verify_identity(&e, &account);

    witness!(two, "two_required_topics_accepted");
    witness!(!two, "one_required_topic_accepted");
    prop!(model::n_calls() == if two { 8 } else { 5 }, "C15.verifier.accepts.one_confirmation_per_required_topic");
    end_checks(2);
}

/// validate_claim: true exactly when the claim is for (topic, issuer) and that issuer, asked with
/// exactly the claim's fields, answered Ok(Ok)
#[kani::proof]
#[kani::unwind(18)]
pub fn c15_validate_claim() {
    setup_world();
    let e = Env::default();
    let claim = Claim::arb();
    let topic: u32 = kani::any();
    let issuer = any_address();
    let identity = any_address();

    let r = validate_claim(&e, &claim, topic, &issuer, &identity);

    let matches = claim.topic == topic && claim.issuer == issuer;
    witness!(r, "claim_confirmed");
    witness!(matches && !r, "claim_rejected_by_issuer");
    witness!(!matches, "claim_mismatch");
    let r0 = model::call_at(0);
    let mut va = ArgBuf::new();
    va.push(&identity);
    va.push(&topic);
    va.push(&claim.scheme);
    va.push(&claim.signature);
    va.push(&claim.data);
    if matches {
        prop!(
            model::n_calls() == 1 && r0.callee == issuer.id && r0.func == F_VALID && r0.args.eq(&va),
            "C15.validate_claim.issuer_asked_with_exactly_the_claim"
        );
        prop!(r == !r0.failed, "C15.validate_claim.true_iff_issuer_answered_ok");
    } else {
        prop!(!r, "C15.validate_claim.other_topic_or_issuer_is_false");
        prop!(model::n_calls() == 0, "C15.validate_claim.no_issuer_asked_for_mismatching_claim");
    }
    end_checks(0);
}

/// recovery_target is exactly the configured registry's answer for that account
#[kani::proof]
#[kani::unwind(18)]
pub fn c15_recovery_target() {
    setup_world();
    let e = Env::default();
    let (_cti, irs) = declare_verifier(false);
    let old = any_address();

    let r = recovery_target(&e, &old);

    witness!(r.is_some(), "recovery_target_some");
    witness!(r.is_none(), "recovery_target_none");
    let r0 = model::call_at(0);
    let mut a = ArgBuf::new();
    a.push(&old);
    prop!(model::slot(S_IRS).present, "C15.recovery_target.needs_configured_registry");
    prop!(
        model::n_calls() == 1 && r0.callee == irs.id && r0.func == F_RECOVERED && r0.args.eq(&a) && !r0.failed,
        "C15.recovery_target.asks_the_configured_registry_for_that_account"
    );
    // decoded as `<Option<Address> as Flat>::unflat` does: exact option word, then the address id
    let some = r0.ret[0] == ((model::TAG_VOID << 56) | 1);
    let expect = if some { Some(Address::from_id(r0.ret[1] as u32)) } else { None };
    prop!(r == expect, "C15.recovery_target.returns_the_registry_answer");
    end_checks(2);
}

// =====================================================================================
// (B) issuer side
// =====================================================================================
/// `ClaimIssuer::is_claim_valid` has no default body in the library. `canonical_issuer` is HARNESS
/// code: the issuer exactly as the module documentation of `claim_issuer/mod.rs` composes it, one
/// instance per signature scheme, calling only the real helpers. `false` = the claim is rejected
/// (a contract returns an error / panics); a trap of a helper rejects as well.
pub mod issuer {
    use soroban_sdk::model::{self, world, ArgBuf, BYTES_CAP, CAP, TAG_ADDR};
    use soroban_sdk::{Address, Arb, Bytes, BytesN, Env, Flat, Symbol, Vec};
    use stellar_tokens::rwa::claim_issuer::{
        allow_key, build_claim_identifier, decode_claim_data_expiration, get_current_nonce_for,
        invalidate_claim_signatures, is_claim_expired, is_claim_revoked, is_key_allowed_for_topic,
        remove_key, set_claim_revoked, ClaimIssuerStorageKey, Ed25519SignatureData, Ed25519Verifier,
        Secp256k1SignatureData, Secp256k1Verifier, Secp256r1SignatureData, Secp256r1Verifier,
        SignatureVerifier, SigningKey,
    };

    use super::any_address;
    use crate::util::*;

    pub trait Scheme: SignatureVerifier {
        fn public_key(sd: &Self::SignatureData) -> Bytes;
    }
    impl Scheme for Ed25519Verifier {
        fn public_key(sd: &Ed25519SignatureData) -> Bytes {
            sd.public_key.clone().into()
        }
    }
    impl Scheme for Secp256r1Verifier {
        fn public_key(sd: &Secp256r1SignatureData) -> Bytes {
            sd.public_key.clone().into()
        }
    }
    impl Scheme for Secp256k1Verifier {
        fn public_key(sd: &Secp256k1SignatureData) -> Bytes {
            sd.public_key.clone().into()
        }
    }

    /// the documented canonical issuer (claim_issuer/mod.rs, "Example Usage"), for scheme `V`
    pub fn canonical_issuer<V: Scheme>(
        e: &Env,
        identity: &Address,
        claim_topic: u32,
        scheme: u32,
        sig_data: &Bytes,
        claim_data: &Bytes,
    ) -> bool {
        // Extract signature data
        let signature_data = V::extract_signature_data(e, sig_data);
        // Check if the public key is allowed for this topic
        if !is_key_allowed_for_topic(e, &V::public_key(&signature_data), scheme, claim_topic) {
            return false;
        }
        // Check claim has not expired
        if is_claim_expired(e, claim_data) {
            return false;
        }
        // Build message for signature verification
        let message = V::build_message(e, identity, claim_topic, claim_data);
        // Check claim was not revoked
        if is_claim_revoked(e, identity, claim_topic, claim_data) {
            return false;
        }
        // Verify the signature (traps when invalid)
        V::verify(e, &message, &signature_data);
        true
    }

    // ------------------------------------------------------------------ expected byte strings
    /// claim data of the composed harnesses: created_at (8) || valid_until (8) || payload (8)
    pub const DL: usize = 24;
    /// network id (32) || issuer (8) || identity (8) || topic (4) || [nonce (4)] || data
    pub const ML: usize = 32 + 8 + 8 + 4 + 4 + DL;
    pub const IL: usize = 32 + 8 + 8 + 4 + DL;

    /// the model serialises an address (`to_xdr`) as the 8 big-endian bytes of its tagged word
    fn addr_bytes(a: &Address) -> [u8; 8] {
        ((TAG_ADDR << 56) | a.id as u64).to_be_bytes()
    }
    fn net_bytes(net: &[u64; 4]) -> [u8; 32] {
        let mut o = [0u8; 32];
        let mut c = 0;
        while c < 4 {
            let b = net[c].to_be_bytes();
            let mut j = 0;
            while j < 8 {
                o[c * 8 + j] = b[j];
                j += 1;
            }
            c += 1;
        }
        o
    }
    /// written independently of the library: plain array stores at concrete positions
    pub fn expected_message(net: &[u64; 4], issuer: &Address, identity: &Address, topic: u32, nonce: u32, data: &[u8; DL]) -> [u8; ML] {
        let mut o = [0u8; ML];
        let n = net_bytes(net);
        let i = addr_bytes(issuer);
        let d = addr_bytes(identity);
        let t = topic.to_be_bytes();
        let c = nonce.to_be_bytes();
        let mut k = 0;
        while k < 32 {
            o[k] = n[k];
            k += 1;
        }
        k = 0;
        while k < 8 {
            o[32 + k] = i[k];
            o[40 + k] = d[k];
            k += 1;
        }
        k = 0;
        while k < 4 {
            o[48 + k] = t[k];
            o[52 + k] = c[k];
            k += 1;
        }
        k = 0;
        while k < DL {
            o[56 + k] = data[k];
            k += 1;
        }
        o
    }
    pub fn expected_identifier(net: &[u64; 4], issuer: &Address, identity: &Address, topic: u32, data: &[u8; DL]) -> [u8; IL] {
        let mut o = [0u8; IL];
        let n = net_bytes(net);
        let i = addr_bytes(issuer);
        let d = addr_bytes(identity);
        let t = topic.to_be_bytes();
        let mut k = 0;
        while k < 32 {
            o[k] = n[k];
            k += 1;
        }
        k = 0;
        while k < 8 {
            o[32 + k] = i[k];
            o[40 + k] = d[k];
            k += 1;
        }
        k = 0;
        while k < 4 {
            o[48 + k] = t[k];
            k += 1;
        }
        k = 0;
        while k < DL {
            o[52 + k] = data[k];
            k += 1;
        }
        o
    }
    pub fn sub<const N: usize, const M: usize>(a: &[u8; M], from: usize) -> [u8; N] {
        let mut o = [0u8; N];
        let mut k = 0;
        while k < N {
            o[k] = a[from + k];
            k += 1;
        }
        o
    }

    // ------------------------------------------------------------------ composed issuer
    pub const S_TOPICS: usize = 0;
    pub const S_NONCE: usize = 1;
    pub const S_REVOKED: usize = 2;

    pub struct Pre<const SL: usize> {
        pub e: Env,
        pub net: [u64; 4],
        pub issuer: Address,
        pub identity: Address,
        pub topic: u32,
        pub scheme: u32,
        pub sig_raw: [u8; SL],
        pub data_raw: [u8; DL],
        pub sig_data: Bytes,
        pub data: Bytes,
        pub keys_present: bool,
        pub keys: Vec<SigningKey>,
        pub nonce: u32,
        pub revoked: bool,
    }
    /// Arbitrary issuer contract state around ONE symbolic claim: Topics(topic) absent or any key
    /// list, ClaimNonce(identity, topic) absent or any value, RevokedClaim(digest of this claim)
    /// absent / false / true; arbitrary network id, issuer address, ledger time.
    pub fn declare<const SL: usize>() -> Pre<SL> {
        setup_world();
        let e = Env::default();
        let w = world();
        let net = [kani::any(), kani::any(), kani::any(), kani::any()];
        w.network_id = net;
        let issuer = Address::from_id(w.contract);
        let identity = any_address();
        let topic: u32 = kani::any();
        let scheme: u32 = kani::any();
        let sig_raw: [u8; SL] = kani::any();
        let data_raw: [u8; DL] = kani::any();
        let sig_data = Bytes::from_array(&e, &sig_raw);
        let data = Bytes::from_array(&e, &data_raw);
        let keys_present: bool = kani::any();
        let keys: Vec<SigningKey> = Vec::arb();
        model::declare_val(S_TOPICS, 0, &ClaimIssuerStorageKey::Topics(topic), keys_present, &keys, 0);
        let np: bool = kani::any();
        let nv: u32 = kani::any();
        model::declare_val(S_NONCE, 0, &ClaimIssuerStorageKey::ClaimNonce(identity.clone(), topic), np, &nv, 0);
        // the revocation entry of exactly this claim: keccak256 of the hand-built identifier
        let ident = Bytes::from_array(&e, &expected_identifier(&net, &issuer, &identity, topic, &data_raw));
        let digest = e.crypto().keccak256(&ident).to_bytes();
        let rp: bool = kani::any();
        let rv: bool = kani::any();
        model::declare_val(S_REVOKED, 0, &ClaimIssuerStorageKey::RevokedClaim(digest), rp, &rv, 0);
        Pre {
            e,
            net,
            issuer,
            identity,
            topic,
            scheme,
            sig_raw,
            data_raw,
            sig_data,
            data,
            keys_present,
            keys,
            nonce: if np { nv } else { 0 },
            revoked: rp && rv,
        }
    }
    /// `pk` with `scheme` is in the declared Topics(topic) list
    pub fn key_listed<const SL: usize>(p: &Pre<SL>, pk: &Bytes) -> bool {
        let mut r = false;
        let mut k = 0;
        while k < CAP {
            if let Some(sk) = p.keys.get(k as u32) {
                r |= sk.public_key == *pk && sk.scheme == p.scheme;
            }
            k += 1;
        }
        p.keys_present && r
    }

    pub const PLAIN: u8 = 0;
    pub const AFTER_NONCE_BUMP: u8 = 1;
    pub const AFTER_REVOCATION: u8 = 2;

    /// Runs the canonical issuer on the declared state (optionally after a nonce bump / a revocation)
    /// and asserts the scheme-independent clauses; returns the message the signature oracle must
    /// have been asked about.
    pub fn valid_step<V: Scheme, const SL: usize>(p: &Pre<SL>, mode: u8, tag: &'static str) -> Option<Bytes> {
        let e = &p.e;
        let mut nonce = p.nonce;
        let mut old_message = Bytes::new(e);
        if mode == AFTER_NONCE_BUMP {
            old_message = V::build_message(e, &p.identity, p.topic, &p.data);
            invalidate_claim_signatures(e, &p.identity, p.topic);
            kani::assume(nonce < u32::MAX); // (the library traps there)
            nonce += 1;
        }
        if mode == AFTER_REVOCATION {
            set_claim_revoked(e, &p.identity, p.topic, &p.data, true);
        }
        let calls_before = model::n_calls();

        let ok = canonical_issuer::<V>(e, &p.identity, p.topic, p.scheme, &p.sig_data, &p.data);

        let _ = (tag, calls_before);
        // (one cover location for all modes: after a revocation the issuer returns `false`, else `true` is reachable)
        witness!(ok != (mode == AFTER_REVOCATION), "issuer_decides_the_claim");
        if mode == AFTER_REVOCATION {
            prop!(!ok, "C15.issuer.revoked_claim_is_rejected");
            return None;
        }
        kani::assume(ok); // the remaining clauses are about confirmed claims
        let message = Bytes::from_array(e, &expected_message(&p.net, &p.issuer, &p.identity, p.topic, nonce, &p.data_raw));
        if mode == AFTER_NONCE_BUMP {
            prop!(message != old_message, "C15.issuer.nonce_bump.message_differs_from_the_one_signed_before");
        }
        prop!(!p.revoked, "C15.issuer.valid_needs_claim_not_revoked");
        let mut vu = [0u8; 8];
        let mut k = 0;
        while k < 8 {
            vu[k] = p.data_raw[8 + k];
            k += 1;
        }
        prop!(world().timestamp < u64::from_be_bytes(vu), "C15.issuer.valid_needs_claim_not_expired");
        Some(message)
    }

    fn sym(s: &str) -> u64 {
        Symbol::of(s)
    }
    const CRYPTO: u32 = u32::MAX;

    fn ed25519(mode: u8) {
        let p = declare::<96>();
        let message = match valid_step::<Ed25519Verifier, 96>(&p, mode, "ed25519") {
            Some(m) => m,
            None => {
                end_checks(3);
                return;
            }
        };
        let pk = BytesN::<32>::from_array(&p.e, &sub::<32, 96>(&p.sig_raw, 0));
        let sig = BytesN::<64>::from_array(&p.e, &sub::<64, 96>(&p.sig_raw, 32));
        prop!(key_listed(&p, &pk.clone().into()), "C15.issuer.ed25519.valid_needs_key_currently_allowed_for_topic");
        let mut a = ArgBuf::new();
        a.push(&pk);
        a.push(&message);
        a.push(&sig);
        let r = &world().calls[0];
        prop!(
            model::n_calls() == 1 && r.callee == CRYPTO && r.func == sym("ed25519_verify") && !r.failed && r.args.eq(&a),
            "C15.issuer.ed25519.valid_needs_signature_over_network_issuer_identity_topic_current_nonce_data"
        );
        end_checks(3);
    }
    fn secp256r1(mode: u8) {
        let p = declare::<129>();
        let message = match valid_step::<Secp256r1Verifier, 129>(&p, mode, "secp256r1") {
            Some(m) => m,
            None => {
                end_checks(3);
                return;
            }
        };
        let pk = BytesN::<65>::from_array(&p.e, &sub::<65, 129>(&p.sig_raw, 0));
        let sig = BytesN::<64>::from_array(&p.e, &sub::<64, 129>(&p.sig_raw, 65));
        prop!(key_listed(&p, &pk.clone().into()), "C15.issuer.secp256r1.valid_needs_key_currently_allowed_for_topic");
        // the digest the oracle saw is the hash of exactly the expected message (injective hash oracle)
        let digest = p.e.crypto().sha256(&message).to_bytes();
        let mut a = ArgBuf::new();
        a.push(&pk);
        a.push(&digest);
        a.push(&sig);
        let r = &world().calls[0];
        prop!(
            model::n_calls() == 1 && r.callee == CRYPTO && r.func == sym("secp256r1_verify") && !r.failed && r.args.eq(&a),
            "C15.issuer.secp256r1.valid_needs_signature_over_network_issuer_identity_topic_current_nonce_data"
        );
        end_checks(3);
    }
    fn secp256k1(mode: u8) {
        let p = declare::<133>();
        let message = match valid_step::<Secp256k1Verifier, 133>(&p, mode, "secp256k1") {
            Some(m) => m,
            None => {
                end_checks(3);
                return;
            }
        };
        let pk = BytesN::<65>::from_array(&p.e, &sub::<65, 133>(&p.sig_raw, 0));
        let sig = BytesN::<64>::from_array(&p.e, &sub::<64, 133>(&p.sig_raw, 65));
        let rec_id = u32::from_be_bytes(sub::<4, 133>(&p.sig_raw, 129));
        prop!(key_listed(&p, &pk.clone().into()), "C15.issuer.secp256k1.valid_needs_key_currently_allowed_for_topic");
        let digest = p.e.crypto().keccak256(&message).to_bytes();
        let mut a = ArgBuf::new();
        a.push(&digest);
        a.push(&sig);
        a.push(&rec_id);
        let r = &world().calls[0];
        let mut pkw = [0u64; 9];
        pk.put(&mut pkw);
        let mut same = true;
        let mut k = 0;
        while k < 9 {
            // the recovered key is decoded from the answer words (65 bytes: the last word carries one byte)
            same &= if k < 8 { r.ret[k] == pkw[k] } else { r.ret[k] >> 56 == pkw[k] >> 56 };
            k += 1;
        }
        prop!(
            model::n_calls() == 1 && r.callee == CRYPTO && r.func == sym("secp256k1_recover") && !r.failed && r.args.eq(&a) && same,
            "C15.issuer.secp256k1.valid_needs_signature_over_network_issuer_identity_topic_current_nonce_data"
        );
        end_checks(3);
    }

    #[kani::proof]
    #[kani::unwind(100)]
    pub fn c15_issuer_ed25519() {
        ed25519(PLAIN)
    }
    #[kani::proof]
    #[kani::unwind(100)]
    pub fn c15_issuer_ed25519_after_nonce_bump() {
        ed25519(AFTER_NONCE_BUMP)
    }
    #[kani::proof]
    #[kani::unwind(100)]
    pub fn c15_issuer_ed25519_after_revocation() {
        ed25519(AFTER_REVOCATION)
    }
    #[kani::proof]
    #[kani::unwind(100)]
    pub fn c15_issuer_secp256r1() {
        secp256r1(PLAIN)
    }
    #[kani::proof]
    #[kani::unwind(100)]
    pub fn c15_issuer_secp256k1() {
        secp256k1(PLAIN)
    }

    // ------------------------------------------------------------------ byte strings as functions of their fields
    /// small claim data (0..=8 bytes, symbolic length and content)
    pub const DMAX: u32 = 8;
    pub struct Ctx {
        pub net: [u64; 4],
        pub issuer: Address,
        pub identity: Address,
        pub topic: u32,
        pub nonce_present: bool,
        pub nonce_val: u32,
        pub data: Bytes,
    }
    impl Ctx {
        pub fn nonce(&self) -> u32 {
            if self.nonce_present {
                self.nonce_val
            } else {
                0
            }
        }
    }
    pub fn small_data() -> Bytes {
        let d = Bytes::arb();
        kani::assume(d.len() <= DMAX);
        d
    }
    pub fn draw() -> Ctx {
        Ctx {
            net: [kani::any(), kani::any(), kani::any(), kani::any()],
            issuer: addr_below(model::NADDR as u32),
            identity: any_address(),
            topic: kani::any(),
            nonce_present: kani::any(),
            nonce_val: kani::any(),
            data: small_data(),
        }
    }
    /// a world in which the issuer contract `c.issuer` runs on network `c.net` at an arbitrary ledger
    /// time and stores the nonce of (identity, topic) in slot 0
    pub fn install(c: &Ctx) {
        let w = world();
        w.network_id = c.net;
        w.contract = c.issuer.id;
        w.seq = kani::any();
        w.timestamp = kani::any();
        model::declare_val(0, 0, &ClaimIssuerStorageKey::ClaimNonce(c.identity.clone(), c.topic), c.nonce_present, &c.nonce_val, 0);
    }
    fn net_eq(a: &[u64; 4], b: &[u64; 4]) -> bool {
        a[0] == b[0] && a[1] == b[1] && a[2] == b[2] && a[3] == b[3]
    }

    /// build_claim_message / build_claim_identifier are injective functions of exactly their
    /// documented fields: two symbolic claims, evaluated in two worlds
    #[kani::proof]
    #[kani::unwind(100)]
    pub fn c15_issuer_message_fields() {
        setup_world();
        let e = Env::default();
        let c1 = draw();
        let c2 = draw();
        install(&c1);
        let m1 = V0::build_message(&e, &c1.identity, c1.topic, &c1.data);
        let i1 = build_claim_identifier(&e, &c1.identity, c1.topic, &c1.data);
        install(&c2);
        let m2 = V0::build_message(&e, &c2.identity, c2.topic, &c2.data);
        let i2 = build_claim_identifier(&e, &c2.identity, c2.topic, &c2.data);

        let same_but_nonce = net_eq(&c1.net, &c2.net)
            && c1.issuer == c2.issuer
            && c1.identity == c2.identity
            && c1.topic == c2.topic
            && c1.data == c2.data;
        let same = same_but_nonce && c1.nonce() == c2.nonce();
        witness!(same, "same_fields");
        witness!(same_but_nonce && !same, "only_nonce_differs");
        witness!(!same_but_nonce && c1.data.len() != c2.data.len(), "data_length_differs");
        witness!(!same_but_nonce && c1.data.len() == c2.data.len() && c1.data.len() > 0, "same_length");
        if same {
            prop!(m1 == m2, "C15.issuer.build_claim_message.depends_only_on_network_issuer_identity_topic_nonce_data");
        } else {
            prop!(m1 != m2, "C15.issuer.build_claim_message.any_differing_field_changes_the_message");
        }
        if same_but_nonce {
            prop!(i1 == i2, "C15.issuer.build_claim_identifier.depends_only_on_network_issuer_identity_topic_data");
        } else {
            prop!(i1 != i2, "C15.issuer.build_claim_identifier.any_differing_field_changes_the_identifier");
        }
        prop!(m1 != i1, "C15.issuer.build_claim_message.never_equals_the_nonce_free_identifier");
        end_checks(1);
    }
    type V0 = Ed25519Verifier;

    /// invalidate_claim_signatures: the nonce moves to the next value, the message (and so both
    /// digests the verifiers use) changes, other (identity, topic) nonces are untouched
    #[kani::proof]
    #[kani::unwind(100)]
    pub fn c15_issuer_nonce_bump() {
        setup_world();
        let e = Env::default();
        let c = draw();
        install(&c);
        let other_id = any_address();
        let other_topic: u32 = kani::any();
        kani::assume(other_id != c.identity || other_topic != c.topic);
        let op: bool = kani::any();
        let ov: u32 = kani::any();
        model::declare_val(1, 0, &ClaimIssuerStorageKey::ClaimNonce(other_id.clone(), other_topic), op, &ov, 0);
        let other_before = model::slot(1);
        let m0 = V0::build_message(&e, &c.identity, c.topic, &c.data);
        let h0 = e.crypto().sha256(&m0).to_bytes();
        let k0 = e.crypto().keccak256(&m0).to_bytes();

        invalidate_claim_signatures(&e, &c.identity, c.topic);

        witness!(c.nonce_present && c.nonce_val > 0, "bump_of_existing_nonce");
        witness!(!c.nonce_present, "first_bump");
        prop!(c.nonce() != u32::MAX, "C15.issuer.invalidate.no_wrap_around");
        prop!(
            model::slot(0).present && model::slot_val::<u32>(0) == c.nonce().wrapping_add(1),
            "C15.issuer.invalidate.nonce_moves_to_the_next_value"
        );
        prop!(model::slots_equal(&other_before, &model::slot(1)), "C15.issuer.invalidate.other_identity_topic_pairs_untouched");
        let m1 = V0::build_message(&e, &c.identity, c.topic, &c.data);
        prop!(m0 != m1, "C15.issuer.invalidate.message_differs_from_the_one_signed_before");
        prop!(
            e.crypto().sha256(&m1).to_bytes() != h0 && e.crypto().keccak256(&m1).to_bytes() != k0,
            "C15.issuer.invalidate.digest_differs_from_the_one_signed_before"
        );
        end_checks(2);
    }

    /// set_claim_revoked takes effect immediately, for exactly that claim
    #[kani::proof]
    #[kani::unwind(100)]
    pub fn c15_issuer_revocation() {
        setup_world();
        let e = Env::default();
        let c = draw();
        install(&c);
        let id2 = any_address();
        let t2: u32 = kani::any();
        let d2 = small_data();
        kani::assume(id2 != c.identity || t2 != c.topic || d2 != c.data);
        let dg1 = e.crypto().keccak256(&build_claim_identifier(&e, &c.identity, c.topic, &c.data)).to_bytes();
        let dg2 = e.crypto().keccak256(&build_claim_identifier(&e, &id2, t2, &d2)).to_bytes();
        let (p1, v1, p2, v2): (bool, bool, bool, bool) = (kani::any(), kani::any(), kani::any(), kani::any());
        model::declare_val(1, 0, &ClaimIssuerStorageKey::RevokedClaim(dg1), p1, &v1, 0);
        model::declare_val(2, 0, &ClaimIssuerStorageKey::RevokedClaim(dg2), p2, &v2, 0);
        let other_before = model::slot(2);
        let revoked: bool = kani::any();

        set_claim_revoked(&e, &c.identity, c.topic, &c.data, revoked);

        witness!(revoked && p1 && !v1, "revoke");
        witness!(!revoked && p1 && v1, "un_revoke");
        prop!(
            is_claim_revoked(&e, &c.identity, c.topic, &c.data) == revoked,
            "C15.issuer.set_claim_revoked.status_takes_effect_immediately"
        );
        prop!(model::slots_equal(&other_before, &model::slot(2)), "C15.issuer.set_claim_revoked.other_claims_untouched");
        end_checks(3);
    }

    /// decode_claim_data_expiration / is_claim_expired: expired exactly from `valid_until` on
    #[kani::proof]
    #[kani::unwind(100)]
    pub fn c15_issuer_expiry() {
        setup_world();
        let e = Env::default();
        let hdr: [u8; 16] = kani::any();
        let payload = small_data();
        let mut data = Bytes::from_array(&e, &hdr);
        data.append(&payload);
        let created = u64::from_be_bytes(sub::<8, 16>(&hdr, 0));
        let until = u64::from_be_bytes(sub::<8, 16>(&hdr, 8));
        let short: bool = kani::any();
        if short {
            let s = Bytes::arb();
            kani::assume(s.len() < 16);
            witness!(true, "short_data");
            let _ = is_claim_expired(&e, &s);
            prop!(false, "C15.issuer.is_claim_expired.data_without_expiration_header_is_refused");
        }
        let (c, v, rest) = decode_claim_data_expiration(&e, &data);
        let expired = is_claim_expired(&e, &data);
        witness!(expired, "expired");
        witness!(!expired && payload.len() == DMAX, "not_expired");
        witness!(world().timestamp == until, "exactly_at_valid_until");
        prop!(c == created && v == until && rest == payload, "C15.issuer.decode_claim_data_expiration.header_is_created_at_then_valid_until");
        prop!(expired == (world().timestamp >= until), "C15.issuer.is_claim_expired.expired_exactly_from_valid_until_on");
        end_checks(0);
    }

    // ------------------------------------------------------------------ key management (small capacities)
    fn listed(keys: &Vec<SigningKey>, present: bool, pk: &Bytes, scheme: u32) -> u32 {
        let mut n = 0;
        let mut k = 0;
        while k < CAP {
            if let Some(sk) = keys.get(k as u32) {
                if sk.public_key == *pk && sk.scheme == scheme {
                    n += 1;
                }
            }
            k += 1;
        }
        if present {
            n
        } else {
            0
        }
    }

    /// allow_key: the key signs for the topic from this invocation on; only for a topic the registry
    /// confirms for this issuer; keys of other topics and other keys of the topic keep their status
    #[kani::proof]
    #[kani::unwind(18)]
    pub fn c15_issuer_allow_key() {
        setup_world();
        let e = Env::default();
        let pk = Bytes::arb();
        let registry = any_address();
        let scheme: u32 = kani::any();
        let topic: u32 = kani::any();
        let t2: u32 = kani::any();
        kani::assume(t2 != topic);
        let (kp, pp, k2p): (bool, bool, bool) = (kani::any(), kani::any(), kani::any());
        let keys: Vec<SigningKey> = Vec::arb();
        let pairs: Vec<(u32, Address)> = Vec::arb();
        let keys2: Vec<SigningKey> = Vec::arb();
        // capacity bound: room for one more element
        kani::assume((keys.len() as usize) < CAP && (pairs.len() as usize) < CAP);
        model::declare_val(0, 0, &ClaimIssuerStorageKey::Topics(topic), kp, &keys, 0);
        model::declare_val(1, 0, &ClaimIssuerStorageKey::Pairs(SigningKey { public_key: pk.clone(), scheme }), pp, &pairs, 0);
        model::declare_val(2, 0, &ClaimIssuerStorageKey::Topics(t2), k2p, &keys2, 0);
        let other_pk = Bytes::arb();
        let other_scheme: u32 = kani::any();
        let other_before = listed(&keys, kp, &other_pk, other_scheme) > 0;
        let t2_before = listed(&keys2, k2p, &pk, scheme) > 0;

        allow_key(&e, &pk, &registry, scheme, topic);

        witness!(listed(&keys, kp, &pk, scheme) == 0, "new_key_for_topic");
        witness!(listed(&keys, kp, &pk, scheme) > 0, "known_key_new_registry");
        let mut a = ArgBuf::new();
        a.push(&e.current_contract_address());
        a.push(&topic);
        let r = &world().calls[0];
        prop!(
            model::n_calls() == 1 && r.callee == registry.id && r.func == Symbol::of("has_claim_topic") && r.args.eq(&a)
                && !r.failed && r.ret[0] >> 56 == model::TAG_BOOL && r.ret[0] & 1 == 1,
            "C15.issuer.allow_key.only_for_a_topic_the_registry_confirms_for_this_issuer"
        );
        prop!(!pk.is_empty(), "C15.issuer.allow_key.empty_key_refused");
        prop!(is_key_allowed_for_topic(&e, &pk, scheme, topic), "C15.issuer.allow_key.key_allowed_for_topic_immediately");
        prop!(
            is_key_allowed_for_topic(&e, &pk, scheme, t2) == t2_before,
            "C15.issuer.allow_key.other_topics_unchanged"
        );
        if other_pk != pk || other_scheme != scheme {
            prop!(
                is_key_allowed_for_topic(&e, &other_pk, other_scheme, topic) == other_before,
                "C15.issuer.allow_key.other_keys_of_the_topic_unchanged"
            );
        }
        end_checks(3);
    }

    /// remove_key: with the last registry of (key, topic) gone the key stops signing for the topic
    /// in the same invocation; while another registry remains it keeps signing.
    /// Pre-state invariant (established by allow_key): a key is listed at most once per topic.
    #[kani::proof]
    #[kani::unwind(18)]
    pub fn c15_issuer_remove_key() {
        setup_world();
        let e = Env::default();
        let pk = Bytes::arb();
        let registry = any_address();
        let scheme: u32 = kani::any();
        let topic: u32 = kani::any();
        let (kp, pp): (bool, bool) = (kani::any(), kani::any());
        let keys: Vec<SigningKey> = Vec::arb();
        let pairs: Vec<(u32, Address)> = Vec::arb();
        kani::assume(listed(&keys, kp, &pk, scheme) <= 1);
        model::declare_val(0, 0, &ClaimIssuerStorageKey::Topics(topic), kp, &keys, 0);
        model::declare_val(1, 0, &ClaimIssuerStorageKey::Pairs(SigningKey { public_key: pk.clone(), scheme }), pp, &pairs, 0);
        let other_pk = Bytes::arb();
        let other_scheme: u32 = kani::any();
        let other_before = listed(&keys, kp, &other_pk, other_scheme) > 0;
        // the authorisation to remove and what remains for the topic afterwards
        let mut pos = CAP;
        let mut k = CAP;
        while k > 0 {
            k -= 1;
            if let Some((t, r)) = pairs.get(k as u32) {
                if t == topic && r == registry {
                    pos = k;
                }
            }
        }
        let mut topic_left = false;
        k = 0;
        while k < CAP {
            if let Some((t, _)) = pairs.get(k as u32) {
                if k != pos && t == topic {
                    topic_left = true;
                }
            }
            k += 1;
        }

        remove_key(&e, &pk, &registry, scheme, topic);

        witness!(!topic_left, "last_registry_removed");
        witness!(topic_left, "another_registry_remains");
        prop!(pp && pos < CAP, "C15.issuer.remove_key.only_an_existing_authorisation");
        let allowed = is_key_allowed_for_topic(&e, &pk, scheme, topic);
        if topic_left {
            prop!(allowed == (listed(&keys, kp, &pk, scheme) > 0), "C15.issuer.remove_key.status_kept_while_another_registry_remains");
        } else {
            prop!(!allowed, "C15.issuer.remove_key.key_disallowed_for_topic_immediately");
        }
        if other_pk != pk || other_scheme != scheme {
            prop!(
                is_key_allowed_for_topic(&e, &other_pk, other_scheme, topic) == other_before,
                "C15.issuer.remove_key.other_keys_of_the_topic_unchanged"
            );
        }
        end_checks(2);
    }
}
