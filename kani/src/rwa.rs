//! C04 (+ RWA flavour of C01 / C02): RWA token gates (stellar_tokens::rwa::RWA), one inductive step
//! from an arbitrary stored pre-state per entry point.
//!
//! Universe (base profile, NS = 12 slots):
//!   0..3   Balance(i), i < NA = 3                      persistent
//!   3..5   AddressFrozen(i), i < NF = 2                persistent
//!   5..7   FrozenTokens(i),  i < NF = 2                persistent
//!   7      TotalSupply                                 instance
//!   8      Paused                                      instance
//!   9      Compliance                                  instance
//!   10     IdentityVerifier                            instance
//!   11     Allowance(from, spender)  (transfer_from)   temporary
//! The parties of a call are drawn from the NF accounts that carry freeze state (both orders and
//! from == to are covered; account ids are interchangeable), the bystander is any other tracked
//! account. Representation invariant assumed in the pre-state:
//!   I1: balances >= 0, sum(tracked) + rest == supply (no overflow)       (as C01)
//!   I2: 0 <= frozen(a) <= balance(a)                                      (proved preserved here)
//! Compliance and identity-verifier contracts are foreign-call oracles (arbitrary answer / failure).
use soroban_sdk::model::{self, world, ArgBuf, TAG_ADDR, TAG_BOOL};
use soroban_sdk::{contracttype, Address, Env, Flat, MuxedAddress, Symbol};
use stellar_tokens::fungible::{AllowanceData, AllowanceKey, ContractOverrides, FungibleStorageKey, Transfer};
use stellar_tokens::rwa::{
    AddressFrozen, Burn, Mint, RWAStorageKey, RecoverySuccess, TokensFrozen, TokensUnfrozen, RWA,
};

use crate::util::*;

pub const NA: usize = 3;
pub const NF: usize = 2;
pub const S_AF: usize = NA;
pub const S_FT: usize = NA + NF;
pub const S_SUPPLY: usize = NA + 2 * NF;
pub const S_PAUSED: usize = S_SUPPLY + 1;
pub const S_COMPL: usize = S_SUPPLY + 2;
pub const S_IDV: usize = S_SUPPLY + 3;
pub const S_ALLOW: usize = S_SUPPLY + 4;
pub const DECLARED: usize = S_SUPPLY + 4;
pub const DECLARED_ALLOW: usize = S_SUPPLY + 5;

/// Mirror of `stellar_contract_utils::pausable::storage::PausableStorageKey` (private module there):
/// an enum key is encoded by its variant name, so this yields the same key words. The history
/// harness below checks against the real `pausable::pause` that this is the entry the code uses.
#[contracttype]
pub enum PausableStorageKey {
    Paused,
}


pub struct Pre {
    pub bal: [i128; NA],
    pub supply: i128,
    pub afrozen: [bool; NF],
    pub frozen: [i128; NF],
    pub paused: bool,
    pub compl_set: bool,
    pub compl: Address,
    pub idv_set: bool,
    pub idv: Address,
    pub token: Address,
}

pub fn declare_state() -> Pre {
    let seq = world().seq;
    let mut bal = [0i128; NA];
    let mut sum: i128 = 0;
    let mut i = 0;
    while i < NA {
        let present: bool = kani::any();
        let v: i128 = kani::any();
        kani::assume(v >= 0);
        let lu: u32 = kani::any();
        kani::assume(lu >= seq);
        model::declare_val(i, 0, &FungibleStorageKey::Balance(Address::from_id(i as u32)), present, &v, lu);
        bal[i] = if present { v } else { 0 };
        match sum.checked_add(bal[i]) {
            Some(s) => sum = s,
            None => kani::assume(false),
        }
        i += 1;
    }
    let rest: i128 = kani::any();
    kani::assume(rest >= 0);
    let supply = match sum.checked_add(rest) {
        Some(s) => s,
        None => {
            kani::assume(false);
            0
        }
    };
    let sp: bool = kani::any();
    kani::assume(sp || supply == 0);
    model::declare_val(S_SUPPLY, 2, &FungibleStorageKey::TotalSupply, sp, &supply, 0);

    let mut afrozen = [false; NF];
    let mut frozen = [0i128; NF];
    let mut i = 0;
    while i < NF {
        let a = Address::from_id(i as u32);
        let p: bool = kani::any();
        let v: bool = kani::any();
        let lu: u32 = kani::any();
        kani::assume(lu >= seq);
        model::declare_val(S_AF + i, 0, &RWAStorageKey::AddressFrozen(a.clone()), p, &v, lu);
        afrozen[i] = p && v;
        let p: bool = kani::any();
        let f: i128 = kani::any();
        let lu: u32 = kani::any();
        kani::assume(lu >= seq);
        model::declare_val(S_FT + i, 0, &RWAStorageKey::FrozenTokens(a), p, &f, lu);
        frozen[i] = if p { f } else { 0 };
        // I2
        kani::assume(0 <= frozen[i] && frozen[i] <= bal[i]);
        i += 1;
    }
    let pp: bool = kani::any();
    let pv: bool = kani::any();
    model::declare_val(S_PAUSED, 2, &PausableStorageKey::Paused, pp, &pv, 0);
    let compl_set: bool = kani::any();
    let compl = addr_below(model::NADDR as u32);
    model::declare_val(S_COMPL, 2, &RWAStorageKey::Compliance, compl_set, &compl, 0);
    let idv_set: bool = kani::any();
    let idv = addr_below(model::NADDR as u32);
    model::declare_val(S_IDV, 2, &RWAStorageKey::IdentityVerifier, idv_set, &idv, 0);
    Pre {
        bal,
        supply,
        afrozen,
        frozen,
        paused: pp && pv,
        compl_set,
        compl,
        idv_set,
        idv,
        token: Address::from_id(world().contract),
    }
}

// ---- pre-state readers (concrete-index scans)
pub fn bal_pre(p: &Pre, a: &Address) -> i128 {
    let mut r = 0;
    let mut i = 0;
    while i < NA {
        if a.id == i as u32 {
            r = p.bal[i];
        }
        i += 1;
    }
    r
}
pub fn frozen_pre(p: &Pre, a: &Address) -> i128 {
    let mut r = 0;
    let mut i = 0;
    while i < NF {
        if a.id == i as u32 {
            r = p.frozen[i];
        }
        i += 1;
    }
    r
}
pub fn afrozen_pre(p: &Pre, a: &Address) -> bool {
    let mut r = false;
    let mut i = 0;
    while i < NF {
        if a.id == i as u32 {
            r = p.afrozen[i];
        }
        i += 1;
    }
    r
}
// ---- post-state readers
pub fn bal_now(a: &Address) -> i128 {
    let mut r = 0;
    let mut i = 0;
    while i < NA {
        if a.id == i as u32 {
            r = if model::slot(i).present { model::slot_val::<i128>(i) } else { 0 };
        }
        i += 1;
    }
    r
}
pub fn frozen_now(a: &Address) -> i128 {
    let mut r = 0;
    let mut i = 0;
    while i < NF {
        if a.id == i as u32 {
            r = if model::slot(S_FT + i).present { model::slot_val::<i128>(S_FT + i) } else { 0 };
        }
        i += 1;
    }
    r
}
pub fn frozen_entry_present(a: &Address) -> bool {
    let mut r = false;
    let mut i = 0;
    while i < NF {
        if a.id == i as u32 {
            r = model::slot(S_FT + i).present;
        }
        i += 1;
    }
    r
}
pub fn afrozen_now(a: &Address) -> bool {
    let mut r = false;
    let mut i = 0;
    while i < NF {
        if a.id == i as u32 {
            r = model::slot(S_AF + i).present && model::slot_val::<bool>(S_AF + i);
        }
        i += 1;
    }
    r
}
pub fn supply_now() -> i128 {
    if model::slot(S_SUPPLY).present {
        model::slot_val::<i128>(S_SUPPLY)
    } else {
        0
    }
}
pub fn paused_now() -> bool {
    model::slot(S_PAUSED).present && model::slot_val::<bool>(S_PAUSED)
}
/// I2 for one account in the post-state
pub fn i2_now(a: &Address) -> bool {
    let f = frozen_now(a);
    0 <= f && f <= bal_now(a)
}
/// the configuration entries (pause flag, compliance, identity verifier) are untouched
pub fn config_unchanged(p: &Pre) -> bool {
    let c = model::slot(S_COMPL);
    let v = model::slot(S_IDV);
    paused_now() == p.paused
        && c.present == p.compl_set
        && (!c.present || model::slot_val::<Address>(S_COMPL) == p.compl)
        && v.present == p.idv_set
        && (!v.present || model::slot_val::<Address>(S_IDV) == p.idv)
}
/// address-frozen flags of all freeze-tracked accounts are untouched
pub fn flags_unchanged(p: &Pre) -> bool {
    let mut r = true;
    let mut i = 0;
    while i < NF {
        r &= afrozen_now(&Address::from_id(i as u32)) == p.afrozen[i];
        i += 1;
    }
    r
}
/// partially-frozen amounts of all freeze-tracked accounts are untouched
pub fn frozen_unchanged(p: &Pre) -> bool {
    let mut r = true;
    let mut i = 0;
    while i < NF {
        r &= frozen_now(&Address::from_id(i as u32)) == p.frozen[i];
        i += 1;
    }
    r
}
pub fn balances_unchanged(p: &Pre) -> bool {
    let mut r = true;
    let mut i = 0;
    while i < NA {
        r &= bal_now(&Address::from_id(i as u32)) == p.bal[i];
        i += 1;
    }
    r
}

// ---- foreign-call log
/// (callee, func, args) was called at least once and every such call returned (did not fail)
pub fn called_ok(callee: &Address, func: u64, args: &ArgBuf) -> bool {
    let mut n = 0u32;
    let mut ok = true;
    let mut i = 0;
    while i < model::NC {
        if (i as u32) < model::n_calls() {
            let c = model::call_at(i);
            if c.callee == callee.id && c.func == func && c.args.eq(args) {
                n += 1;
                ok &= !c.failed;
            }
        }
        i += 1;
    }
    n >= 1 && ok
}
/// (callee, func, args) was asked at least once and every such call answered `true`
pub fn asked_true(callee: &Address, func: u64, args: &ArgBuf) -> bool {
    let mut n = 0u32;
    let mut ok = true;
    let mut i = 0;
    while i < model::NC {
        if (i as u32) < model::n_calls() {
            let c = model::call_at(i);
            if c.callee == callee.id && c.func == func && c.args.eq(args) {
                n += 1;
                // decoded exactly as `<bool as Flat>::unflat` does (tag + lowest bit)
                ok &= !c.failed && (c.ret[0] >> 56) == TAG_BOOL && c.ret[0] & 1 == 1;
            }
        }
        i += 1;
    }
    n >= 1 && ok
}
/// exactly one call of `func` on `callee`, and it carries exactly `args`
/// exactly one call of `func` on `callee`, with exactly these arguments, and it was DELIVERED: a hook invoked through a
/// `try_` client whose failure is swallowed leaves the compliance contract without the notification (its effects
/// roll back) although the token operation succeeds
pub fn once_exact(callee: &Address, func: u64, args: &ArgBuf) -> bool {
    let mut delivered = 0u32;
    let mut i = 0;
    while i < model::NC {
        if (i as u32) < model::n_calls() {
            let c = model::call_at(i);
            if c.callee == callee.id && c.func == func && c.args.eq(args) && !c.failed {
                delivered += 1;
            }
        }
        i += 1;
    }
    model::call_count_fn(callee, func) == 1 && model::call_count(callee, func, args) == 1 && delivered == 1
}
pub fn args1(a: &Address) -> ArgBuf {
    let mut b = ArgBuf::new();
    b.push(a);
    b
}
pub fn args_amount(a: &Address, amount: i128, token: &Address) -> ArgBuf {
    let mut b = ArgBuf::new();
    b.push(a);
    b.push(&amount);
    b.push(token);
    b
}
pub fn args_transfer(from: &Address, to: &Address, amount: i128, token: &Address) -> ArgBuf {
    let mut b = ArgBuf::new();
    b.push(from);
    b.push(to);
    b.push(&amount);
    b.push(token);
    b
}
const F_VERIFY: u64 = Symbol::of("verify_identity");
const F_RECOVERY_TARGET: u64 = Symbol::of("recovery_target");
const F_CAN_TRANSFER: u64 = Symbol::of("can_transfer");
const F_CAN_CREATE: u64 = Symbol::of("can_create");
const F_TRANSFERRED: u64 = Symbol::of("transferred");
const F_CREATED: u64 = Symbol::of("created");
const F_DESTROYED: u64 = Symbol::of("destroyed");

/// no compliance hook other than the expected one fired
pub fn hooks_count(p: &Pre) -> (u32, u32, u32) {
    (
        model::call_count_fn(&p.compl, F_TRANSFERRED),
        model::call_count_fn(&p.compl, F_CREATED),
        model::call_count_fn(&p.compl, F_DESTROYED),
    )
}

/// The five gates of a holder-initiated transfer, asserted over the pre-state and the call log.
/// Kani assumes an assertion after checking it, so the clauses sit in the branches of an arbitrary
/// selector: each gate is checked on its own (a missing gate cannot hide the next one).
macro_rules! gates {
    ($pre:expr, $from:expr, $to:expr, $amount:expr, $p:literal) => {
        let g_paused = !$pre.paused;
        let g_frozen = !afrozen_pre(&$pre, &$from) && !afrozen_pre(&$pre, &$to);
        let g_free = $amount <= bal_pre(&$pre, &$from) - frozen_pre(&$pre, &$from);
        let g_ident = $pre.idv_set && called_ok(&$pre.idv, F_VERIFY, &args1(&$from)) && called_ok(&$pre.idv, F_VERIFY, &args1(&$to));
        let g_compl = $pre.compl_set && asked_true(&$pre.compl, F_CAN_TRANSFER, &args_transfer(&$from, &$to, $amount, &$pre.token));
        let which: u8 = kani::any();
        if which == 0 {
            prop!(g_paused, concat!($p, ".not_paused"));
        } else if which == 1 {
            prop!(g_frozen, concat!($p, ".neither_party_frozen"));
        } else if which == 2 {
            prop!(g_free, concat!($p, ".amount_within_free_balance"));
        } else if which == 3 {
            prop!(g_ident, concat!($p, ".both_identities_verified"));
        } else {
            prop!(g_compl, concat!($p, ".compliance_approved"));
        }
    };
}

/// balance / supply / event / hook post-conditions shared by every flavour of transfer
macro_rules! moved {
    ($pre:expr, $from:expr, $to:expr, $by:expr, $amount:expr, $p1:literal, $p4:literal) => {
        prop!($amount >= 0, concat!($p1, ".amount_nonneg"));
        prop!(bal_pre(&$pre, &$from) >= $amount, concat!($p1, ".sufficient_balance"));
        if $from != $to {
            prop!(bal_now(&$from) == bal_pre(&$pre, &$from) - $amount, concat!($p1, ".from_debited_exactly"));
            prop!(bal_now(&$to) == bal_pre(&$pre, &$to) + $amount, concat!($p1, ".to_credited_exactly"));
        } else {
            prop!(bal_now(&$from) == bal_pre(&$pre, &$from), concat!($p1, ".self_transfer_neutral"));
        }
        prop!(bal_now(&$by) == bal_pre(&$pre, &$by), concat!($p1, ".bystander_unchanged"));
        prop!(supply_now() == $pre.supply, concat!($p1, ".supply_unchanged"));
        prop!(
            $pre.compl_set && once_exact(&$pre.compl, F_TRANSFERRED, &args_transfer(&$from, &$to, $amount, &$pre.token)),
            concat!($p4, ".transferred_hook_exactly_once_exact_args")
        );
        prop!(hooks_count(&$pre) == (1, 0, 0), concat!($p4, ".no_other_compliance_hook"));
        prop!(config_unchanged(&$pre) && flags_unchanged(&$pre), concat!($p4, ".config_and_freeze_flags_unchanged"));
    };
}

// ------------------------------------------------------------------ transfer
#[kani::proof]
#[kani::unwind(18)]
pub fn c04_transfer() {
    setup_world();
    let e = Env::default();
    let pre = declare_state();
    let from = addr_below(NF as u32);
    let to = addr_below(NF as u32);
    let by = addr_below(NA as u32);
    kani::assume(by != from && by != to);
    let amount: i128 = kani::any();
    // through the `ContractOverrides` wiring the token contract uses (drops the muxed id, then RWA::transfer)
    let to_m = MuxedAddress { addr: to.clone(), mux: kani::any() };

    <RWA as ContractOverrides>::transfer(&e, &from, &to_m, amount);
    // reachability witnesses first: Kani assumes a clause once it has been checked
    witness!(amount > 0 && from != to, "rwa.transfer.moves");
    witness!(amount > 0 && from == to, "rwa.transfer.self");
    witness!(amount > 0 && frozen_pre(&pre, &from) > 0 && amount == bal_pre(&pre, &from) - frozen_pre(&pre, &from), "rwa.transfer.exactly_the_free_part");
    witness!(pre.compl == pre.idv, "rwa.transfer.same_contract_for_both_roles");

    prop!(authorized(&from), "C02.rwa.transfer.from_authorized");
    gates!(pre, from, to, amount, "C04.rwa.transfer.gates");
    moved!(pre, from, to, by, amount, "C01.rwa.transfer", "C04.rwa.transfer");
    prop!(frozen_unchanged(&pre), "C04.rwa.transfer.frozen_amounts_unchanged");
    prop!(i2_now(&from) && i2_now(&to), "C04.rwa.transfer.frozen_le_balance_preserved");
    prop!(model::n_calls() == 4, "C04.rwa.transfer.exactly_the_four_foreign_calls");
    let ev = Transfer { from: from.clone(), to: to.clone(), to_muxed_id: None, amount };
    prop!(model::n_events() == 1 && model::event_is(0, Transfer::EVENT_ID, &ev.event_words()), "C01.rwa.transfer.one_exact_event");
    end_checks(DECLARED);
}

// ------------------------------------------------------------------ transfer_from
pub struct AllowPre {
    pub present: bool,
    pub data_amount: i128,
    pub data_live_until: u32,
    pub entry_live_until: u32,
}
pub fn declare_allowance(owner: &Address, spender: &Address) -> AllowPre {
    let present: bool = kani::any();
    let amount: i128 = kani::any();
    kani::assume(amount >= 0);
    let lul: u32 = kani::any();
    let entry: u32 = kani::any();
    let key = FungibleStorageKey::Allowance(AllowanceKey { owner: owner.clone(), spender: spender.clone() });
    model::declare_val(S_ALLOW, 1, &key, present, &AllowanceData { amount, live_until_ledger: lul }, entry);
    AllowPre { present, data_amount: amount, data_live_until: lul, entry_live_until: entry }
}
pub fn allowance_worth(a: &AllowPre) -> i128 {
    let seq = world().seq;
    if a.present && a.entry_live_until >= seq && a.data_live_until >= seq {
        a.data_amount
    } else {
        0
    }
}
pub fn allowance_worth_now() -> i128 {
    let seq = world().seq;
    let s = model::slot(S_ALLOW);
    if s.present && s.live_until >= seq {
        let d: AllowanceData = model::slot_val(S_ALLOW);
        if d.live_until_ledger >= seq {
            d.amount
        } else {
            0
        }
    } else {
        0
    }
}

#[kani::proof]
#[kani::unwind(18)]
pub fn c04_transfer_from() {
    setup_world();
    let e = Env::default();
    let pre = declare_state();
    let spender = addr_below(model::NADDR as u32);
    let from = addr_below(NF as u32);
    let to = addr_below(NF as u32);
    let by = addr_below(NA as u32);
    kani::assume(by != from && by != to);
    let al = declare_allowance(&from, &spender);
    let amount: i128 = kani::any();

    // through the `ContractOverrides` wiring the token contract uses (-> RWA::transfer_from)
    <RWA as ContractOverrides>::transfer_from(&e, &spender, &from, &to, amount);
    // reachability witnesses first: Kani assumes a clause once it has been checked
    witness!(amount > 0 && from != to && spender != from, "rwa.transfer_from.moves");
    witness!(amount > 0 && allowance_worth_now() > 0, "rwa.transfer_from.partial_spend");

    prop!(authorized(&spender), "C02.rwa.transfer_from.spender_authorized");
    prop!(allowance_worth(&al) >= amount, "C02.rwa.transfer_from.allowance_live_and_sufficient");
    prop!(allowance_worth_now() == allowance_worth(&al) - amount, "C02.rwa.transfer_from.allowance_drops_by_exactly_amount");
    moved!(pre, from, to, by, amount, "C01.rwa.transfer_from", "C04.rwa.transfer_from");
    prop!(frozen_unchanged(&pre), "C04.rwa.transfer_from.frozen_amounts_unchanged");
    // I2 is exactly what the free-balance gate protects: (gate) and (gate => I2') together give I2'
    if amount <= bal_pre(&pre, &from) - frozen_pre(&pre, &from) {
        prop!(i2_now(&from) && i2_now(&to), "C04.rwa.transfer_from.frozen_le_balance_preserved_when_free_balance_gate_held");
    }
    let ev = Transfer { from: from.clone(), to: to.clone(), to_muxed_id: None, amount };
    prop!(model::n_events() == 1 && model::event_is(0, Transfer::EVENT_ID, &ev.event_words()), "C01.rwa.transfer_from.one_exact_event");
    end_checks(DECLARED_ALLOW);
    // last, so that a missing gate does not mask the clauses above.
    // DESIGN.md C04 predicts a genuine violation here: RWA::transfer_from never calls validate_transfer
    gates!(pre, from, to, amount, "C04.rwa.transfer_from.gates_checked_on_allowance_transfer");
}

/// the gate routine itself: returns only through all gates, and changes nothing
#[kani::proof]
#[kani::unwind(18)]
pub fn c04_validate_transfer() {
    setup_world();
    let e = Env::default();
    let pre = declare_state();
    let from = addr_below(NF as u32);
    let to = addr_below(NF as u32);
    let amount: i128 = kani::any();

    RWA::validate_transfer(&e, &from, &to, amount);
    // reachability witnesses first: Kani assumes a clause once it has been checked
    witness!(amount > 0 && from != to, "rwa.validate_transfer.passes");
    witness!(amount < 0, "rwa.validate_transfer.negative_amount_passes_the_gates");

    gates!(pre, from, to, amount, "C04.rwa.validate_transfer.gates");
    prop!(
        balances_unchanged(&pre) && frozen_unchanged(&pre) && flags_unchanged(&pre) && config_unchanged(&pre) && supply_now() == pre.supply,
        "C04.rwa.validate_transfer.changes_nothing"
    );
    prop!(model::n_events() == 0 && hooks_count(&pre) == (0, 0, 0), "C04.rwa.validate_transfer.no_event_no_hook");
    end_checks(DECLARED);
}

// ------------------------------------------------------------------ mint
#[kani::proof]
#[kani::unwind(18)]
pub fn c04_mint() {
    setup_world();
    let e = Env::default();
    let pre = declare_state();
    let to = addr_below(NF as u32);
    let by = addr_below(NA as u32);
    kani::assume(by != to);
    let amount: i128 = kani::any();

    RWA::mint(&e, &to, amount);
    // reachability witnesses first: Kani assumes a clause once it has been checked
    witness!(amount > 0, "rwa.mint.positive");
    witness!(amount > 0 && pre.paused && afrozen_pre(&pre, &to), "rwa.mint.while_paused_and_frozen");

    prop!(pre.idv_set && called_ok(&pre.idv, F_VERIFY, &args1(&to)), "C04.rwa.mint.recipient_identity_verified");
    prop!(pre.compl_set && asked_true(&pre.compl, F_CAN_CREATE, &args_amount(&to, amount, &pre.token)), "C04.rwa.mint.compliance_can_create_true");
    prop!(once_exact(&pre.compl, F_CREATED, &args_amount(&to, amount, &pre.token)), "C04.rwa.mint.created_hook_exactly_once_exact_args");
    prop!(hooks_count(&pre) == (0, 1, 0), "C04.rwa.mint.no_other_compliance_hook");
    prop!(model::n_calls() == 3, "C04.rwa.mint.exactly_the_three_foreign_calls");
    prop!(amount >= 0, "C01.rwa.mint.amount_nonneg");
    prop!(pre.supply.checked_add(amount).is_some() && supply_now() == pre.supply + amount, "C01.rwa.mint.supply_plus_amount");
    prop!(bal_now(&to) == bal_pre(&pre, &to) + amount, "C01.rwa.mint.to_credited_exactly");
    prop!(bal_now(&by) == bal_pre(&pre, &by), "C01.rwa.mint.bystander_unchanged");
    prop!(frozen_unchanged(&pre) && flags_unchanged(&pre) && config_unchanged(&pre), "C04.rwa.mint.freeze_state_and_config_unchanged");
    prop!(i2_now(&to), "C04.rwa.mint.frozen_le_balance_preserved");
    let ev = Mint { to: to.clone(), amount };
    prop!(model::n_events() == 1 && model::event_is(0, Mint::EVENT_ID, &ev.event_words()), "C01.rwa.mint.one_exact_event");
    end_checks(DECLARED);
}

// ------------------------------------------------------------------ supervisory: forced_transfer / burn
/// what a supervisory debit of `amount` must unfreeze: max(0, amount - free)
pub fn must_unfreeze(p: &Pre, a: &Address, amount: i128) -> i128 {
    let free = bal_pre(p, a) - frozen_pre(p, a);
    if amount > free {
        amount - free
    } else {
        0
    }
}

/// The invariant clause I2 of the three supervisory entry points lives in a twin harness of its own
/// (`*_i2`): it is the one non-local arithmetic fact (it costs the solver more than all other clauses
/// together), so the twins run in parallel. Both twins share the set-up + call + witnesses below.
pub struct Sup {
    pub pre: Pre,
    pub from: Address,
    pub to: Address,
    pub by: Address,
    pub amount: i128,
    pub un: i128,
    pub ft_present_pre: bool,
}
fn forced_transfer_call() -> Sup {
    setup_world();
    let e = Env::default();
    let pre = declare_state();
    let from = addr_below(NF as u32);
    let to = addr_below(NF as u32);
    let by = addr_below(NA as u32);
    kani::assume(by != from && by != to);
    let amount: i128 = kani::any();
    let ft_present_pre = frozen_entry_present(&from);

    RWA::forced_transfer(&e, &from, &to, amount);
    let un = must_unfreeze(&pre, &from, amount);
    // reachability witnesses first: Kani assumes a clause once it has been checked
    witness!(un > 0 && amount < bal_pre(&pre, &from) && from != to, "rwa.forced_transfer.partial_unfreeze");
    witness!(un == 0 && amount > 0 && frozen_pre(&pre, &from) > 0, "rwa.forced_transfer.free_part_only");
    witness!(amount > 0 && pre.paused && afrozen_pre(&pre, &from) && afrozen_pre(&pre, &to), "rwa.forced_transfer.through_pause_and_freeze");
    witness!(un > 0 && from == to, "rwa.forced_transfer.self_unfreezes");
    Sup { pre, from, to, by, amount, un, ft_present_pre }
}

#[kani::proof]
#[kani::unwind(18)]
pub fn c04_forced_transfer_i2() {
    let Sup { from, to, .. } = forced_transfer_call();
    prop!(i2_now(&from) && i2_now(&to), "C04.rwa.forced_transfer.frozen_le_balance_preserved");
    end_checks(DECLARED);
}

#[kani::proof]
#[kani::unwind(18)]
pub fn c04_forced_transfer() {
    let Sup { pre, from, to, by, amount, un, ft_present_pre } = forced_transfer_call();
    moved!(pre, from, to, by, amount, "C01.rwa.forced_transfer", "C04.rwa.forced_transfer");
    prop!(frozen_now(&from) == frozen_pre(&pre, &from) - un, "C04.rwa.forced_transfer.unfreezes_exactly_the_shortfall");
    if to != from {
        prop!(frozen_now(&to) == frozen_pre(&pre, &to), "C04.rwa.forced_transfer.receiver_frozen_amount_unchanged");
    }
    prop!(frozen_now(&by) == frozen_pre(&pre, &by), "C04.rwa.forced_transfer.bystander_frozen_amount_unchanged");
    prop!(model::n_calls() == 1, "C04.rwa.forced_transfer.no_other_foreign_call");
    let tr = Transfer { from: from.clone(), to: to.clone(), to_muxed_id: None, amount };
    if un > 0 {
        let uf = TokensUnfrozen { user_address: from.clone(), amount: un };
        prop!(
            model::n_events() == 2
                && model::event_is(0, TokensUnfrozen::EVENT_ID, &uf.event_words())
                && model::event_is(1, Transfer::EVENT_ID, &tr.event_words()),
            "C04.rwa.forced_transfer.unfrozen_and_transfer_events_exact"
        );
    } else {
        prop!(model::n_events() == 1 && model::event_is(0, Transfer::EVENT_ID, &tr.event_words()), "C01.rwa.forced_transfer.one_exact_event");
        prop!(frozen_entry_present(&from) == ft_present_pre, "C04.rwa.forced_transfer.no_frozen_entry_written_when_free_balance_suffices");
    }
    end_checks(DECLARED);
}

fn burn_call() -> Sup {
    setup_world();
    let e = Env::default();
    let pre = declare_state();
    let from = addr_below(NF as u32);
    let by = addr_below(NA as u32);
    kani::assume(by != from);
    let amount: i128 = kani::any();

    RWA::burn(&e, &from, amount);
    let un = must_unfreeze(&pre, &from, amount);
    // reachability witnesses first: Kani assumes a clause once it has been checked
    witness!(un > 0 && amount < bal_pre(&pre, &from), "rwa.burn.partial_unfreeze");
    witness!(un == 0 && amount > 0 && frozen_pre(&pre, &from) > 0, "rwa.burn.free_part_only");
    witness!(amount > 0 && pre.paused && afrozen_pre(&pre, &from), "rwa.burn.through_pause_and_freeze");
    Sup { pre, to: from.clone(), from, by, amount, un, ft_present_pre: false }
}

#[kani::proof]
#[kani::unwind(18)]
pub fn c04_burn_i2() {
    let Sup { from, .. } = burn_call();
    prop!(i2_now(&from), "C04.rwa.burn.frozen_le_balance_preserved");
    end_checks(DECLARED);
}

#[kani::proof]
#[kani::unwind(18)]
pub fn c04_burn() {
    let Sup { pre, from, by, amount, un, .. } = burn_call();
    prop!(amount >= 0, "C01.rwa.burn.amount_nonneg");
    prop!(bal_pre(&pre, &from) >= amount, "C01.rwa.burn.sufficient_balance");
    prop!(bal_now(&from) == bal_pre(&pre, &from) - amount, "C01.rwa.burn.from_debited_exactly");
    prop!(supply_now() == pre.supply - amount && supply_now() >= 0, "C01.rwa.burn.supply_minus_amount");
    prop!(bal_now(&by) == bal_pre(&pre, &by), "C01.rwa.burn.bystander_unchanged");
    prop!(frozen_now(&from) == frozen_pre(&pre, &from) - un, "C04.rwa.burn.unfreezes_exactly_the_shortfall");
    prop!(frozen_now(&by) == frozen_pre(&pre, &by), "C04.rwa.burn.bystander_frozen_amount_unchanged");
    prop!(pre.compl_set && once_exact(&pre.compl, F_DESTROYED, &args_amount(&from, amount, &pre.token)), "C04.rwa.burn.destroyed_hook_exactly_once_exact_args");
    prop!(hooks_count(&pre) == (0, 0, 1) && model::n_calls() == 1, "C04.rwa.burn.no_other_foreign_call");
    prop!(config_unchanged(&pre) && flags_unchanged(&pre), "C04.rwa.burn.config_and_freeze_flags_unchanged");
    let bu = Burn { from: from.clone(), amount };
    if un > 0 {
        let uf = TokensUnfrozen { user_address: from.clone(), amount: un };
        prop!(
            model::n_events() == 2
                && model::event_is(0, TokensUnfrozen::EVENT_ID, &uf.event_words())
                && model::event_is(1, Burn::EVENT_ID, &bu.event_words()),
            "C04.rwa.burn.unfrozen_and_burn_events_exact"
        );
    } else {
        prop!(model::n_events() == 1 && model::event_is(0, Burn::EVENT_ID, &bu.event_words()), "C01.rwa.burn.one_exact_event");
    }
    end_checks(DECLARED);
}

// ------------------------------------------------------------------ recovery
/// the identity verifier's logged answer to `recovery_target(old)` was `Some(new)`
pub fn recovery_target_was(p: &Pre, old: &Address, new: &Address) -> bool {
    let want = model::val_of(&Some(new.clone()));
    let args = args1(old);
    let mut n = 0u32;
    let mut ok = true;
    let mut i = 0;
    while i < model::NC {
        if (i as u32) < model::n_calls() {
            let c = model::call_at(i);
            if c.callee == p.idv.id && c.func == F_RECOVERY_TARGET && c.args.eq(&args) {
                n += 1;
                // decoded as `<Option<Address> as Flat>::unflat` does
                ok &= !c.failed && c.ret[0] == want[0] && (c.ret[1] >> 56) == TAG_ADDR && c.ret[1] as u32 == new.id;
            }
        }
        i += 1;
    }
    n >= 1 && ok
}

pub struct Rec {
    pub pre: Pre,
    pub old: Address,
    pub new: Address,
    pub by: Address,
    pub r: bool,
    pub lost: i128,
    pub f: i128,
    pub flag: bool,
}
fn recover_call() -> Rec {
    setup_world();
    let e = Env::default();
    let pre = declare_state();
    let old = addr_below(NF as u32);
    let new = addr_below(NF as u32);
    let by = addr_below(NA as u32);
    kani::assume(by != old && by != new);

    let r = RWA::recover_balance(&e, &old, &new);

    let lost = bal_pre(&pre, &old);
    let f = frozen_pre(&pre, &old);
    let flag = afrozen_pre(&pre, &old);
    // reachability witnesses first: Kani assumes a clause once it has been checked
    witness!(r && old != new && f > 0 && f < lost && flag && frozen_pre(&pre, &new) > 0, "rwa.recover.carries_partial_freeze_and_flag");
    witness!(r && old != new && f == 0 && !flag, "rwa.recover.plain");
    witness!(!r, "rwa.recover.nothing_to_recover");
    witness!(r && old == new, "rwa.recover.self");
    witness!(r && pre.paused, "rwa.recover.while_paused");
    Rec { pre, old, new, by, r, lost, f, flag }
}

#[kani::proof]
#[kani::unwind(18)]
pub fn c04_recover_balance_i2() {
    let Rec { old, new, .. } = recover_call();
    prop!(i2_now(&old) && i2_now(&new), "C04.rwa.recover.frozen_le_balance_preserved");
    end_checks(DECLARED);
}

#[kani::proof]
#[kani::unwind(18)]
pub fn c04_recover_balance() {
    let Rec { pre, old, new, by, r, lost, f, flag } = recover_call();
    prop!(pre.idv_set && called_ok(&pre.idv, F_VERIFY, &args1(&new)), "C04.rwa.recover.new_account_identity_verified");
    prop!(pre.idv_set && recovery_target_was(&pre, &old, &new), "C04.rwa.recover.only_to_registered_recovery_target");
    prop!(r == (lost != 0), "C04.rwa.recover.returns_whether_anything_moved");
    prop!(bal_now(&by) == bal_pre(&pre, &by) && frozen_now(&by) == frozen_pre(&pre, &by) && afrozen_now(&by) == afrozen_pre(&pre, &by), "C01.rwa.recover.bystander_unchanged");
    prop!(supply_now() == pre.supply, "C01.rwa.recover.supply_unchanged");
    prop!(config_unchanged(&pre), "C04.rwa.recover.config_unchanged");
    if !r {
        prop!(balances_unchanged(&pre) && frozen_unchanged(&pre) && flags_unchanged(&pre), "C04.rwa.recover.nothing_to_recover_changes_nothing");
        prop!(model::n_events() == 0 && hooks_count(&pre) == (0, 0, 0) && model::n_calls() == 2, "C04.rwa.recover.nothing_to_recover_no_event_no_hook");
    } else {
        if old != new {
            prop!(bal_now(&old) == 0 && bal_now(&new) == bal_pre(&pre, &new) + lost, "C04.rwa.recover.moves_whole_balance");
            prop!(frozen_now(&old) == 0 && frozen_now(&new) == frozen_pre(&pre, &new) + f, "C04.rwa.recover.frozen_amount_carried_over");
            prop!(afrozen_now(&new) == (afrozen_pre(&pre, &new) || flag) && afrozen_now(&old) == flag, "C04.rwa.recover.address_freeze_carried_over");
        } else {
            prop!(balances_unchanged(&pre) && frozen_unchanged(&pre) && flags_unchanged(&pre), "C04.rwa.recover.self_recovery_neutral");
        }
        prop!(pre.compl_set && once_exact(&pre.compl, F_TRANSFERRED, &args_transfer(&old, &new, lost, &pre.token)), "C04.rwa.recover.transferred_hook_exactly_once_exact_args");
        prop!(hooks_count(&pre) == (1, 0, 0) && model::n_calls() == 3, "C04.rwa.recover.no_other_foreign_call");
        // event sequence: [TokensUnfrozen(old, f)]? Transfer(old, new, lost) [TokensFrozen(new, f)]? [AddressFrozen(new, true)]? RecoverySuccess
        let k0: usize = if f > 0 { 1 } else { 0 };
        let tr = Transfer { from: old.clone(), to: new.clone(), to_muxed_id: None, amount: lost };
        let uf = TokensUnfrozen { user_address: old.clone(), amount: f };
        let fr = TokensFrozen { user_address: new.clone(), amount: f };
        let af = AddressFrozen { user_address: new.clone(), is_frozen: true };
        let rs = RecoverySuccess { old_account: old.clone(), new_account: new.clone() };
        let n_exp = 2 + 2 * (k0 as u32) + (flag as u32);
        prop!(model::n_events() == n_exp, "C04.rwa.recover.event_count");
        if f > 0 {
            prop!(model::event_is(0, TokensUnfrozen::EVENT_ID, &uf.event_words()) && model::event_is(1, Transfer::EVENT_ID, &tr.event_words()) && model::event_is(2, TokensFrozen::EVENT_ID, &fr.event_words()), "C04.rwa.recover.events_exact_with_partial_freeze");
            if flag {
                prop!(model::event_is(3, AddressFrozen::EVENT_ID, &af.event_words()) && model::event_is(4, RecoverySuccess::EVENT_ID, &rs.event_words()), "C04.rwa.recover.events_exact_tail");
            } else {
                prop!(model::event_is(3, RecoverySuccess::EVENT_ID, &rs.event_words()), "C04.rwa.recover.events_exact_tail");
            }
        } else {
            prop!(model::event_is(0, Transfer::EVENT_ID, &tr.event_words()), "C04.rwa.recover.events_exact_without_partial_freeze");
            if flag {
                prop!(model::event_is(1, AddressFrozen::EVENT_ID, &af.event_words()) && model::event_is(2, RecoverySuccess::EVENT_ID, &rs.event_words()), "C04.rwa.recover.events_exact_tail");
            } else {
                prop!(model::event_is(1, RecoverySuccess::EVENT_ID, &rs.event_words()), "C04.rwa.recover.events_exact_tail");
            }
        }
    }
    end_checks(DECLARED);
}

// ------------------------------------------------------------------ freeze bookkeeping
#[kani::proof]
#[kani::unwind(18)]
pub fn c04_freeze_partial_tokens() {
    setup_world();
    let e = Env::default();
    let pre = declare_state();
    let user = addr_below(NF as u32);
    let other = addr_below(NF as u32);
    kani::assume(other != user);
    let amount: i128 = kani::any();

    RWA::freeze_partial_tokens(&e, &user, amount);
    // reachability witnesses first: Kani assumes a clause once it has been checked
    witness!(amount > 0 && frozen_now(&user) == bal_now(&user), "rwa.freeze_partial.up_to_whole_balance");
    witness!(amount > 0 && frozen_pre(&pre, &user) > 0, "rwa.freeze_partial.on_top");

    prop!(amount >= 0, "C04.rwa.freeze_partial.amount_nonneg");
    prop!(frozen_pre(&pre, &user).checked_add(amount).is_some() && frozen_now(&user) == frozen_pre(&pre, &user) + amount, "C04.rwa.freeze_partial.frozen_plus_amount");
    prop!(i2_now(&user), "C04.rwa.freeze_partial.frozen_le_balance_preserved");
    prop!(frozen_now(&other) == frozen_pre(&pre, &other), "C04.rwa.freeze_partial.other_account_unchanged");
    prop!(balances_unchanged(&pre) && supply_now() == pre.supply && flags_unchanged(&pre) && config_unchanged(&pre), "C04.rwa.freeze_partial.nothing_else_changes");
    let ev = TokensFrozen { user_address: user.clone(), amount };
    prop!(model::n_events() == 1 && model::event_is(0, TokensFrozen::EVENT_ID, &ev.event_words()) && model::n_calls() == 0, "C04.rwa.freeze_partial.one_exact_event_no_foreign_call");
    end_checks(DECLARED);
}

#[kani::proof]
#[kani::unwind(18)]
pub fn c04_unfreeze_partial_tokens() {
    setup_world();
    let e = Env::default();
    let pre = declare_state();
    let user = addr_below(NF as u32);
    let other = addr_below(NF as u32);
    kani::assume(other != user);
    let amount: i128 = kani::any();

    RWA::unfreeze_partial_tokens(&e, &user, amount);
    // reachability witnesses first: Kani assumes a clause once it has been checked
    witness!(amount > 0 && frozen_now(&user) == 0, "rwa.unfreeze_partial.all");
    witness!(amount > 0 && frozen_now(&user) > 0, "rwa.unfreeze_partial.some");

    prop!(amount >= 0, "C04.rwa.unfreeze_partial.amount_nonneg");
    prop!(amount <= frozen_pre(&pre, &user) && frozen_now(&user) == frozen_pre(&pre, &user) - amount, "C04.rwa.unfreeze_partial.frozen_minus_amount");
    prop!(i2_now(&user), "C04.rwa.unfreeze_partial.frozen_le_balance_preserved");
    prop!(frozen_now(&other) == frozen_pre(&pre, &other), "C04.rwa.unfreeze_partial.other_account_unchanged");
    prop!(balances_unchanged(&pre) && supply_now() == pre.supply && flags_unchanged(&pre) && config_unchanged(&pre), "C04.rwa.unfreeze_partial.nothing_else_changes");
    let ev = TokensUnfrozen { user_address: user.clone(), amount };
    prop!(model::n_events() == 1 && model::event_is(0, TokensUnfrozen::EVENT_ID, &ev.event_words()) && model::n_calls() == 0, "C04.rwa.unfreeze_partial.one_exact_event_no_foreign_call");
    end_checks(DECLARED);
}

#[kani::proof]
#[kani::unwind(18)]
pub fn c04_set_address_frozen() {
    setup_world();
    let e = Env::default();
    let pre = declare_state();
    let user = addr_below(NF as u32);
    let other = addr_below(NF as u32);
    kani::assume(other != user);
    let freeze: bool = kani::any();

    RWA::set_address_frozen(&e, &user, freeze);
    // reachability witnesses first: Kani assumes a clause once it has been checked
    witness!(freeze && !afrozen_pre(&pre, &user), "rwa.set_address_frozen.freezes");
    witness!(!freeze && afrozen_pre(&pre, &user), "rwa.set_address_frozen.unfreezes");

    prop!(afrozen_now(&user) == freeze, "C04.rwa.set_address_frozen.flag_stored");
    prop!(afrozen_now(&other) == afrozen_pre(&pre, &other), "C04.rwa.set_address_frozen.other_account_unchanged");
    prop!(balances_unchanged(&pre) && frozen_unchanged(&pre) && supply_now() == pre.supply && config_unchanged(&pre), "C04.rwa.set_address_frozen.nothing_else_changes");
    let ev = AddressFrozen { user_address: user.clone(), is_frozen: freeze };
    prop!(model::n_events() == 1 && model::event_is(0, AddressFrozen::EVENT_ID, &ev.event_words()) && model::n_calls() == 0, "C04.rwa.set_address_frozen.one_exact_event_no_foreign_call");
    end_checks(DECLARED);
}

// ------------------------------------------------------------------ histories: a gate closed by its setter stops `transfer`
fn redraw_auth() {
    let w = world();
    let mut i = 0;
    while i < model::NADDR {
        w.authorized[i] = kani::any();
        i += 1;
    }
    w.n_auth = 0;
}

/// pause / freeze the sender / freeze the receiver / freeze part of the balance, then `transfer`
/// at an arbitrary later ledger: never succeeds (beyond the free part)
#[kani::proof]
#[kani::unwind(18)]
pub fn c04_close_gate_then_transfer() {
    setup_world();
    let e = Env::default();
    let pre = declare_state();
    let from = addr_below(NF as u32);
    let to = addr_below(NF as u32);
    let amount: i128 = kani::any();
    let which: u8 = kani::any();
    kani::assume(which < 4);
    let x: i128 = kani::any();
    if which == 0 {
        stellar_contract_utils::pausable::pause(&e);
    } else if which == 1 {
        RWA::set_address_frozen(&e, &from, true);
    } else if which == 2 {
        RWA::set_address_frozen(&e, &to, true);
    } else {
        RWA::freeze_partial_tokens(&e, &from, x);
        // only transfers reaching into the frozen part are claimed to fail
        kani::assume(amount > bal_pre(&pre, &from) - frozen_pre(&pre, &from) - x);
    }
    if which == 0 {
        prop!(paused_now(), "C04.rwa.history.pause_sets_the_flag_the_gate_reads");
    }
    witness!(which == 0, "rwa.history.paused");
    witness!(which == 1, "rwa.history.sender_frozen");
    witness!(which == 2, "rwa.history.receiver_frozen");
    witness!(which == 3 && x > 0 && amount > 0 && amount <= bal_pre(&pre, &from), "rwa.history.partially_frozen");
    let seq2: u32 = kani::any();
    kani::assume(seq2 >= world().seq);
    world().seq = seq2;
    redraw_auth();

    RWA::transfer(&e, &from, &to, amount);

    prop!(which != 0, "C04.rwa.history.transfer_after_pause_never_succeeds");
    prop!(which != 1, "C04.rwa.history.transfer_from_frozen_sender_never_succeeds");
    prop!(which != 2, "C04.rwa.history.transfer_to_frozen_receiver_never_succeeds");
    prop!(which != 3, "C04.rwa.history.transfer_into_frozen_part_never_succeeds");
}
