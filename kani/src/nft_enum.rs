//! C10 / C11: non-fungible ENUMERABLE flavour (stellar_tokens::non_fungible::enumerable::Enumerable), one
//! inductive step from an arbitrary stored pre-state satisfying the representation invariant I:
//!   owner lists : OwnerTokens(a,i) = t  <=>  Owner(t) = a and OwnerTokensIndex(t) = i, for 0 <= i < Balance(a);
//!                 no OwnerTokens(a,i) entry for i >= Balance(a)
//!   global list : GlobalTokens(i) = t   <=>  t exists and GlobalTokensIndex(t) = i, for 0 <= i < TotalSupply;
//!                 no GlobalTokens(i) entry for i >= TotalSupply
//! I is assumed for the declared slots and asserted afterwards for the same slots.
//!
//! Universe: two owners (address ids 0,1; `o` = stored owner of the named token t0, `x` = the other one), a
//! third principal as spender; the named token t0 at a SYMBOLIC position p of o's list and gp of the global
//! list; a second token l (gl) at "another position" qb (gq) of the same list, which is the last position
//! whenever p (gp) is not the last one (swap-and-pop partner) and an arbitrary other position otherwise
//! (a bystander). So first / last / only / middle are all covered. The base-level facts about other tokens
//! and bystander balances are proved in `nft.rs`; here every write outside the declared slots is flagged by
//! `end_checks`.
use soroban_sdk::model::{self, world, Slot};
use soroban_sdk::{Address, Env};
use stellar_tokens::non_fungible::enumerable::storage::{NFTEnumerableStorageKey as EK, OwnerTokensKey};
use stellar_tokens::non_fungible::enumerable::Enumerable;
use stellar_tokens::non_fungible::sequential;
use stellar_tokens::non_fungible::{Base, NFTStorageKey};

use crate::nft::{
    addr_is, approved_live, declare_approval, declare_operator, operator_live, same_content, u32_is, ApprPre, OpPre, SeqKeyMirror,
};
use crate::util::*;

pub const S_OWNER: usize = 0; // Owner(t0)
pub const S_APPR: usize = 1; // Approval(t0)
pub const S_OTI: usize = 2; // OwnerTokensIndex(t0)
pub const S_A: usize = 3; // OwnerTokens(o, p)
pub const S_B: usize = 4; // OwnerTokens(o, qb)
pub const S_C: usize = 5; // OwnerTokensIndex(l)
pub const S_BALO: usize = 6; // Balance(o)
pub const S_BALX: usize = 7; // Balance(x)
pub const S_D: usize = 8; // OwnerTokens(x, Balance(x))   (where a received token is appended)
pub const N_OWNER_SIDE: usize = 9;
pub const S_SUP: usize = 9; // TotalSupply
pub const S_GTI: usize = 10; // GlobalTokensIndex(t0)
pub const S_GA: usize = 11; // GlobalTokens(gp)
pub const S_GB: usize = 12; // GlobalTokens(gq)
pub const S_GC: usize = 13; // GlobalTokensIndex(gl)
pub const N_WITH_GLOBAL: usize = 14;

fn otk(owner: &Address, index: u32) -> EK {
    EK::OwnerTokens(OwnerTokensKey { owner: owner.clone(), index })
}

pub struct EPre {
    pub t0: u32,
    pub has: bool,
    pub o: Address,
    pub x: Address,
    pub bo: u32,
    pub bx: u32,
    pub p: u32,
    pub qb: u32,
    pub l: u32,
    pub b_present: bool,
    pub snap: [Slot; N_OWNER_SIDE],
}
impl EPre {
    pub fn last(&self) -> u32 {
        self.bo.wrapping_sub(1)
    }
}

/// slots 0..9: the named token, its owner's list around it, both balances, the append position of x
pub fn declare_owner_side() -> EPre {
    let t0: u32 = kani::any();
    let l: u32 = kani::any();
    kani::assume(l != t0);
    let o = addr_below(2);
    let x = Address::from_id(1 - o.id);
    let has: bool = kani::any();
    let bo: u32 = kani::any();
    let bx: u32 = kani::any();
    let bo_p: bool = kani::any();
    let bx_p: bool = kani::any();
    kani::assume(bo_p || bo == 0);
    kani::assume(bx_p || bx == 0);
    let p: u32 = kani::any();
    let qb: u32 = kani::any();
    kani::assume(qb != p);
    // I (only meaningful if the token exists)
    kani::assume(!has || (bo >= 1 && p < bo));
    let last = bo.wrapping_sub(1);
    kani::assume(!has || p == last || qb == last);
    let b_present: bool = kani::any();
    kani::assume(!has || b_present == (qb < bo));
    let a_present: bool = kani::any();
    let a_val: u32 = kani::any();
    kani::assume(!has || (a_present && a_val == t0));
    let oti_p: bool = kani::any();
    kani::assume(oti_p == has);
    let c_present: bool = kani::any();
    let c_val: u32 = kani::any();
    kani::assume(!(has && b_present) || (c_present && c_val == qb));
    let d_present: bool = kani::any();
    kani::assume(!has || !d_present);

    model::declare_val(S_OWNER, 0, &NFTStorageKey::Owner(t0), has, &o, kani::any());
    model::declare_val(S_OTI, 0, &EK::OwnerTokensIndex(t0), oti_p, &p, kani::any());
    model::declare_val(S_A, 0, &otk(&o, p), a_present, &a_val, kani::any());
    model::declare_val(S_B, 0, &otk(&o, qb), b_present, &l, kani::any());
    model::declare_val(S_C, 0, &EK::OwnerTokensIndex(l), c_present, &c_val, kani::any());
    model::declare_val(S_BALO, 0, &NFTStorageKey::Balance(o.clone()), bo_p, &bo, kani::any());
    model::declare_val(S_BALX, 0, &NFTStorageKey::Balance(x.clone()), bx_p, &bx, kani::any());
    model::declare_val(S_D, 0, &otk(&x, bx), d_present, &kani::any::<u32>(), kani::any());
    let mut snap = [model::EMPTY_SLOT; N_OWNER_SIDE];
    let mut i = 0;
    while i < N_OWNER_SIDE {
        snap[i] = model::slot(i);
        i += 1;
    }
    EPre { t0, has, o, x, bo, bx, p, qb, l, b_present, snap }
}

pub struct GPre {
    pub sup: u32,
    pub gp: u32,
    pub gq: u32,
    pub gl: u32,
    pub gb_present: bool,
    pub snap: [Slot; N_WITH_GLOBAL],
}
/// slots 9..14: total supply and the global list around the named token
pub fn declare_global_side(pre: &EPre) -> GPre {
    let has = pre.has;
    let sup: u32 = kani::any();
    let sup_p: bool = kani::any();
    kani::assume(sup_p || sup == 0);
    let gp: u32 = kani::any();
    let gq: u32 = kani::any();
    kani::assume(gq != gp);
    let gl: u32 = kani::any();
    kani::assume(gl != pre.t0);
    kani::assume(!has || (sup >= 1 && gp < sup));
    let glast = sup.wrapping_sub(1);
    kani::assume(!has || gp == glast || gq == glast);
    let gb_present: bool = kani::any();
    kani::assume(!has || gb_present == (gq < sup));
    let ga_present: bool = kani::any();
    let ga_val: u32 = kani::any();
    kani::assume(!has || (ga_present && ga_val == pre.t0));
    let gti_p: bool = kani::any();
    kani::assume(gti_p == has);
    let gc_present: bool = kani::any();
    let gc_val: u32 = kani::any();
    kani::assume(!(has && gb_present) || (gc_present && gc_val == gq));

    model::declare_val(S_SUP, 2, &EK::TotalSupply, sup_p, &sup, 0);
    model::declare_val(S_GTI, 0, &EK::GlobalTokensIndex(pre.t0), gti_p, &gp, kani::any());
    model::declare_val(S_GA, 0, &EK::GlobalTokens(gp), ga_present, &ga_val, kani::any());
    model::declare_val(S_GB, 0, &EK::GlobalTokens(gq), gb_present, &gl, kani::any());
    model::declare_val(S_GC, 0, &EK::GlobalTokensIndex(gl), gc_present, &gc_val, kani::any());
    let mut snap = [model::EMPTY_SLOT; N_WITH_GLOBAL];
    let mut i = 0;
    while i < N_WITH_GLOBAL {
        snap[i] = model::slot(i);
        i += 1;
    }
    GPre { sup, gp, gq, gl, gb_present, snap }
}

fn unchanged(snap: &[Slot], i: usize) -> bool {
    model::slots_equal(&snap[i], &model::slot(i))
}
fn bal_slot_now(i: usize) -> u32 {
    let s = model::slot(i);
    if s.present {
        s.val[0] as u32
    } else {
        0
    }
}
fn u32_val(i: usize) -> u32 {
    model::slot(i).val[0] as u32
}

/// I for the owner lists over the declared slots, in the CURRENT state. `t0_owner`: who owns t0 now
/// (None: burned). Token l is owned by o throughout (ghost; it is untracked if its list slot B was absent).
pub fn owner_lists_inverse(pre: &EPre, t0_owner: Option<&Address>) -> bool {
    let bo = bal_slot_now(S_BALO);
    let bx = bal_slot_now(S_BALX);
    let t0_o = t0_owner.is_some() && *t0_owner.unwrap() == pre.o;
    let t0_x = t0_owner.is_some() && *t0_owner.unwrap() == pre.x;
    let oti = model::slot(S_OTI);
    let c = model::slot(S_C);
    let mut r = true;
    // positions -> tokens
    // A = (o, p), B = (o, qb)
    let mut k = 0;
    while k < 2 {
        let (si, idx) = if k == 0 { (S_A, pre.p) } else { (S_B, pre.qb) };
        let s = model::slot(si);
        if idx >= bo {
            r &= !s.present;
        } else {
            let v = s.val[0];
            let is_t0 = v == model::tag_u32(pre.t0) && t0_o && u32_is(S_OTI, idx);
            let is_l = pre.b_present && v == model::tag_u32(pre.l) && u32_is(S_C, idx);
            r &= s.present && (is_t0 || is_l);
        }
        k += 1;
    }
    // D = (x, old Balance(x))
    let d = model::slot(S_D);
    if pre.bx >= bx {
        r &= !d.present;
    } else {
        r &= d.present && d.val[0] == model::tag_u32(pre.t0) && t0_x && u32_is(S_OTI, pre.bx);
    }
    // tokens -> positions
    if t0_owner.is_none() {
        r &= !oti.present;
    } else {
        r &= oti.present && oti.val[0] >> 56 == model::TAG_U32;
        let i = oti.val[0] as u32;
        if t0_o {
            r &= i < bo;
            r &= i != pre.p || u32_is(S_A, pre.t0);
            r &= i != pre.qb || u32_is(S_B, pre.t0);
        } else if t0_x {
            r &= i < bx;
            r &= i != pre.bx || u32_is(S_D, pre.t0);
        } else {
            r = false;
        }
    }
    if pre.b_present {
        r &= c.present && c.val[0] >> 56 == model::TAG_U32;
        let i = c.val[0] as u32;
        r &= i < bo;
        r &= i != pre.p || u32_is(S_A, pre.l);
        r &= i != pre.qb || u32_is(S_B, pre.l);
    } else {
        r &= unchanged(&pre.snap, S_C);
    }
    r
}
/// I for the global list over the declared slots, in the CURRENT state
pub fn global_list_inverse(pre: &EPre, g: &GPre, t0_exists: bool) -> bool {
    let sup = bal_slot_now(S_SUP);
    let gti = model::slot(S_GTI);
    let gc = model::slot(S_GC);
    let mut r = true;
    let mut k = 0;
    while k < 2 {
        let (si, idx) = if k == 0 { (S_GA, g.gp) } else { (S_GB, g.gq) };
        let s = model::slot(si);
        if idx >= sup {
            r &= !s.present;
        } else {
            let v = s.val[0];
            let is_t0 = v == model::tag_u32(pre.t0) && t0_exists && u32_is(S_GTI, idx);
            let is_l = g.gb_present && v == model::tag_u32(g.gl) && u32_is(S_GC, idx);
            r &= s.present && (is_t0 || is_l);
        }
        k += 1;
    }
    if !t0_exists {
        r &= !gti.present;
    } else {
        r &= gti.present && gti.val[0] >> 56 == model::TAG_U32;
        let i = gti.val[0] as u32;
        r &= i < sup;
        r &= i != g.gp || u32_is(S_GA, pre.t0);
        r &= i != g.gq || u32_is(S_GB, pre.t0);
    }
    if g.gb_present {
        r &= gc.present && gc.val[0] >> 56 == model::TAG_U32;
        let i = gc.val[0] as u32;
        r &= i < sup;
        r &= i != g.gp || u32_is(S_GA, g.gl);
        r &= i != g.gq || u32_is(S_GB, g.gl);
    } else {
        r &= unchanged(&g.snap, S_GC);
    }
    r
}

/// the named token left o's list: swap-and-pop at the symbolic position p
macro_rules! left_owner_list {
    ($tag:literal, $pre:expr) => {
        if $pre.p == $pre.last() {
            prop!(!model::slot(S_A).present, concat!("C10.enum.", $tag, ".sender_list_last_position_popped"));
            prop!(unchanged(&$pre.snap, S_B) && unchanged(&$pre.snap, S_C), concat!("C10.enum.", $tag, ".sender_list_other_position_untouched"));
        } else {
            prop!(u32_is(S_A, $pre.l), concat!("C10.enum.", $tag, ".sender_list_last_token_swapped_into_hole"));
            prop!(u32_is(S_C, $pre.p), concat!("C10.enum.", $tag, ".sender_list_swapped_token_index_updated"));
            prop!(!model::slot(S_B).present, concat!("C10.enum.", $tag, ".sender_list_last_position_popped"));
        }
    };
}

macro_rules! enum_moved {
    ($tag:literal, $e:expr, $pre:expr, $from:expr, $to:expr) => {
        prop!($pre.has && $pre.o == *$from, concat!("C10.enum.", $tag, ".named_token_existed_and_belonged_to_from"));
        prop!(addr_is(S_OWNER, $to.id), concat!("C10.enum.", $tag, ".named_token_now_owned_by_to"));
        if $from != $to {
            prop!($pre.bo >= 1 && u32_is(S_BALO, $pre.bo - 1), concat!("C10.enum.", $tag, ".from_balance_minus_one"));
            prop!($pre.bx < u32::MAX && u32_is(S_BALX, $pre.bx + 1), concat!("C10.enum.", $tag, ".to_balance_plus_one"));
            left_owner_list!($tag, $pre);
            prop!(u32_is(S_D, $pre.t0) && u32_is(S_OTI, $pre.bx), concat!("C10.enum.", $tag, ".appended_to_recipient_list"));
        } else {
            prop!(bal_slot_now(S_BALO) == $pre.bo && unchanged(&$pre.snap, S_BALX), concat!("C10.enum.", $tag, ".self_transfer_balance_neutral"));
            prop!(
                unchanged(&$pre.snap, S_OTI) && unchanged(&$pre.snap, S_A) && unchanged(&$pre.snap, S_B) && unchanged(&$pre.snap, S_C) && unchanged(&$pre.snap, S_D),
                concat!("C10.enum.", $tag, ".self_transfer_lists_untouched")
            );
        }
        prop!(owner_lists_inverse($pre, Some($to)), concat!("C10.enum.", $tag, ".owner_lists_mirror_ownership"));
        if $from != $to {
            // observation through the public getter (last: it extends a TTL)
            prop!(Enumerable::get_owner_token_id($e, $to, $pre.bx) == $pre.t0, concat!("C10.enum.", $tag, ".recipient_enumeration_reports_token"));
        }
    };
}

#[kani::proof]
#[kani::unwind(18)]
pub fn enum_transfer() {
    setup_world();
    let e = Env::default();
    let pre = declare_owner_side();
    let ap = declare_approval(S_APPR, pre.t0);
    let from = addr_below(2);
    let to = addr_below(2);
    let seq = world().seq;

    Enumerable::transfer(&e, &from, &to, pre.t0);

    prop!(authorized(&from), "C11.enum.transfer.from_authorized");
    prop!(pre.has && pre.o == from, "C11.enum.transfer.from_is_current_owner");
    prop!(!model::slot(S_APPR).present && Base::get_approved(&e, pre.t0).is_none(), "C11.enum.transfer.approval_cleared");
    enum_moved!("transfer", &e, &pre, &from, &to);
    witness!(from != to && pre.bo == 1, "enum.transfer.only_token");
    witness!(from != to && pre.bo > 2 && pre.p == 0, "enum.transfer.first_of_many");
    witness!(from != to && pre.bo > 2 && pre.p == pre.bo - 1, "enum.transfer.last_of_many");
    witness!(from != to && pre.bo > 4 && pre.p == 2, "enum.transfer.middle");
    witness!(from == to, "enum.transfer.self");
    witness!(ap.present && ap.entry >= seq && ap.until >= seq, "enum.transfer.clears_live_approval");
    end_checks(N_OWNER_SIDE);
}

pub const S_OP_T: usize = N_OWNER_SIDE;
#[kani::proof]
#[kani::unwind(18)]
pub fn enum_transfer_from() {
    setup_world();
    let e = Env::default();
    let pre = declare_owner_side();
    let ap = declare_approval(S_APPR, pre.t0);
    let spender = addr_below(3);
    let from = addr_below(2);
    let to = addr_below(2);
    let op = declare_operator(S_OP_T, &from, &spender);

    Enumerable::transfer_from(&e, &spender, &from, &to, pre.t0);

    prop!(authorized(&spender), "C11.enum.transfer_from.spender_authorized");
    prop!(pre.has && pre.o == from, "C11.enum.transfer_from.from_is_current_owner");
    prop!(spender == pre.o || approved_live(&ap, &spender) || operator_live(&op), "C11.enum.transfer_from.spender_is_owner_or_live_approved_or_live_operator");
    prop!(!model::slot(S_APPR).present && Base::get_approved(&e, pre.t0).is_none(), "C11.enum.transfer_from.approval_cleared");
    enum_moved!("transfer_from", &e, &pre, &from, &to);
    witness!(from != to && spender != from && approved_live(&ap, &spender) && !operator_live(&op), "enum.transfer_from.by_approved");
    witness!(from != to && spender != from && !approved_live(&ap, &spender) && operator_live(&op), "enum.transfer_from.by_operator");
    witness!(from != to && pre.bo > 4 && pre.p == 2, "enum.transfer_from.middle");
    witness!(from != to && pre.bo > 2 && pre.p == pre.bo - 1, "enum.transfer_from.last_of_many");
    witness!(from == to, "enum.transfer_from.self");
    end_checks(S_OP_T + 1);
}

macro_rules! enum_burned {
    ($tag:literal, $e:expr, $pre:expr, $g:expr, $from:expr) => {
        prop!($pre.has && $pre.o == *$from, concat!("C10.enum.", $tag, ".named_token_existed_and_belonged_to_from"));
        prop!(!model::slot(S_OWNER).present, concat!("C10.enum.", $tag, ".named_token_has_no_owner"));
        prop!($pre.bo >= 1 && u32_is(S_BALO, $pre.bo - 1), concat!("C10.enum.", $tag, ".from_balance_minus_one"));
        prop!(unchanged(&$pre.snap, S_BALX) && unchanged(&$pre.snap, S_D), concat!("C10.enum.", $tag, ".other_owner_untouched"));
        left_owner_list!($tag, $pre);
        prop!(!model::slot(S_OTI).present, concat!("C10.enum.", $tag, ".owner_index_of_token_removed"));
        prop!(owner_lists_inverse($pre, None), concat!("C10.enum.", $tag, ".owner_lists_mirror_ownership"));
        prop!($g.sup >= 1 && u32_is(S_SUP, $g.sup - 1) && Enumerable::total_supply($e) == $g.sup - 1, concat!("C10.enum.", $tag, ".total_supply_minus_one"));
        prop!(!model::slot(S_GTI).present, concat!("C10.enum.", $tag, ".global_index_of_token_removed"));
        if $g.gp == $g.sup.wrapping_sub(1) {
            prop!(!model::slot(S_GA).present, concat!("C10.enum.", $tag, ".global_list_last_position_popped"));
            prop!(unchanged(&$g.snap, S_GB) && unchanged(&$g.snap, S_GC), concat!("C10.enum.", $tag, ".global_list_other_position_untouched"));
        } else {
            prop!(u32_is(S_GA, $g.gl), concat!("C10.enum.", $tag, ".global_list_last_token_swapped_into_hole"));
            prop!(u32_is(S_GC, $g.gp), concat!("C10.enum.", $tag, ".global_list_swapped_token_index_updated"));
            prop!(!model::slot(S_GB).present, concat!("C10.enum.", $tag, ".global_list_last_position_popped"));
        }
        prop!(global_list_inverse($pre, $g, false), concat!("C10.enum.", $tag, ".global_list_mirrors_existence"));
    };
}

#[kani::proof]
#[kani::unwind(18)]
pub fn enum_burn() {
    setup_world();
    let e = Env::default();
    let pre = declare_owner_side();
    let g = declare_global_side(&pre);
    let _ap = declare_approval(S_APPR, pre.t0);
    let from = addr_below(2);

    Enumerable::burn(&e, &from, pre.t0);

    prop!(authorized(&from), "C11.enum.burn.from_authorized");
    prop!(pre.has && pre.o == from, "C11.enum.burn.from_is_current_owner");
    prop!(!model::slot(S_APPR).present && Base::get_approved(&e, pre.t0).is_none(), "C11.enum.burn.approval_cleared");
    enum_burned!("burn", &e, &pre, &g, &from);
    witness!(pre.bo == 1 && g.sup == 1, "enum.burn.only_token_of_contract");
    witness!(pre.bo > 2 && pre.p == 0 && g.sup > 4 && g.gp == g.sup - 1, "enum.burn.first_of_owner_last_of_global");
    witness!(pre.bo > 2 && pre.p == pre.bo - 1 && g.sup > 4 && g.gp == 1, "enum.burn.last_of_owner_middle_of_global");
    witness!(pre.l == g.gl && pre.p != pre.bo - 1 && g.gp != g.sup - 1, "enum.burn.same_partner_in_both_lists");
    end_checks(N_WITH_GLOBAL);
}

pub const S_OP_B: usize = N_WITH_GLOBAL;
#[kani::proof]
#[kani::unwind(18)]
pub fn enum_burn_from() {
    setup_world();
    let e = Env::default();
    let pre = declare_owner_side();
    let g = declare_global_side(&pre);
    let ap = declare_approval(S_APPR, pre.t0);
    let spender = addr_below(3);
    let from = addr_below(2);
    let op = declare_operator(S_OP_B, &from, &spender);

    Enumerable::burn_from(&e, &spender, &from, pre.t0);

    prop!(authorized(&spender), "C11.enum.burn_from.spender_authorized");
    prop!(pre.has && pre.o == from, "C11.enum.burn_from.from_is_current_owner");
    prop!(spender == pre.o || approved_live(&ap, &spender) || operator_live(&op), "C11.enum.burn_from.spender_is_owner_or_live_approved_or_live_operator");
    prop!(!model::slot(S_APPR).present && Base::get_approved(&e, pre.t0).is_none(), "C11.enum.burn_from.approval_cleared");
    enum_burned!("burn_from", &e, &pre, &g, &from);
    witness!(spender != from && approved_live(&ap, &spender) && !operator_live(&op), "enum.burn_from.by_approved");
    witness!(spender != from && !approved_live(&ap, &spender) && operator_live(&op), "enum.burn_from.by_operator");
    witness!(pre.bo > 2 && pre.p == 1 && pre.p != pre.bo - 1 && g.sup > 4 && g.gp == 2, "enum.burn_from.middle_of_both");
    end_checks(S_OP_B + 1);
}

// ------------------------------------------------------------------ minting
pub const M_OWNER: usize = 0; // Owner(t0)
pub const M_BAL: usize = 1; // Balance(to)
pub const M_D: usize = 2; // OwnerTokens(to, Balance(to))
pub const M_OTI: usize = 3; // OwnerTokensIndex(t0)
pub const M_SUP: usize = 4; // TotalSupply
pub const M_G: usize = 5; // GlobalTokens(TotalSupply)
pub const M_GTI: usize = 6; // GlobalTokensIndex(t0)
pub const M_BY: usize = 7; // OwnerTokens(to, j), j < Balance(to): an existing position of the recipient
pub const M_GBY: usize = 8; // GlobalTokens(gj), gj < TotalSupply: an existing global position
pub const M_CTR: usize = 9; // TokenIdCounter (sequential only)

pub struct MPre {
    pub t0: u32,
    pub has: bool,
    pub to: Address,
    pub b: u32,
    pub sup: u32,
    pub snap: [Slot; 10],
}
pub fn declare_mint_state(t0: u32) -> MPre {
    let to = addr_below(2);
    let has: bool = kani::any();
    let old_owner = addr_below(2);
    let b: u32 = kani::any();
    let b_p: bool = kani::any();
    kani::assume(b_p || b == 0);
    let sup: u32 = kani::any();
    let sup_p: bool = kani::any();
    kani::assume(sup_p || sup == 0);
    model::declare_val(M_OWNER, 0, &NFTStorageKey::Owner(t0), has, &old_owner, kani::any());
    model::declare_val(M_BAL, 0, &NFTStorageKey::Balance(to.clone()), b_p, &b, kani::any());
    // I: nothing stored at or beyond the ends of the lists; a token without owner has no index entries
    model::declare_val(M_D, 0, &otk(&to, b), false, &0u32, kani::any());
    model::declare_val(M_OTI, 0, &EK::OwnerTokensIndex(t0), has, &kani::any::<u32>(), kani::any());
    model::declare_val(M_SUP, 2, &EK::TotalSupply, sup_p, &sup, 0);
    model::declare_val(M_G, 0, &EK::GlobalTokens(sup), false, &0u32, kani::any());
    model::declare_val(M_GTI, 0, &EK::GlobalTokensIndex(t0), has, &kani::any::<u32>(), kani::any());
    let j: u32 = kani::any();
    let gj: u32 = kani::any();
    kani::assume(j != b && gj != sup);
    let other: u32 = kani::any();
    let gother: u32 = kani::any();
    kani::assume(other != t0 && gother != t0);
    model::declare_val(M_BY, 0, &otk(&to, j), j < b, &other, kani::any());
    model::declare_val(M_GBY, 0, &EK::GlobalTokens(gj), gj < sup, &gother, kani::any());
    let mut snap = [model::EMPTY_SLOT; 10];
    let mut i = 0;
    while i < 9 {
        snap[i] = model::slot(i);
        i += 1;
    }
    MPre { t0, has, to, b, sup, snap }
}
macro_rules! enum_minted {
    ($tag:literal, $e:expr, $m:expr) => {
        prop!(addr_is(M_OWNER, $m.to.id), concat!("C10.enum.", $tag, ".minted_token_owned_by_to"));
        prop!($m.b < u32::MAX && u32_is(M_BAL, $m.b + 1), concat!("C10.enum.", $tag, ".to_balance_plus_one"));
        prop!(u32_is(M_D, $m.t0) && u32_is(M_OTI, $m.b), concat!("C10.enum.", $tag, ".appended_to_recipient_list"));
        prop!($m.sup < u32::MAX && u32_is(M_SUP, $m.sup + 1) && Enumerable::total_supply($e) == $m.sup + 1, concat!("C10.enum.", $tag, ".total_supply_plus_one"));
        prop!(u32_is(M_G, $m.t0) && u32_is(M_GTI, $m.sup), concat!("C10.enum.", $tag, ".appended_to_global_list"));
        prop!(unchanged(&$m.snap, M_BY) && unchanged(&$m.snap, M_GBY), concat!("C10.enum.", $tag, ".existing_positions_untouched"));
        prop!(
            Enumerable::get_owner_token_id($e, &$m.to, $m.b) == $m.t0 && Enumerable::get_token_id($e, $m.sup) == $m.t0,
            concat!("C10.enum.", $tag, ".enumerations_report_token")
        );
    };
}

#[kani::proof]
#[kani::unwind(18)]
pub fn enum_non_sequential_mint() {
    setup_world();
    let e = Env::default();
    let t0: u32 = kani::any();
    let m = declare_mint_state(t0);

    Enumerable::non_sequential_mint(&e, &m.to, t0);

    kani::assume(!m.has); // documented precondition: explicit ids are fresh (see nft.rs)
    if !m.has {
        enum_minted!("non_sequential_mint", &e, &m);
    }
    witness!(!m.has && m.b == 0 && m.sup == 0, "enum.mint.first_token_ever");
    witness!(!m.has && m.b > 1 && m.sup > m.b, "enum.mint.later_token");
    end_checks(9);
}

#[kani::proof]
#[kani::unwind(18)]
pub fn enum_sequential_mint() {
    setup_world();
    let e = Env::default();
    let t0: u32 = kani::any();
    let cp: bool = kani::any();
    kani::assume(cp || t0 == 0);
    let m = declare_mint_state(t0);
    model::declare_val(M_CTR, 2, &SeqKeyMirror::TokenIdCounter, cp, &t0, 0);

    let r = Enumerable::sequential_mint(&e, &m.to);

    prop!(r == t0, "C10.enum.sequential_mint.returns_pre_counter");
    prop!(t0 < u32::MAX && u32_is(M_CTR, t0 + 1), "C10.enum.sequential_mint.counter_incremented_overflow_traps");
    prop!(sequential::next_token_id(&e) > r, "C10.enum.sequential_mint.issued_id_below_next_counter");
    kani::assume(!m.has); // documented precondition: the counter's id is unused (see nft.rs)
    if !m.has {
        enum_minted!("sequential_mint", &e, &m);
    }
    witness!(!m.has && !cp && m.sup == 0, "enum.sequential_mint.first_token_ever");
    witness!(!m.has && t0 > 7 && m.sup < t0, "enum.sequential_mint.after_burns");
    end_checks(10);
}
