//! C10 / C11: non-fungible CONSECUTIVE flavour (stellar_tokens::non_fungible::consecutive::Consecutive) at the
//! storage level: bounded HISTORIES from the empty contract state, compared with a plain ownership ghost.
//!
//! Built with `--cfg stellar_verif` (the one source hook: ITEMS_IN_BUCKET = 2, IDS_IN_BUCKET = 64; bucket
//! edges at ids 63|64 and 127|128) and the model profile ns24 + cap2 (a bucket is a Vec<u32> of 2 words).
//!
//! History: empty storage -> batch_mint(A, n0) -> batch_mint(B, n1) (n0, n1 symbolic in 1..=70, so the ids
//! reach 140 and both batches may cross a bucket edge) -> k in {1, 2, 3} operations, each a transfer or a
//! burn of a symbolic id with symbolic `from`/`to` and a symbolic authorization set -> query of a SYMBOLIC
//! id j. The ghost is a closed formula over (n0, n1, operations): no array.
//! Storage keys are symbolic (Owner(last id), Owner(id - 1), BurnedToken(id), OwnershipBucket(id / 64)), so
//! nothing is pre-declared: the model claims slots on `set`; the final check only asserts `!overflow`.
use soroban_sdk::model::{self, world};
use soroban_sdk::{contracttype, Address, Env, Flat};
use stellar_tokens::non_fungible::burnable::Burn;
use stellar_tokens::non_fungible::consecutive::storage::NFTConsecutiveStorageKey as ConsKey;
use stellar_tokens::non_fungible::consecutive::{Consecutive, ConsecutiveMint};
use stellar_tokens::non_fungible::sequential;
use stellar_tokens::non_fungible::{ApprovalData, Base, NFTStorageKey, Transfer};

use crate::util::*;

/// principals: 0 = A (first batch), 1 = B (second batch), 2 = C (a third party)
pub const NP: u32 = 3;
pub const MAXB: u32 = 70;

/// a new host invocation at an arbitrary later ledger: own authorization set, own event log
pub fn next_invocation() {
    let w = world();
    let s: u32 = kani::any();
    kani::assume(s >= w.seq);
    w.seq = s;
    let mut i = 0;
    while i < model::NADDR {
        w.authorized[i] = kani::any();
        i += 1;
    }
    w.n_auth = 0;
    w.n_events = 0;
}
pub fn end_overflow_only() {
    kani::assert(!world().overflow, "MODEL-OVERFLOW: flag set");
}

#[derive(Clone, Copy)]
pub struct Op {
    pub burn: bool,
    pub id: u32,
    pub from: u32,
    pub to: u32,
}
pub fn arb_op() -> Op {
    let burn: bool = kani::any();
    let id: u32 = kani::any();
    let from: u32 = kani::any();
    let to: u32 = kani::any();
    kani::assume(from < NP && to < NP);
    Op { burn, id, from, to }
}
pub const NOOP: Op = Op { burn: false, id: u32::MAX, from: 0, to: 0 };

/// the ghost: plain ownership after the two batches and the first `k` of three operations
#[derive(Clone, Copy)]
pub struct Ghost {
    pub n0: u32,
    pub n1: u32,
    pub ops: [Op; 3],
}
impl Ghost {
    pub fn owner(&self, j: u32, k: usize) -> Option<u32> {
        if j >= self.n0 + self.n1 {
            return None;
        }
        let mut o = Some(if j < self.n0 { 0 } else { 1 });
        let mut i = 0;
        while i < 3 {
            if i < k && self.ops[i].id == j {
                o = if self.ops[i].burn { None } else { Some(self.ops[i].to) };
            }
            i += 1;
        }
        o
    }
    /// number of tokens of principal `a` after the first k operations (each operation was performed on an
    /// existing token by its ghost owner: asserted where the operation returns)
    pub fn count(&self, a: u32, k: usize) -> u32 {
        let mut c: i64 = if a == 0 { self.n0 as i64 } else if a == 1 { self.n1 as i64 } else { 0 };
        let mut i = 0;
        while i < 3 {
            if i < k {
                if self.ops[i].from == a {
                    c -= 1;
                }
                if !self.ops[i].burn && self.ops[i].to == a {
                    c += 1;
                }
            }
            i += 1;
        }
        c as u32
    }
}

/// batch_mint from the empty state, with the documented results
pub fn mint_two(e: &Env, two: bool) -> (u32, u32) {
    let n0: u32 = kani::any();
    kani::assume(n0 >= 1 && n0 <= MAXB);
    let last0 = Consecutive::batch_mint(e, &Address::from_id(0), n0);
    prop!(last0 == n0 - 1, "C10.consecutive.batch_mint.first_batch_ids_start_at_zero");
    prop!(sequential::next_token_id(e) == n0, "C10.consecutive.batch_mint.counter_advanced_by_amount");
    let ev = ConsecutiveMint { to: Address::from_id(0), from_token_id: 0, to_token_id: n0 - 1 };
    prop!(model::n_events() == 1 && model::event_is(0, ConsecutiveMint::EVENT_ID, &ev.event_words()), "C10.consecutive.batch_mint.one_exact_event");
    if !two {
        return (n0, 0);
    }
    next_invocation();
    let n1: u32 = kani::any();
    kani::assume(n1 >= 1 && n1 <= MAXB);
    let last1 = Consecutive::batch_mint(e, &Address::from_id(1), n1);
    prop!(last1 == n0 + n1 - 1, "C10.consecutive.batch_mint.second_batch_ids_follow_the_first");
    prop!(sequential::next_token_id(e) == n0 + n1, "C10.consecutive.batch_mint.counter_advanced_by_amount");
    let ev = ConsecutiveMint { to: Address::from_id(1), from_token_id: n0, to_token_id: n0 + n1 - 1 };
    prop!(model::n_events() == 1 && model::event_is(0, ConsecutiveMint::EVENT_ID, &ev.event_words()), "C10.consecutive.batch_mint.one_exact_event");
    (n0, n1)
}

/// one operation through the real entry point; post-conditions against the ghost before it
pub fn run_op(e: &Env, g: &Ghost, k: usize) {
    next_invocation();
    let op = g.ops[k];
    let from = Address::from_id(op.from);
    let to = Address::from_id(op.to);
    if op.burn {
        Consecutive::burn(e, &from, op.id);
        let ev = Burn { from: from.clone(), token_id: op.id };
        prop!(model::n_events() == 1 && model::event_is(0, Burn::EVENT_ID, &ev.event_words()), "C10.consecutive.burn.one_exact_event");
    } else {
        Consecutive::transfer(e, &from, &to, op.id);
        let ev = Transfer { from: from.clone(), to: to.clone(), token_id: op.id };
        prop!(model::n_events() == 1 && model::event_is(0, Transfer::EVENT_ID, &ev.event_words()), "C10.consecutive.transfer.one_exact_event");
    }
    prop!(g.owner(op.id, k) == Some(op.from), "C10.consecutive.step.named_token_existed_and_belonged_to_from");
    prop!(authorized(&from), "C11.consecutive.step.from_authorized");
    prop!(sequential::next_token_id(e) == g.n0 + g.n1, "C10.consecutive.step.id_counter_unchanged_by_transfer_or_burn");
}

/// query of a symbolic id and of the three balances against the ghost
pub fn query_sound(e: &Env, g: &Ghost, k: usize) {
    next_invocation();
    let a = addr_below(NP);
    prop!(Base::balance(e, &a) == g.count(a.id, k), "C10.consecutive.history.balance_equals_owned_count");
    let j: u32 = kani::any();
    let want = g.owner(j, k);
    witness!(want.is_some(), "query.existing_id");
    let o = Consecutive::owner_of(e, j);
    prop!(want.is_some(), "C10.consecutive.history.burned_or_unminted_id_has_no_owner");
    prop!(want.is_none() || o.id == want.unwrap(), "C10.consecutive.history.owner_of_equals_ghost_owner");
}

/// loop-free reference of `find_bit_in_item` (first set bit at or after `start`, MSB = position 0)
pub fn item_scan_ref(input: Option<u32>, start: u32) -> Option<u32> {
    match input {
        None => None,
        Some(num) => {
            if start >= u32::BITS {
                return None;
            }
            let m = num & (u32::MAX >> start);
            if m == 0 {
                None
            } else {
                Some(m.leading_zeros())
            }
        }
    }
}

#[kani::proof]
#[kani::unwind(25)]
pub fn h1_one_batch_one_op() {
    setup_world();
    let e = Env::default();
    let (n0, n1) = mint_two(&e, false);
    let g = Ghost { n0, n1, ops: [arb_op(), NOOP, NOOP] };
    run_op(&e, &g, 0);
    witness!(g.ops[0].burn, "op0.burn");
    witness!(!g.ops[0].burn && g.ops[0].to != g.ops[0].from, "op0.transfer");
    query_sound(&e, &g, 1);
    end_overflow_only();
}

// ---- probes (development only)
#[kani::proof]
#[kani::unwind(25)]
pub fn p1_mint_only() {
    setup_world();
    let e = Env::default();
    let (n0, _n1) = mint_two(&e, false);
    witness!(n0 > 64, "crosses");
    end_overflow_only();
}
#[kani::proof]
#[kani::unwind(25)]
pub fn p2_mint_query() {
    setup_world();
    let e = Env::default();
    let (n0, n1) = mint_two(&e, false);
    let g = Ghost { n0, n1, ops: [NOOP, NOOP, NOOP] };
    query_sound(&e, &g, 0);
    end_overflow_only();
}
