//! C10 / C11: non-fungible CONSECUTIVE flavour (stellar_tokens::non_fungible::consecutive::Consecutive) at the
//! storage level. Built with `--cfg stellar_verif` (the one source hook: ITEMS_IN_BUCKET = 2, IDS_IN_BUCKET = 64,
//! bucket edges at ids 63|64 and 127|128), model profile cap2 (a bucket is a Vec<u32> of 2 words) + getmux.
//!
//! The owner inference (`owner_of`: three nested scans with SYMBOLIC bounds — buckets, items, bits) is out of
//! reach when inlined several times into one history (measured: 1.3 M SAT variables per call, see the registry
//! fragment), so the family is COMPOSITIONAL; every link is checked on the real code:
//!   A  `scan_item_*`     real `find_bit_in_item`  ==  `item_scan_ref` (loop-free), ALL 2^32 x 2^32 inputs.
//!      `scan_bucket_*`   real `find_bit_in_bucket` == naive reference, vectors of 0..=2 symbolic words.
//!      (both functions are `pub(crate)`: reached through a second compilation of the SAME source file,
//!      `consec_src`, a `#[path]` include of /repo's consecutive/storage.rs.)
//!   B  `owner_of_sound / owner_of_complete`: the real `Consecutive::owner_of` of the library crate (its
//!      `find_bit_in_item` replaced by `item_scan_ref`, link A)  ==  `owner_of_spec` (loop-free reading of the same
//!      storage) on an ARBITRARY stored state: counter <= 192, any three buckets, any burned flag, any marker.
//!   H  histories from the EMPTY contract state: batch_mint(A, n0) -> batch_mint(B, n1) (n0, n1 symbolic in
//!      1..=70: ids reach 140, both batches may cross a bucket edge) -> k in {1, 2, 3} operations (transfer or burn
//!      of a symbolic id, symbolic from/to, symbolic authorization) -> query of a SYMBOLIC id, with the real
//!      batch_mint / transfer / burn / update / set_owner_for_previous_token / set_ownership_in_bucket and
//!      `Consecutive::owner_of` replaced by `owner_of_spec` (link B). The ghost is a closed formula over
//!      (n0, n1, operations), not an array.
//! Storage keys are symbolic (Owner(last id), Owner(id - 1), BurnedToken(id), OwnershipBucket(id / 64)), so the
//! histories pre-declare nothing: the model claims slots on `set`; the final check only asserts `!overflow`.
#![cfg(feature = "consecstub")]
use soroban_sdk::model::{self, world};
use soroban_sdk::{contracttype, Address, Env, Flat};
use stellar_tokens::non_fungible::burnable::Burn;
use stellar_tokens::non_fungible::consecutive::storage::NFTConsecutiveStorageKey as ConsKey;
use stellar_tokens::non_fungible::consecutive::{Consecutive, ConsecutiveMint};
use stellar_tokens::non_fungible::sequential;
use stellar_tokens::non_fungible::{ApprovalData, Approve, Base, NFTStorageKey, Transfer};

use crate::util::*;

/// second compilation of the library's own source file: the only way to call its `pub(crate)` scan functions
#[path = "/repo/packages/tokens/src/non_fungible/extensions/consecutive/storage.rs"]
pub mod consec_src;

/// `NFTSequentialStorageKey` is private to the library; a `#[contracttype]` unit variant is encoded by its name
/// only, so this mirror is the identical key (checked in `owner_of_sound` through the real getter).
#[contracttype]
pub enum SeqKeyMirror {
    TokenIdCounter,
}

/// principals: 0 = A (first batch), 1 = B (second batch), 2 = C (third party), 3 = D (spender only)
pub const NP: u32 = 3;
pub const MAXB: u32 = 70;
pub const IDS: u32 = 64;
/// longest ledger distance the TTL extensions of the family add (30 days)
pub const EXT: u32 = 30 * 17280;

/// a new host invocation at an arbitrary later ledger: own authorization set, own event log
pub fn next_invocation() {
    let w = world();
    let s: u32 = kani::any();
    kani::assume(s >= w.seq);
    w.seq = s;
    let mut i = 0;
    while i < model::NADDR {
        w.authorized[i] = kani::any();
        i += 1;
    }
    w.n_auth = 0;
    w.n_events = 0;
}
pub fn end_overflow_only() {
    kani::assert(!world().overflow, "MODEL-OVERFLOW: flag set");
}

// ------------------------------------------------------------------ link A: the bit scans
/// loop-free reference of `find_bit_in_item`: first set bit at or after `start`, MSB = position 0
pub fn item_scan_ref(input: Option<u32>, start: u32) -> Option<u32> {
    match input {
        None => None,
        Some(num) => {
            if start >= u32::BITS {
                return None;
            }
            let m = num & (u32::MAX >> start);
            if m == 0 {
                None
            } else {
                Some(m.leading_zeros())
            }
        }
    }
}
/// the definition itself: smallest position p >= start whose bit (MSB-first) is set
pub fn naive_first_set_from(word: u32, start: u32) -> Option<u32> {
    let mut r = None;
    let mut p: u32 = 0;
    while p < 32 {
        if r.is_none() && p >= start && (word >> (31 - p)) & 1 == 1 {
            r = Some(p);
        }
        p += 1;
    }
    r
}

#[kani::proof]
#[kani::unwind(34)]
pub fn scan_item_all_inputs() {
    let word: u32 = kani::any();
    let start: u32 = kani::any();
    let some: bool = kani::any();
    let input = if some { Some(word) } else { None };
    let got = consec_src::find_bit_in_item(input, start);
    prop!(got == item_scan_ref(input, start), "C10.consecutive.find_bit_in_item.equals_loop_free_reference");
    if some {
        prop!(got == naive_first_set_from(word, start), "C10.consecutive.find_bit_in_item.first_set_bit_at_or_after_start");
    } else {
        prop!(got.is_none(), "C10.consecutive.find_bit_in_item.none_for_missing_item");
    }
    witness!(got == Some(31), "scan_item.last_bit");
    witness!(some && got.is_none() && word != 0 && start < 32, "scan_item.only_earlier_bits");
    witness!(start >= 32, "scan_item.start_out_of_range");
}

/// `find_bit_in_bucket` on vectors of 0..=CAP (= 2) symbolic words: the definition over the concatenated bitmap
#[kani::proof]
#[kani::unwind(5)]
#[kani::stub(crate::nft_consec::consec_src::find_bit_in_item, crate::nft_consec::item_scan_ref)]
pub fn scan_bucket_vs_naive() {
    let e = Env::default();
    let w0: u32 = kani::any();
    let w1: u32 = kani::any();
    let len: u32 = kani::any();
    kani::assume(len <= 2);
    let mut v: soroban_sdk::Vec<u32> = soroban_sdk::Vec::new(&e);
    if len >= 1 {
        v.push_back(w0);
    }
    if len >= 2 {
        v.push_back(w1);
    }
    let start: u32 = kani::any();
    let got = consec_src::find_bit_in_bucket(v, start);
    // reference: first set position >= start in w0 ++ w1 (truncated to len words)
    let mut want: Option<u32> = None;
    if start < 32 * len {
        if start < 32 {
            want = item_scan_ref(Some(w0), start);
            if want.is_none() && len == 2 {
                want = item_scan_ref(Some(w1), 0).map(|p| 32 + p);
            }
        } else {
            want = item_scan_ref(Some(w1), start - 32).map(|p| 32 + p);
        }
    }
    prop!(got == want, "C10.consecutive.find_bit_in_bucket.first_set_bit_of_the_bucket_at_or_after_start");
    witness!(len == 2 && start < 32 && got.is_some() && got.unwrap() >= 32, "scan_bucket.crosses_into_second_item");
    witness!(len == 2 && start >= 32 && got.is_some(), "scan_bucket.starts_in_second_item");
    witness!(len == 2 && start >= 64, "scan_bucket.start_out_of_range");
    witness!(len == 0, "scan_bucket.empty_vector");
}

// ------------------------------------------------------------------ link B: owner_of == owner_of_spec
pub fn bucket_scan_ref(w0: u32, w1: u32, from: u32) -> Option<u32> {
    if from >= IDS {
        return None;
    }
    if from < 32 {
        if let Some(p) = item_scan_ref(Some(w0), from) {
            return Some(p);
        }
        item_scan_ref(Some(w1), 0).map(|p| 32 + p)
    } else {
        item_scan_ref(Some(w1), from - 32).map(|p| 32 + p)
    }
}
/// What `Consecutive::owner_of` computes, as a loop-free reading of the stored state (domain: counter <= 192,
/// i.e. buckets 0..=2, every stored bucket a vector of exactly ITEMS_IN_BUCKET = 2 words; outside it the model
/// overflow flag is raised, never a silent answer). `None` = the library traps.
pub fn owner_of_spec(e: &Env, id: u32) -> Option<Address> {
    let next: u32 = e.storage().instance().get(&SeqKeyMirror::TokenIdCounter).unwrap_or(0);
    if next == 0 {
        return None;
    }
    let last = next - 1;
    let burned: bool = e.storage().persistent().get(&ConsKey::BurnedToken(id)).unwrap_or(false);
    if burned || id > last {
        return None;
    }
    if last >= 3 * IDS {
        model::overflow()
    }
    let b0 = id / IDS;
    let lastb = last / IDS;
    let mut found: Option<u32> = None;
    let mut b: u32 = 0;
    while b < 3 {
        if found.is_none() && b >= b0 && b <= lastb {
            if let Some(v) = e.storage().persistent().get::<_, soroban_sdk::Vec<u32>>(&ConsKey::OwnershipBucket(b)) {
                if v.len() != 2 {
                    model::overflow()
                }
                let from = if b == b0 { id % IDS } else { 0 };
                if let Some(p) = bucket_scan_ref(v.get(0).unwrap_or(0), v.get(1).unwrap_or(0), from) {
                    found = Some(b * IDS + p);
                }
            }
        }
        b += 1;
    }
    match found {
        None => None,
        Some(m) => e.storage().persistent().get::<_, Address>(&ConsKey::Owner(m)),
    }
}
/// stand-in for `Consecutive::owner_of` in the histories (justified by link B)
pub fn owner_of_stub(e: &Env, token_id: u32) -> Address {
    match owner_of_spec(e, token_id) {
        Some(a) => a,
        None => model::trap(200),
    }
}

/// an ARBITRARY stored state as far as `owner_of(id)` can see it: counter (absent / 0..=192), BurnedToken(q) for a
/// symbolic q (absent / true / false), buckets 0..=2 (absent / any two words), one Owner(p) marker at a symbolic p
/// (absent / any address); every other BurnedToken / Owner key is absent. (owner_of reads exactly one BurnedToken
/// key and at most one Owner key, so choosing q = id and p = the scanned position covers every stored state.)
pub fn declare_any_scan_state() {
    let next: u32 = kani::any();
    kani::assume(next <= 3 * IDS);
    model::declare_val(0, 2, &SeqKeyMirror::TokenIdCounter, kani::any(), &next, 0);
    let q: u32 = kani::any();
    let bv: bool = kani::any();
    model::declare_val(1, 0, &ConsKey::BurnedToken(q), kani::any(), &bv, kani::any());
    let mut b = 0;
    while b < 3 {
        let mut v: soroban_sdk::Vec<u32> = soroban_sdk::Vec::new(&Env::default());
        v.push_back(kani::any());
        v.push_back(kani::any());
        model::declare_val(2 + b, 0, &ConsKey::OwnershipBucket(b as u32), kani::any(), &v, kani::any());
        b += 1;
    }
    let p: u32 = kani::any();
    let o = addr_below(model::NADDR as u32);
    model::declare_val(5, 0, &ConsKey::Owner(p), kani::any(), &o, kani::any());
}

/// a normal return of the real owner_of is the specified owner
#[kani::proof]
#[kani::unwind(13)]
#[kani::stub(stellar_tokens::non_fungible::consecutive::storage::find_bit_in_item, crate::nft_consec::item_scan_ref)]
pub fn owner_of_sound() {
    setup_world();
    let e = Env::default();
    declare_any_scan_state();
    let id: u32 = kani::any();
    let want = owner_of_spec(&e, id);
    let next_by_mirror: u32 = e.storage().instance().get(&SeqKeyMirror::TokenIdCounter).unwrap_or(0);
    prop!(sequential::next_token_id(&e) == next_by_mirror, "C10.consecutive.owner_of.counter_key_mirror_is_the_library_key");

    let got = Consecutive::owner_of(&e, id);

    prop!(want.is_some(), "C10.consecutive.owner_of.traps_where_the_specification_has_no_owner");
    prop!(want.is_none() || want.unwrap() == got, "C10.consecutive.owner_of.returns_the_specified_owner");
    witness!(id / IDS == 0 && next_by_mirror > 2 * IDS && !model::slot(2).present && !model::slot(3).present, "owner_of.marker_two_buckets_ahead");
    witness!(id % IDS == 63 && model::slot(2).present && id < IDS, "owner_of.last_id_of_bucket_zero");
    end_checks(6);
}
/// wherever the specification names an owner the real owner_of returns (no trap, no panic)
#[kani::proof]
#[kani::unwind(13)]
#[kani::stub(stellar_tokens::non_fungible::consecutive::storage::find_bit_in_item, crate::nft_consec::item_scan_ref)]
pub fn owner_of_complete() {
    setup_world();
    kani::assume(world().seq <= u32::MAX - EXT);
    let e = Env::default();
    declare_any_scan_state();
    let id: u32 = kani::any();
    let want = owner_of_spec(&e, id);
    kani::assume(want.is_some());
    world().must_succeed = true;

    let got = Consecutive::owner_of(&e, id);

    prop!(want.unwrap() == got, "C10.consecutive.owner_of.returns_the_specified_owner");
    witness!(id >= 2 * IDS, "owner_of.third_bucket");
    witness!(id < IDS && !model::slot(2).present, "owner_of.first_bucket_absent");
    end_checks(6);
}

// ------------------------------------------------------------------ H: histories against the ghost
#[derive(Clone, Copy)]
pub struct Op {
    pub burn: bool,
    pub id: u32,
    pub from: u32,
    pub to: u32,
}
pub fn arb_op(burn: bool) -> Op {
    let id: u32 = kani::any();
    let from: u32 = kani::any();
    let to: u32 = kani::any();
    kani::assume(from < NP && to < NP);
    Op { burn, id, from, to }
}
pub const NOOP: Op = Op { burn: false, id: u32::MAX, from: 0, to: 0 };

/// the ghost: plain ownership after the two batches and the first `k` of three operations
#[derive(Clone, Copy)]
pub struct Ghost {
    pub n0: u32,
    pub n1: u32,
    pub ops: [Op; 3],
}
impl Ghost {
    pub fn owner(&self, j: u32, k: usize) -> Option<u32> {
        if j >= self.n0 + self.n1 {
            return None;
        }
        let mut o = Some(if j < self.n0 { 0 } else { 1 });
        let mut i = 0;
        while i < 3 {
            if i < k && self.ops[i].id == j {
                o = if self.ops[i].burn { None } else { Some(self.ops[i].to) };
            }
            i += 1;
        }
        o
    }
    /// number of tokens of principal `a` after the first k operations (each operation was performed on an
    /// existing token by its ghost owner: asserted where the operation returns)
    pub fn count(&self, a: u32, k: usize) -> u32 {
        let mut c: i64 = if a == 0 { self.n0 as i64 } else if a == 1 { self.n1 as i64 } else { 0 };
        let mut i = 0;
        while i < 3 {
            if i < k {
                if self.ops[i].from == a {
                    c -= 1;
                }
                if !self.ops[i].burn && self.ops[i].to == a {
                    c += 1;
                }
            }
            i += 1;
        }
        c as u32
    }
}

/// batch_mint(A, n0) [-> batch_mint(B, n1)] from the empty state, with the documented results
pub fn arb_batches(two: bool) -> (u32, u32) {
    let n0: u32 = kani::any();
    kani::assume(n0 >= 1 && n0 <= MAXB);
    let n1: u32 = kani::any();
    kani::assume(n1 >= 1 && n1 <= MAXB);
    (n0, if two { n1 } else { 0 })
}
pub fn mint_batches(e: &Env, n0: u32, n1: u32) {
    let last0 = Consecutive::batch_mint(e, &Address::from_id(0), n0);
    prop!(last0 == n0 - 1, "C10.consecutive.batch_mint.first_batch_ids_start_at_zero");
    prop!(sequential::next_token_id(e) == n0, "C10.consecutive.batch_mint.counter_advanced_by_amount");
    let ev = ConsecutiveMint { to: Address::from_id(0), from_token_id: 0, to_token_id: n0 - 1 };
    prop!(model::n_events() == 1 && model::event_is(0, ConsecutiveMint::EVENT_ID, &ev.event_words()), "C10.consecutive.batch_mint.one_exact_event");
    if n1 == 0 {
        return;
    }
    next_invocation();
    let last1 = Consecutive::batch_mint(e, &Address::from_id(1), n1);
    prop!(last1 == n0 + n1 - 1, "C10.consecutive.batch_mint.second_batch_ids_follow_the_first");
    prop!(sequential::next_token_id(e) == n0 + n1, "C10.consecutive.batch_mint.counter_advanced_by_amount");
    let ev = ConsecutiveMint { to: Address::from_id(1), from_token_id: n0, to_token_id: n0 + n1 - 1 };
    prop!(model::n_events() == 1 && model::event_is(0, ConsecutiveMint::EVENT_ID, &ev.event_words()), "C10.consecutive.batch_mint.one_exact_event");
}

/// one operation through the real entry point; post-conditions against the ghost before it
pub fn run_op(e: &Env, g: &Ghost, k: usize) {
    next_invocation();
    let op = g.ops[k];
    let from = Address::from_id(op.from);
    let to = Address::from_id(op.to);
    if op.burn {
        Consecutive::burn(e, &from, op.id);
        let ev = Burn { from: from.clone(), token_id: op.id };
        prop!(model::n_events() == 1 && model::event_is(0, Burn::EVENT_ID, &ev.event_words()), "C10.consecutive.burn.one_exact_event");
    } else {
        Consecutive::transfer(e, &from, &to, op.id);
        let ev = Transfer { from: from.clone(), to: to.clone(), token_id: op.id };
        prop!(model::n_events() == 1 && model::event_is(0, Transfer::EVENT_ID, &ev.event_words()), "C10.consecutive.transfer.one_exact_event");
    }
    prop!(g.owner(op.id, k) == Some(op.from), "C10.consecutive.step.named_token_existed_and_belonged_to_from");
    prop!(sequential::next_token_id(e) == g.n0 + g.n1, "C10.consecutive.step.id_counter_unchanged_by_transfer_or_burn");
}

/// the stored state answers like the ghost: owner of a SYMBOLIC id (both directions: by link B the real owner_of
/// returns x exactly where the specification says Some(x) and traps elsewhere) and balance of a symbolic principal
pub fn query(e: &Env, g: &Ghost, k: usize, has_burn: bool, has_transfer: bool) {
    next_invocation();
    let a = addr_below(NP);
    prop!(Base::balance(e, &a) == g.count(a.id, k), "C10.consecutive.history.balance_equals_owned_count");
    let j: u32 = kani::any();
    let want = g.owner(j, k);
    let got = owner_of_spec(e, j);
    if want.is_some() {
        prop!(got.is_some() && got.unwrap().id == want.unwrap(), "C10.consecutive.history.existing_id_has_its_ghost_owner");
    } else {
        prop!(got.is_none(), "C10.consecutive.history.burned_or_unminted_id_has_no_owner");
    }
    witness!(!has_burn || (want.is_some() && j + 1 < g.n0 + g.n1 && g.owner(j + 1, k).is_none()), "query.existing_id_before_a_burned_id");
    witness!(!has_transfer || want == Some(2), "query.id_owned_by_the_third_party");
    witness!(!has_burn || (want.is_none() && j < g.n0 + g.n1), "query.burned_id");
    witness!(want.is_some() && j / IDS != (g.n0 + g.n1 - 1) / IDS, "query.marker_in_a_later_bucket");
}

/// The keys a history can write, pre-declared ABSENT (identical to the empty contract state: an absent entry and
/// no entry behave alike under get / has / set / remove / extend_ttl). Declaring them fixes the KIND of key each
/// slot holds (concrete variant word, symbolic id), so a lookup only has to be compared with the slots of its own
/// kind. Two declared keys may coincide (e.g. an operation on the last id of a batch): every storage primitive of
/// the model uses the FIRST matching slot, so a later duplicate is a dead slot. `end_checks(n)` then also proves the
/// frame: the history wrote no key outside this list.
pub const S_BAL: usize = 1;
pub const S_BKT: usize = 4;
pub const S_OWN: usize = 7;
pub fn declare_universe(g: &Ghost, k: usize, first: usize) -> usize {
    let zero = [0u64; model::VW];
    model::declare(first, 2, &SeqKeyMirror::TokenIdCounter, false, zero, 0);
    let mut a = 0;
    while a < 3 {
        model::declare(first + S_BAL + a, 0, &NFTStorageKey::Balance(Address::from_id(a as u32)), false, zero, 0);
        model::declare(first + S_BKT + a, 0, &ConsKey::OwnershipBucket(a as u32), false, zero, 0);
        a += 1;
    }
    model::declare(first + S_OWN, 0, &ConsKey::Owner(g.n0.wrapping_sub(1)), false, zero, 0);
    model::declare(first + S_OWN + 1, 0, &ConsKey::Owner((g.n0 + g.n1).wrapping_sub(1)), false, zero, 0);
    let mut n = first + S_OWN + 2;
    let mut i = 0;
    while i < 3 {
        if i < k {
            model::declare(n, 0, &ConsKey::Owner(g.ops[i].id.wrapping_sub(1)), false, zero, 0);
            model::declare(n + 1, 0, &ConsKey::Owner(g.ops[i].id), false, zero, 0);
            model::declare(n + 2, 0, &ConsKey::BurnedToken(g.ops[i].id), false, zero, 0);
            n += 3;
        }
        i += 1;
    }
    n
}

macro_rules! history {
    ($name:ident, $two:expr, $k:expr, [$b0:expr, $b1:expr, $b2:expr]) => {
        #[kani::proof]
        #[kani::unwind(25)]
        #[kani::stub(stellar_tokens::non_fungible::consecutive::Consecutive::owner_of, crate::nft_consec::owner_of_stub)]
        pub fn $name() {
            setup_world();
            let e = Env::default();
            let (n0, n1) = arb_batches($two);
            let g = Ghost {
                n0,
                n1,
                ops: [arb_op($b0), if $k >= 2 { arb_op($b1) } else { NOOP }, if $k >= 3 { arb_op($b2) } else { NOOP }],
            };
            let declared = declare_universe(&g, $k, 0);
            mint_batches(&e, n0, n1);
            run_op(&e, &g, 0);
            if $k >= 2 {
                run_op(&e, &g, 1);
            }
            if $k >= 3 {
                run_op(&e, &g, 2);
            }
            witness!(g.ops[0].id == 63 || g.ops[0].id == 64, "history.first_operation_at_a_bucket_edge");
            witness!(g.ops[0].id + 1 == n0, "history.first_operation_on_the_last_id_of_batch_one");
            witness!($k < 2 || g.ops[1].id + 1 == g.ops[0].id, "history.second_operation_on_the_id_before_the_first");
            witness!($k < 2 || g.ops[1].id == g.ops[0].id + 1, "history.second_operation_on_the_id_after_the_first");
            witness!($k < 2 || $b0 || g.ops[1].id == g.ops[0].id, "history.same_id_twice");
            witness!($k < 3 || (g.ops[0].id / IDS != g.ops[1].id / IDS && g.ops[1].id / IDS != g.ops[2].id / IDS && g.ops[0].id / IDS != g.ops[2].id / IDS), "history.three_buckets_touched");
            let has_burn = $b0 || ($k >= 2 && $b1) || ($k >= 3 && $b2);
            let has_transfer = !$b0 || ($k >= 2 && !$b1) || ($k >= 3 && !$b2);
            query(&e, &g, $k, has_burn, has_transfer);
            end_checks(declared);
        }
    };
}
const T: bool = false;
const B: bool = true;
history!(h1_t, true, 1, [T, T, T]);
history!(h1_b, true, 1, [B, T, T]);
history!(h2_tt, true, 2, [T, T, T]);
history!(h2_tb, true, 2, [T, B, T]);
history!(h2_bt, true, 2, [B, T, T]);
history!(h2_bb, true, 2, [B, B, T]);
history!(h3_ttt, true, 3, [T, T, T]);
history!(h3_ttb, true, 3, [T, T, B]);
history!(h3_tbt, true, 3, [T, B, T]);
history!(h3_tbb, true, 3, [T, B, B]);
history!(h3_btt, true, 3, [B, T, T]);
history!(h3_btb, true, 3, [B, T, B]);
history!(h3_bbt, true, 3, [B, B, T]);
history!(h3_bbb, true, 3, [B, B, B]);

// ------------------------------------------------------------------ C11: who may move a token, approvals
// State: two batches minted from the empty state (owner of id = A below n0, B from n0), plus an ARBITRARY approval
// state in three declared temporary slots: Approval(id) (absent / any account, any expiry, any storage TTL; written
// under `NFTStorageKey::Approval` as `Base::approve_for_owner` does, while `Consecutive::update` clears
// `NFTConsecutiveStorageKey::Approval`: the aliasing case), ApprovalForAll(from-or-owner, acting account) and
// ApprovalForAll(another account, acting account).
pub const S_APPR: usize = 0;
pub const S_OP: usize = 1;
pub const S_OP2: usize = 2;
pub const C11_FIRST: usize = 3;
pub struct ApprPre {
    pub present: bool,
    pub approved: Address,
    pub until: u32,
    pub entry: u32,
}
pub fn declare_approval(slot: usize, id: u32) -> ApprPre {
    let present: bool = kani::any();
    let approved = addr_below(4);
    let until: u32 = kani::any();
    let entry: u32 = kani::any();
    model::declare_val(slot, 1, &NFTStorageKey::Approval(id), present, &ApprovalData { approved: approved.clone(), live_until_ledger: until }, entry);
    ApprPre { present, approved, until, entry }
}
pub struct OpPre {
    pub present: bool,
    pub until: u32,
    pub entry: u32,
}
pub fn declare_operator(slot: usize, owner: &Address, operator: &Address) -> OpPre {
    let present: bool = kani::any();
    let until: u32 = kani::any();
    let entry: u32 = kani::any();
    model::declare_val(slot, 1, &NFTStorageKey::ApprovalForAll(owner.clone(), operator.clone()), present, &until, entry);
    OpPre { present, until, entry }
}
/// (evaluated at the ledger of the invocation that uses the approval)
pub fn approved_live(a: &ApprPre, who: &Address) -> bool {
    let seq = world().seq;
    a.present && a.entry >= seq && a.until >= seq && a.approved == *who
}
pub fn operator_live(o: &OpPre) -> bool {
    let seq = world().seq;
    o.present && o.entry >= seq && o.until >= seq
}
pub fn other_than(a: &Address) -> Address {
    let o = addr_below(4);
    kani::assume(o != *a);
    o
}

/// C10 for the delegated / direct entry points: exactly the named token changed hands (or vanished), balances follow
pub fn c10_after_move(e: &Env, g: &Ghost, tag_moved: bool) {
    let op = g.ops[0];
    let got = owner_of_spec(e, op.id);
    if tag_moved {
        prop!(got.is_some() && got.unwrap().id == op.to, "C10.consecutive.move.named_token_now_owned_by_to");
    } else {
        prop!(got.is_none(), "C10.consecutive.move.burned_token_has_no_owner");
    }
    let j: u32 = kani::any();
    kani::assume(j != op.id);
    let other = owner_of_spec(e, j);
    let want = g.owner(j, 0);
    prop!(other.clone().map(|a| a.id) == want, "C10.consecutive.move.every_other_id_keeps_its_owner");
    let a = addr_below(NP);
    prop!(Base::balance(e, &a) == g.count(a.id, 1), "C10.consecutive.move.balance_equals_owned_count");
    prop!(sequential::next_token_id(e) == g.n0 + g.n1, "C10.consecutive.move.id_counter_unchanged");
    witness!(want.is_some() && j + 1 == op.id, "move.witness_is_the_previous_id");
    witness!(want.is_some() && j == op.id + 1, "move.witness_is_the_next_id");
}

macro_rules! c11_delegated {
    ($name:ident, $tag:literal, $burn:expr) => {
        #[kani::proof]
        #[kani::unwind(25)]
        #[kani::stub(stellar_tokens::non_fungible::consecutive::Consecutive::owner_of, crate::nft_consec::owner_of_stub)]
        pub fn $name() {
            setup_world();
            let e = Env::default();
            let (n0, n1) = arb_batches(true);
            let g = Ghost { n0, n1, ops: [arb_op($burn), NOOP, NOOP] };
            let op = g.ops[0];
            let from = Address::from_id(op.from);
            let to = Address::from_id(op.to);
            let spender = addr_below(4);
            let ap = declare_approval(S_APPR, op.id);
            let opr = declare_operator(S_OP, &from, &spender);
            let foreign_owner = other_than(&from);
            let opr2 = declare_operator(S_OP2, &foreign_owner, &spender);
            let declared = declare_universe(&g, 1, C11_FIRST);
            mint_batches(&e, n0, n1);
            next_invocation();
            let was_approved = approved_live(&ap, &spender);
            let was_operator = operator_live(&opr);
            let foreign_operator = operator_live(&opr2);

            if $burn {
                Consecutive::burn_from(&e, &spender, &from, op.id);
                let ev = Burn { from: from.clone(), token_id: op.id };
                prop!(model::n_events() == 1 && model::event_is(0, Burn::EVENT_ID, &ev.event_words()), concat!("C10.consecutive.", $tag, ".one_exact_event"));
            } else {
                Consecutive::transfer_from(&e, &spender, &from, &to, op.id);
                let ev = Transfer { from: from.clone(), to: to.clone(), token_id: op.id };
                prop!(model::n_events() == 1 && model::event_is(0, Transfer::EVENT_ID, &ev.event_words()), concat!("C10.consecutive.", $tag, ".one_exact_event"));
            }

            prop!(authorized(&spender), concat!("C11.consecutive.", $tag, ".spender_authorized"));
            prop!(g.owner(op.id, 0) == Some(op.from), concat!("C11.consecutive.", $tag, ".from_is_current_owner"));
            if spender != from && !was_approved && !was_operator {
                prop!(!foreign_operator, concat!("C11.consecutive.", $tag, ".operator_of_another_owner_rejected"));
                prop!(foreign_operator, concat!("C11.consecutive.", $tag, ".spender_is_owner_or_live_approved_or_live_operator"));
            }
            prop!(!model::slot(S_APPR).present && Base::get_approved(&e, op.id).is_none(), concat!("C11.consecutive.", $tag, ".approval_cleared"));
            c10_after_move(&e, &g, !$burn);
            witness!(spender != from && was_approved && !was_operator, "delegated.by_live_approval");
            witness!(spender != from && !was_approved && was_operator, "delegated.by_live_operator");
            witness!(spender == from && !was_approved && !was_operator, "delegated.by_the_owner");
            witness!(foreign_operator && was_approved, "delegated.foreign_operator_entry_live");
            witness!(ap.present && ap.approved != spender && ap.until >= world().seq && ap.entry >= world().seq, "delegated.clears_live_approval_of_a_third_account");
            witness!(op.from == 1, "delegated.token_of_the_second_batch");
            end_checks(declared);
        }
    };
}
c11_delegated!(c11_transfer_from, "transfer_from", false);
c11_delegated!(c11_burn_from, "burn_from", true);

macro_rules! c11_direct {
    ($name:ident, $tag:literal, $burn:expr) => {
        #[kani::proof]
        #[kani::unwind(25)]
        #[kani::stub(stellar_tokens::non_fungible::consecutive::Consecutive::owner_of, crate::nft_consec::owner_of_stub)]
        pub fn $name() {
            setup_world();
            let e = Env::default();
            let (n0, n1) = arb_batches(true);
            let g = Ghost { n0, n1, ops: [arb_op($burn), NOOP, NOOP] };
            let op = g.ops[0];
            let from = Address::from_id(op.from);
            let to = Address::from_id(op.to);
            let ap = declare_approval(S_APPR, op.id);
            // operator entries in favour of `from` (given by either possible owner) never make `from` the owner
            let giver = addr_below(NP);
            let opr = declare_operator(S_OP, &giver, &from);
            let giver2 = other_than(&giver);
            let _opr2 = declare_operator(S_OP2, &giver2, &from);
            let declared = declare_universe(&g, 1, C11_FIRST);
            mint_batches(&e, n0, n1);
            next_invocation();
            let live_approval_for_from = approved_live(&ap, &from);
            let from_is_operator = operator_live(&opr);

            if $burn {
                Consecutive::burn(&e, &from, op.id);
            } else {
                Consecutive::transfer(&e, &from, &to, op.id);
            }

            prop!(authorized(&from), concat!("C11.consecutive.", $tag, ".from_authorized"));
            prop!(g.owner(op.id, 0) == Some(op.from), concat!("C11.consecutive.", $tag, ".from_is_current_owner"));
            prop!(!model::slot(S_APPR).present && Base::get_approved(&e, op.id).is_none(), concat!("C11.consecutive.", $tag, ".approval_cleared"));
            c10_after_move(&e, &g, !$burn);
            witness!(ap.present && ap.until >= world().seq && ap.entry >= world().seq, "direct.clears_a_live_approval");
            witness!(live_approval_for_from || from_is_operator, "direct.approvals_in_favour_of_from_present");
            end_checks(declared);
        }
    };
}
c11_direct!(c11_transfer, "transfer", false);
c11_direct!(c11_burn, "burn", true);

/// approve: only the owner or a live operator of the owner; the entry it writes is the one get_approved reads
#[kani::proof]
#[kani::unwind(25)]
#[kani::stub(stellar_tokens::non_fungible::consecutive::Consecutive::owner_of, crate::nft_consec::owner_of_stub)]
pub fn c11_approve() {
    setup_world();
    let e = Env::default();
    let (n0, n1) = arb_batches(true);
    let g = Ghost { n0, n1, ops: [NOOP, NOOP, NOOP] };
    let id: u32 = kani::any();
    let approver = addr_below(4);
    let approved = addr_below(4);
    let until: u32 = kani::any();
    let ghost_owner = Address::from_id(if id < n0 { 0 } else { 1 });
    let _ap = declare_approval(S_APPR, id);
    let opr = declare_operator(S_OP, &ghost_owner, &approver);
    let foreign_owner = other_than(&ghost_owner);
    let opr2 = declare_operator(S_OP2, &foreign_owner, &approver);
    let declared = declare_universe(&g, 0, C11_FIRST);
    mint_batches(&e, n0, n1);
    next_invocation();
    let seq = world().seq;
    let was_operator = operator_live(&opr);
    let foreign_operator = operator_live(&opr2);

    Consecutive::approve(&e, &approver, &approved, id, until);

    prop!(authorized(&approver), "C11.consecutive.approve.approver_authorized");
    prop!(g.owner(id, 0).is_some(), "C11.consecutive.approve.token_exists");
    if approver != ghost_owner && !was_operator {
        prop!(!foreign_operator, "C11.consecutive.approve.operator_of_another_owner_rejected");
        prop!(foreign_operator, "C11.consecutive.approve.approver_is_owner_or_live_operator");
    }
    if until == 0 {
        prop!(!model::slot(S_APPR).present && Base::get_approved(&e, id).is_none(), "C11.consecutive.approve.zero_expiry_revokes");
    } else {
        prop!(until >= seq, "C11.consecutive.approve.expiry_not_in_the_past");
        prop!(Base::get_approved(&e, id) == Some(approved.clone()), "C11.consecutive.approve.get_approved_names_the_approved_account");
        prop!(model::slot(S_APPR).live_until >= until || until - seq >= world().max_ttl, "C11.consecutive.approve.entry_lives_until_expiry");
    }
    let ev = Approve { approver: approver.clone(), token_id: id, approved: approved.clone(), live_until_ledger: until };
    prop!(model::n_events() == 1 && model::event_is(0, Approve::EVENT_ID, &ev.event_words()), "C11.consecutive.approve.one_exact_event");
    let now = owner_of_spec(&e, id);
    prop!(now.is_some() && now.unwrap() == ghost_owner, "C10.consecutive.approve.ownership_unchanged");
    witness!(approver != ghost_owner && was_operator && until > seq, "approve.by_live_operator");
    witness!(approver == ghost_owner && until == 0, "approve.revocation_by_owner");
    witness!(approver == ghost_owner && foreign_operator && id >= n0, "approve.owner_of_second_batch");
    end_checks(declared);
}

/// explicit two-invocation history: X holds a live approval for the token -> the owner transfers it -> X (no
/// operator of anybody) tries transfer_from / burn_from on the new owner's token: never succeeds
macro_rules! c11_stale {
    ($name:ident, $tag:literal, $burn:expr) => {
        #[kani::proof]
        #[kani::unwind(25)]
        #[kani::stub(stellar_tokens::non_fungible::consecutive::Consecutive::owner_of, crate::nft_consec::owner_of_stub)]
        pub fn $name() {
            setup_world();
            let e = Env::default();
            let (n0, n1) = arb_batches(true);
            let g = Ghost { n0, n1, ops: [arb_op(false), NOOP, NOOP] };
            let op = g.ops[0];
            let from = Address::from_id(op.from);
            let to = Address::from_id(op.to);
            let x = addr_below(4);
            kani::assume(x != to);
            let ap = declare_approval(S_APPR, op.id);
            // X is nobody's operator: the two entries X could use on the new owner's token are absent or dead
            model::declare_val(S_OP, 1, &NFTStorageKey::ApprovalForAll(to.clone(), x.clone()), false, &0u32, 0);
            let declared = declare_universe(&g, 1, C11_FIRST - 1);
            mint_batches(&e, n0, n1);
            next_invocation();
            let x_was_approved = approved_live(&ap, &x);
            Consecutive::transfer(&e, &from, &to, op.id);
            witness!(x_was_approved && from != to, "stale.transfer_with_live_approval_for_x");
            next_invocation();
            let dest = addr_below(NP);
            if $burn {
                Consecutive::burn_from(&e, &x, &to, op.id);
            } else {
                Consecutive::transfer_from(&e, &x, &to, &dest, op.id);
            }
            prop!(false, concat!("C11.consecutive.", $tag, ".approval_of_previous_owner_does_not_carry_over"));
            let _ = declared;
        }
    };
}
c11_stale!(c11_stale_transfer_from, "transfer_from", false);
c11_stale!(c11_stale_burn_from, "burn_from", true);
