//! C09: the self-administered TimelockController EXAMPLE contract
//! (/repo/examples/timelock-controller/src/contract.rs, mounted unmodified with `#[path]`; the
//! crate is a cdylib and cannot be a cargo dependency).
//!
//! `__check_auth` is the custom-account hook the host runs when the controller's own address must
//! authorize something; the harness plays the adversary who chooses the authorization entry:
//! `context_meta: Vec<OperationMeta>` of symbolic length 0..=2 against `auth_contexts:
//! Vec<Context>` of symbolic length 1..=2, all fields arbitrary.
//!
//! Operation universe of the `__check_auth` harness: the ids `H(ctx_i, meta_i)` (i = 0, 1) and the
//! predecessors `meta_i.predecessor`, slots 0..4, declared only where defined and with aliasing
//! resolved (an id that repeats an earlier key shares that key's slot), symbolic stored values.
//! Role state: `RoleAccountsCount(executor)` symbolic, `HasRole(Address(i), executor)` for i < 3
//! symbolic (the descriptor's executor is drawn from these three addresses).
//!
//! Profile `timelock` (shared with C08): cap2, bytes192, hw32, ew32, bytesdirect, valdigest.
use soroban_sdk::auth::{Context, ContractContext, CustomAccountInterface};
use soroban_sdk::crypto::Hash;
use soroban_sdk::model::{self, world, ArgBuf};
use soroban_sdk::{Address, Arb, BytesN, Env, IntoVal, Symbol, Val, Vec as SVec};
use stellar_access::access_control::{AccessControl, AccessControlStorageKey};
use stellar_governance::timelock::{
    hash_operation, MinDelayChanged, Operation, OperationExecuted, TimelockStorageKey,
};

use crate::timelock::{declare_min_delay, declare_op_slot, setup, stored_now, zero_id};
use crate::util::*;

#[path = "/repo/examples/timelock-controller/src/contract.rs"]
mod contract;
use contract::{OperationMeta, TimelockController};

const NR: usize = 3; // addresses 0..NR may hold a role

fn proposer_role() -> Symbol {
    Symbol::short("proposer")
}
fn executor_role() -> Symbol {
    Symbol::short("executor")
}
fn canceller_role() -> Symbol {
    Symbol::short("canceller")
}

/// slots `base..base+NR`: HasRole(Address(i), role) with symbolic presence and index
fn declare_role_members(base: usize, role: &Symbol) -> [bool; NR] {
    let mut has = [false; NR];
    let mut i = 0;
    while i < NR {
        let present: bool = kani::any();
        let idx: u32 = kani::any();
        let lu: u32 = kani::any();
        model::declare_val(
            base + i,
            0,
            &AccessControlStorageKey::HasRole(Address::from_id(i as u32), role.clone()),
            present,
            &idx,
            lu,
        );
        has[i] = present;
        i += 1;
    }
    has
}
fn held(has: &[bool; NR], a: &Address) -> bool {
    let mut r = false;
    let mut i = 0;
    while i < NR {
        if a.id == i as u32 {
            r = has[i];
        }
        i += 1;
    }
    r
}
/// slot `i`: RoleAccountsCount(role); returns the count the library will read (absent = 0)
fn declare_role_count(i: usize, role: &Symbol) -> u32 {
    let present: bool = kani::any();
    let n: u32 = kani::any();
    let lu: u32 = kani::any();
    model::declare_val(i, 0, &AccessControlStorageKey::RoleAccountsCount(role.clone()), present, &n, lu);
    if present {
        n
    } else {
        0
    }
}
/// slot `i`: Admin (instance) with symbolic presence and holder
fn declare_admin(i: usize) -> Option<Address> {
    let present: bool = kani::any();
    let a = Address::arb();
    model::declare_val(i, 2, &AccessControlStorageKey::Admin, present, &a, 0);
    if present {
        Some(a)
    } else {
        None
    }
}
fn arb_argbuf() -> ArgBuf {
    let mut a = ArgBuf::new();
    a.n = kani::any();
    let mut i = 0;
    while i < model::AW {
        a.w[i] = kani::any();
        i += 1;
    }
    a
}
/// every address may have signed one arbitrary `require_auth_for_args` tuple
fn arb_auth_args() {
    let w = world();
    let mut i = 0;
    while i < model::NADDR {
        w.auth_args_set[i] = kani::any();
        w.auth_args[i] = arb_argbuf();
        i += 1;
    }
}
fn args_buf(args: &SVec<Val>) -> ArgBuf {
    let mut a = ArgBuf::new();
    a.push(args);
    a
}

// ------------------------------------------------------------------ operation universe
const NU: usize = 4;
struct Uni {
    key: [BytesN<32>; NU],
    decl: [bool; NU],
    stored: [u32; NU],
}
impl Uni {
    fn new(e: &Env) -> Uni {
        Uni { key: [zero_id(e), zero_id(e), zero_id(e), zero_id(e)], decl: [false; NU], stored: [0; NU] }
    }
    /// declare `OperationLedger(key)` in slot `i` unless `key` already has a slot
    fn add(&mut self, i: usize, want: bool, key: &BytesN<32>) {
        let mut dup = false;
        let mut j = 0;
        while j < NU {
            if j < i && self.decl[j] && self.key[j] == *key {
                dup = true;
            }
            j += 1;
        }
        if want && !dup {
            self.stored[i] = declare_op_slot(i, key);
            self.decl[i] = true;
            self.key[i] = key.clone();
        }
    }
    fn pre(&self, key: &BytesN<32>) -> u32 {
        let mut r = 0;
        let mut found = false;
        let mut j = 0;
        while j < NU {
            if !found && self.decl[j] && self.key[j] == *key {
                r = self.stored[j];
                found = true;
            }
            j += 1;
        }
        r
    }
    fn now(&self, key: &BytesN<32>) -> u32 {
        let mut r = 0;
        let mut found = false;
        let mut j = 0;
        while j < NU {
            if !found && self.decl[j] && self.key[j] == *key {
                r = stored_now(j);
                found = true;
            }
            j += 1;
        }
        r
    }
}

struct Item {
    /// the i-th authorized context is a contract call (else: one of the two deployment contexts)
    is_contract: bool,
    /// the operation `(contract_i, fn_i, args_i, meta_i.predecessor, meta_i.salt)`
    op: Operation,
    /// its id (only for i < min(#contexts, #descriptors); else the zero id)
    id: BytesN<32>,
    executor: Option<Address>,
    /// the argument tuple the executor must have signed, exactly as the contract builds it
    exp_auth: ArgBuf,
}
fn expected_auth(e: &Env, op: &Operation) -> ArgBuf {
    let v: SVec<Val> = (
        Symbol::new(e, "execute_op"),
        op.target.clone(),
        op.function.clone(),
        op.args.clone(),
        op.predecessor.clone(),
        op.salt.clone(),
    )
        .into_val(e);
    args_buf(&v)
}
/// the symbolic pieces of context i and descriptor i; `paired`: both exist (then the id and the
/// expected executor signature are computed, through the real `hash_operation`)
fn piece(e: &Env, is_contract: bool, paired: bool, with_auth: bool) -> Item {
    let op = crate::timelock::arb_operation();
    let executor = <Option<Address> as Arb>::arb();
    if let Some(x) = &executor {
        kani::assume((x.id as usize) < NR);
    }
    let id = if paired { hash_operation(e, &op) } else { zero_id(e) };
    let exp_auth = if paired && with_auth { expected_auth(e, &op) } else { ArgBuf::new() };
    Item { is_contract, op, id, executor, exp_auth }
}
fn context_of(it: &Item) -> Context {
    if it.is_contract {
        Context::Contract(ContractContext {
            contract: it.op.target.clone(),
            fn_name: it.op.function.clone(),
            args: it.op.args.clone(),
        })
    } else {
        let c = <Context as Arb>::arb();
        kani::assume(!matches!(c, Context::Contract(_)));
        c
    }
}

const S_COUNT: usize = NU;
const S_MEMBERS: usize = NU + 1;
const CA_DECLARED: usize = NU + 1 + NR;

struct CheckAuth {
    e: Env,
    me: Address,
    n_ctx: u32,
    n_meta: u32,
    n_ex: u32,
    it: [Item; 2],
    /// stored value of id_i / of predecessor_i before the call (i < n_ex)
    pre: [u32; 2],
    pred_pre: [u32; 2],
    uni: Uni,
    count: u32,
    has: [bool; NR],
    seq: u32,
    ok: bool,
}
/// an arbitrary payload of `n_ctx` contexts and `n_meta` descriptors (CONCRETE lengths: one harness
/// per length pair) against an arbitrary stored state, then ONE `__check_auth`.
/// `executors`: Some(true) = the executor role has members, Some(false) = it has none, None = either.
/// `calls[i]`: context i is a contract call (else an arbitrary deployment context).
fn run_check_auth(n_ctx: u32, n_meta: u32, executors: Option<bool>, calls: [bool; 2]) -> CheckAuth {
    let e = setup();
    let me = e.current_contract_address();
    let n_ex = if n_ctx < n_meta { n_ctx } else { n_meta };
    let with_auth = executors != Some(false);
    let it = [piece(&e, calls[0], 0 < n_ex, with_auth), piece(&e, calls[1], 1 < n_ex, with_auth)];
    let mut ctxs: SVec<Context> = SVec::new(&e);
    let mut metas: SVec<OperationMeta> = SVec::new(&e);
    let mut i = 0;
    while i < 2 {
        if (i as u32) < n_ctx {
            ctxs.push_back(context_of(&it[i]));
        }
        if (i as u32) < n_meta {
            metas.push_back(OperationMeta {
                predecessor: it[i].op.predecessor.clone(),
                salt: it[i].op.salt.clone(),
                executor: it[i].executor.clone(),
            });
        }
        i += 1;
    }
    let mut uni = Uni::new(&e);
    uni.add(0, 0 < n_ex, &it[0].id);
    uni.add(1, 1 < n_ex, &it[1].id);
    uni.add(2, 0 < n_ex, &it[0].op.predecessor);
    uni.add(3, 1 < n_ex, &it[1].op.predecessor);
    let pre = [uni.pre(&it[0].id), uni.pre(&it[1].id)];
    let pred_pre = [uni.pre(&it[0].op.predecessor), uni.pre(&it[1].op.predecessor)];
    let count = declare_role_count(S_COUNT, &executor_role());
    if let Some(x) = executors {
        kani::assume((count != 0) == x);
    }
    let has = declare_role_members(S_MEMBERS, &executor_role());
    arb_auth_args();
    let payload = <Hash<32> as Arb>::arb();
    let seq = world().seq;
    // Harnesses whose payload must be rejected have no witness after the call; this one sits on a side
    // branch so that its trace can never coincide with a counterexample's trace (Kani prints one
    // playback test per distinct trace, and the runner needs the one of the failed assertion).
    if kani::any() {
        witness!(true, "payload_and_state_declared");
        kani::assume(false);
    }

    let r = <TimelockController as CustomAccountInterface>::__check_auth(e.clone(), payload, metas, ctxs);

    CheckAuth { e, me, n_ctx, n_meta, n_ex, it, pre, pred_pre, uni, count, has, seq, ok: r.is_ok() }
}

/// what `__check_auth == Ok` must imply
fn check_auth_props(c: &CheckAuth) {
    let zero = zero_id(&c.e);
    let now = [c.uni.now(&c.it[0].id), c.uni.now(&c.it[1].id)];
    let mut i = 0;
    while i < 2 {
        let it = &c.it[i];
        let examined = (i as u32) < c.n_ex;
        // context i is a call, has a descriptor, and the operation (call_i, descriptor_i) went Ready -> Done
        let consumed = examined && it.is_contract && c.pre[i] >= 2 && c.pre[i] <= c.seq && now[i] == 1;
        if (i as u32) < c.n_ctx {
            // THE property: no context is authorised without consuming a ready operation for that call
            prop!(consumed, "C09.ctrl.check_auth.every_context_consumes_an_operation");
        }
        if examined {
            prop!(it.is_contract && it.op.target == c.me, "C09.ctrl.check_auth.examined_context_is_a_call_on_the_controller");
            prop!(consumed, "C09.ctrl.check_auth.examined_context_consumes_its_ready_operation");
            prop!(
                it.op.predecessor == zero || c.pred_pre[i] == 1 || (i == 1 && it.op.predecessor == c.it[0].id),
                "C09.ctrl.check_auth.examined_context_predecessor_done"
            );
            let ev = OperationExecuted {
                id: it.id.clone(),
                target: it.op.target.clone(),
                function: it.op.function.clone(),
                args: it.op.args.clone(),
                predecessor: it.op.predecessor.clone(),
                salt: it.op.salt.clone(),
            };
            prop!(
                model::event_is(i, OperationExecuted::EVENT_ID, &ev.event_words()),
                "C09.ctrl.check_auth.examined_context_emits_executed_event"
            );
            if c.count != 0 {
                let okx = match &it.executor {
                    Some(x) => held(&c.has, x) && model::auth_args_count(x, &it.exp_auth) >= 1,
                    None => false,
                };
                prop!(okx, "C09.ctrl.check_auth.executor_holds_role_and_signed_exactly_this_call");
            }
        }
        i += 1;
    }
    if c.n_ex == 2 {
        prop!(c.it[0].id != c.it[1].id, "C09.ctrl.check_auth.one_operation_is_not_consumed_twice");
    }
    prop!(model::n_events() == c.n_ex, "C09.ctrl.check_auth.one_executed_event_per_examined_context");
    prop!(model::n_calls() == 0, "C09.ctrl.check_auth.invokes_nothing");
}

/// one harness per (number of contexts, number of descriptors, executor configuration, context kinds)
macro_rules! check_auth_harness {
    ($name:ident, $n_ctx:expr, $n_meta:expr, $exec:expr, $calls:expr, |$c:ident| $wit:block) => {
        #[kani::proof]
        #[kani::unwind(34)]
        pub fn $name() {
            let $c = run_check_auth($n_ctx, $n_meta, $exec, $calls);
            if !$c.ok {
                // the contract reports every rejection by trapping; an `Err` would be a rejection as well
                return;
            }
            check_auth_props(&$c);
            $wit;
            end_checks(CA_DECLARED);
        }
    };
}
const CALLS: [bool; 2] = [true, true];
// one descriptor per context (what the example's own tests exercise)
check_auth_harness!(c09_check_auth_1x1_open, 1, 1, Some(false), CALLS, |c| {
    witness!(c.it[0].op.predecessor == zero_id(&c.e), "ok_without_predecessor");
    witness!(c.it[0].op.predecessor != zero_id(&c.e), "ok_after_done_predecessor");
    witness!(c.it[0].executor.is_none(), "ok_anyone_when_no_executor_configured");
});
check_auth_harness!(c09_check_auth_1x1_exec, 1, 1, Some(true), CALLS, |c| {
    witness!(c.pre[0] == c.seq, "ok_executor_signed_at_first_ready_ledger");
});
check_auth_harness!(c09_check_auth_2x2_open, 2, 2, Some(false), CALLS, |c| {
    witness!(c.it[1].op.predecessor == c.it[0].id, "ok_second_context_chained_on_first");
    witness!(c.it[1].op.predecessor == zero_id(&c.e), "ok_two_independent_operations");
});
check_auth_harness!(c09_check_auth_2x2_exec, 2, 2, Some(true), CALLS, |c| {
    witness!(c.it[0].executor != c.it[1].executor, "ok_two_executors_signed");
});
// a context that is not a contract call (deployment contexts) is never authorised
check_auth_harness!(c09_check_auth_1x1_not_a_call, 1, 1, None, [false, true], |c| {});
check_auth_harness!(c09_check_auth_2x2_second_not_a_call, 2, 2, Some(false), [true, false], |c| {});
// surplus descriptor (currently ignored by the contract; a stricter contract may reject the payload,
// hence no witness after the call)
check_auth_harness!(c09_check_auth_1x2_open, 1, 2, Some(false), CALLS, |c| {});
check_auth_harness!(c09_check_auth_1x2_exec, 1, 2, Some(true), CALLS, |c| {});
// fewer descriptors than contexts: the adversary's short / empty payloads (no witness after the
// call: a correct contract rejects all of them)
check_auth_harness!(c09_check_auth_1x0, 1, 0, None, CALLS, |c| {});
check_auth_harness!(c09_check_auth_2x0, 2, 0, None, CALLS, |c| {});
check_auth_harness!(c09_check_auth_2x1_open, 2, 1, Some(false), CALLS, |c| {});
check_auth_harness!(c09_check_auth_2x1_exec, 2, 1, Some(true), CALLS, |c| {});

// ------------------------------------------------------------------ schedule_op / cancel_op / execute_op
#[kani::proof]
#[kani::unwind(34)]
pub fn c09_schedule_op() {
    let e = setup();
    let op = crate::timelock::arb_operation();
    let id = hash_operation(&e, &op);
    let stored = declare_op_slot(0, &id);
    let min = declare_min_delay(1);
    let has = declare_role_members(2, &proposer_role());
    // membership of the OTHER roles is arbitrary too: a check against the wrong role must show up as a failed clause
    let _ = declare_role_members(2 + NR, &canceller_role());
    let _ = declare_role_members(2 + 2 * NR, &executor_role());
    let proposer = addr_below(NR as u32);
    let delay: u32 = kani::any();
    let seq = world().seq;

    let rid = TimelockController::schedule_op(
        &e,
        op.target.clone(),
        op.function.clone(),
        op.args.clone(),
        op.predecessor.clone(),
        op.salt.clone(),
        delay,
        proposer.clone(),
    );

    prop!(held(&has, &proposer), "C09.ctrl.schedule_op.caller_holds_proposer_role");
    prop!(authorized(&proposer) && model::auth_count(&proposer) >= 1, "C09.ctrl.schedule_op.proposer_authorized");
    prop!(rid == id, "C09.ctrl.schedule_op.schedules_exactly_the_described_operation");
    prop!(stored == 0 && min.present && delay >= min.value, "C09.ctrl.schedule_op.unset_and_delay_at_least_min_delay");
    let want = seq as u64 + delay as u64;
    let want = if want > u32::MAX as u64 { u32::MAX } else { want as u32 };
    prop!(stored_now(0) == want, "C09.ctrl.schedule_op.ready_at_sequence_plus_delay");
    witness!(op.target == e.current_contract_address(), "self_administration_operation_scheduled");
    witness!(op.target != e.current_contract_address(), "external_operation_scheduled");
    end_checks(2 + 3 * NR);
}

#[kani::proof]
#[kani::unwind(34)]
pub fn c09_cancel_op() {
    let e = setup();
    let id = <BytesN<32> as Arb>::arb();
    let stored = declare_op_slot(0, &id);
    let has = declare_role_members(1, &canceller_role());
    // membership of the OTHER roles is arbitrary too: a check against the wrong role must show up as a failed clause
    let _ = declare_role_members(1 + NR, &proposer_role());
    let _ = declare_role_members(1 + 2 * NR, &executor_role());
    let canceller = addr_below(NR as u32);

    TimelockController::cancel_op(&e, id.clone(), canceller.clone());

    prop!(held(&has, &canceller), "C09.ctrl.cancel_op.caller_holds_canceller_role");
    prop!(authorized(&canceller) && model::auth_count(&canceller) >= 1, "C09.ctrl.cancel_op.canceller_authorized");
    prop!(stored >= 2 && !model::slot_live(0), "C09.ctrl.cancel_op.pending_operation_becomes_unset");
    witness!(stored > world().seq, "waiting_operation_cancelled");
    end_checks(1 + 3 * NR);
}

#[kani::proof]
#[kani::unwind(34)]
pub fn c09_execute_op() {
    let e = setup();
    let op = crate::timelock::arb_operation();
    let id = hash_operation(&e, &op);
    let stored = declare_op_slot(0, &id);
    let alias = op.predecessor == id;
    let mut pred_stored = stored;
    if !alias {
        pred_stored = declare_op_slot(1, &op.predecessor);
    }
    let count = declare_role_count(2, &executor_role());
    let has = declare_role_members(3, &executor_role());
    let executor = <Option<Address> as Arb>::arb();
    if let Some(x) = &executor {
        kani::assume((x.id as usize) < NR);
    }
    let seq = world().seq;

    let _ret: Val = TimelockController::execute_op(
        &e,
        op.target.clone(),
        op.function.clone(),
        op.args.clone(),
        op.predecessor.clone(),
        op.salt.clone(),
        executor.clone(),
    );

    if count != 0 {
        let okx = match &executor {
            Some(x) => held(&has, x) && authorized(x) && model::auth_count(x) >= 1,
            None => false,
        };
        prop!(okx, "C09.ctrl.execute_op.executor_holds_role_and_authorized_when_executors_configured");
    }
    prop!(stored >= 2 && stored <= seq, "C09.ctrl.execute_op.only_ready_operations");
    prop!(op.predecessor == zero_id(&e) || pred_stored == 1, "C09.ctrl.execute_op.predecessor_absent_or_done");
    prop!(stored_now(0) == 1, "C09.ctrl.execute_op.marks_done");
    prop!(
        model::n_calls() == 1 && model::call_count(&op.target, op.function.w, &args_buf(&op.args)) == 1,
        "C09.ctrl.execute_op.target_invoked_exactly_once_with_the_operation"
    );
    witness!(count == 0 && executor.is_none(), "anyone_executes_when_no_executor_configured");
    witness!(count != 0, "configured_executor_executes");
    end_checks(3 + NR);
}

// ------------------------------------------------------------------ admin-only entry points
/// update_delay, set_role_admin, transfer_admin_role, renounce_admin: `enforce_admin_auth` / admin.require_auth
#[kani::proof]
#[kani::unwind(34)]
pub fn c09_admin_only() {
    let e = setup();
    let me = e.current_contract_address();
    let admin = declare_admin(0);
    let min = declare_min_delay(1);
    // pending admin transfer (temporary): present/absent/expired
    let pp: bool = kani::any();
    let pending = Address::arb();
    let plu: u32 = kani::any();
    model::declare_val(2, 1, &AccessControlStorageKey::PendingAdmin, pp, &pending, plu);
    let role = Symbol::arb();
    let rp: bool = kani::any();
    let old_admin_role = Symbol::arb();
    let rlu: u32 = kani::any();
    model::declare_val(3, 0, &AccessControlStorageKey::RoleAdmin(role.clone()), rp, &old_admin_role, rlu);
    let s_admin = model::slot(0);
    let which: u8 = kani::any();
    kani::assume(which < 4);
    let new_delay: u32 = kani::any();

    if which == 0 {
        TimelockController::update_delay(&e, new_delay);
        prop!(model::slot(1).present && model::slot_val::<u32>(1) == new_delay, "C09.ctrl.update_delay.sets_min_delay");
        let ev = MinDelayChanged { old_delay: if min.present { min.value } else { 0 }, new_delay };
        prop!(
            model::n_events() == 1 && model::event_is(0, MinDelayChanged::EVENT_ID, &ev.event_words()),
            "C09.ctrl.update_delay.emits_change_event"
        );
        prop!(model::slots_equal(&model::slot(0), &s_admin), "C09.ctrl.update_delay.admin_unchanged");
    } else if which == 1 {
        let admin_role = Symbol::arb();
        <TimelockController as AccessControl>::set_role_admin(&e, role.clone(), admin_role.clone());
        prop!(model::slot(3).present && model::slot_val::<Symbol>(3) == admin_role, "C09.ctrl.set_role_admin.sets_admin_role");
    } else if which == 2 {
        let new_admin = Address::arb();
        let live_until: u32 = kani::any();
        <TimelockController as AccessControl>::transfer_admin_role(&e, new_admin, live_until);
        prop!(model::slots_equal(&model::slot(0), &s_admin), "C09.ctrl.transfer_admin_role.admin_unchanged_until_accepted");
    } else {
        <TimelockController as AccessControl>::renounce_admin(&e);
        prop!(!model::slot(0).present, "C09.ctrl.renounce_admin.admin_removed");
    }
    let okx = match &admin {
        Some(a) => authorized(a) && model::auth_count(a) >= 1,
        None => false,
    };
    prop!(okx, "C09.ctrl.admin_only.needs_the_admins_authorization");
    if admin == Some(me.clone()) {
        prop!(authorized(&me), "C09.ctrl.admin_only.self_administered_needs_the_controllers_own_authorization");
    }
    witness!(which == 0 && admin == Some(me.clone()), "self_administered_update_delay");
    witness!(which == 1 && admin == Some(me.clone()), "self_administered_set_role_admin");
    witness!(which == 2 && admin == Some(me.clone()), "self_administered_transfer_admin");
    witness!(which == 3 && admin == Some(me.clone()), "self_administered_renounce_admin");
    end_checks(4);
}

/// grant_role / revoke_role: the caller's authorization, and the caller is the admin or holds the
/// role's admin role. The enumeration entries of the granted/revoked role are not part of the
/// authorization decision: they are left to the model's default (absent), except the ones that
/// revoke needs to proceed (the account is the last member of the role).
#[kani::proof]
#[kani::unwind(34)]
pub fn c09_grant_revoke_role() {
    let e = setup();
    let me = e.current_contract_address();
    let admin = declare_admin(0);
    let role = Symbol::arb();
    let account = Address::arb();
    let caller = Address::arb();
    // the role's admin role, and whether the caller holds it
    let rp: bool = kani::any();
    let admin_role = Symbol::arb();
    let lu: u32 = kani::any();
    model::declare_val(1, 0, &AccessControlStorageKey::RoleAdmin(role.clone()), rp, &admin_role, lu);
    let cp: bool = kani::any();
    let cidx: u32 = kani::any();
    let clu: u32 = kani::any();
    model::declare_val(2, 0, &AccessControlStorageKey::HasRole(caller.clone(), admin_role.clone()), cp, &cidx, clu);
    // membership of `account` in `role` (shares slot 2 if it is the same key)
    let same_key = account == caller && role == admin_role;
    let revoke: bool = kani::any();
    let n: u32 = kani::any();
    if !same_key {
        let ap: bool = kani::any();
        let alu: u32 = kani::any();
        kani::assume(!revoke || n >= 1);
        model::declare_val(3, 0, &AccessControlStorageKey::HasRole(account.clone(), role.clone()), ap, &(n.wrapping_sub(1)), alu);
    } else {
        kani::assume(!revoke || (n >= 1 && cidx == n - 1));
    }
    if revoke {
        let nlu: u32 = kani::any();
        model::declare_val(4, 0, &AccessControlStorageKey::RoleAccountsCount(role.clone()), true, &n, nlu);
    }

    if revoke {
        <TimelockController as AccessControl>::revoke_role(&e, account.clone(), role.clone(), caller.clone());
    } else {
        <TimelockController as AccessControl>::grant_role(&e, account.clone(), role.clone(), caller.clone());
    }

    prop!(authorized(&caller) && model::auth_count(&caller) >= 1, "C09.ctrl.grant_revoke.caller_authorized");
    let is_admin = admin == Some(caller.clone());
    prop!(is_admin || (rp && cp), "C09.ctrl.grant_revoke.caller_is_admin_or_holds_the_roles_admin_role");
    if !rp && admin == Some(me.clone()) {
        prop!(caller == me && authorized(&me), "C09.ctrl.grant_revoke.self_administered_without_role_admins_needs_the_controller");
    }
    witness!(!revoke && is_admin && caller == me, "controller_grants");
    witness!(revoke && is_admin && caller == me, "controller_revokes");
    witness!(!revoke && !is_admin, "role_admin_grants");
    // the role's enumeration entries are written outside the declared slots on purpose (see above)
    kani::assert(!world().overflow, "MODEL-OVERFLOW: flag set");
}

