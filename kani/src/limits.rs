//! C20: "documented capacity limits are enforced exactly at the limit" -- decided AT the limit, in both directions.
//!
//! The step harnesses of the registries run with vectors of 3-4 elements, where a comparison against a documented
//! maximum of 5 / 10 / 15 is on the path but never true. Here the stored list is declared with MAX-1 / MAX elements
//! (profiles whose vectors hold MAX+1 elements), so that an off-by-one in either direction is decided:
//!   `<fn>_<limit>_at_limit`     the list holds MAX elements (or the argument list MAX+1): the addition NEVER returns
//!                               normally, whatever else is stored -- clause
//!                               `C20.<registry>.<fn>.<limit>_limit_exact.not_exceeded`;
//!   `<fn>_<limit>_below_limit`  the list holds MAX-1 elements (or the argument list exactly MAX) and every other
//!                               precondition of the addition is met: the addition returns normally. Every trap is
//!                               reported by the model's trap observer (feature `traphook`): the limit error under
//!                               `...limit_exact.reachable`, any other trap under `...accepted_below_the_limit`
//!                               (registered must-succeed: Rust panics count too); after the return the stored list
//!                               holds at most MAX elements (`...limit_exact.not_exceeded_in_storage`).
//! Nothing else is re-proved here (exact deltas, events, frames are the step harnesses' business).
//!
//! What keeps the big-vector profiles affordable (measured, see checks/reg_limits.py):
//!   * list LENGTHS are concrete along every path (`List::with_len`), so the model's loops over CAP fold;
//!   * everything that ends up in a storage KEY the call looks up is a constant (rule id, NextId, topic values): a
//!     symbolic key component leaves every look-up to the solver and every length read back becomes symbolic;
//!   * lists the library SORTS (signers) have fixed contents except the last stored and the new element;
//!   * model feature `vecclone` (element-wise `Vec::clone`), CBMC `--max-field-sensitivity-array-size 160`.
//!
//! Sub-modules and their profiles (checks/reg_limits.py):
//!   cti       lim_cti   cap21 vw24 ns24 ew32 traphook vecclone                 MAX_CLAIM_TOPICS = 15 (add_claim_topic,
//!                                                                              add_trusted_issuer, update_issuer_claim_topics)
//!   irs       lim_cti                                                          MAX_METADATA_ENTRIES = 10 (validate_country_data)
//!   ctxrules  lim_sa8   cap8 vw48 xdrdigest xw48 aw96 ew64 traphook vecclone   MAX_POLICIES = 5 (add_policy, add_context_rule)
//!             lim_sa21  cap21 vw128 xdrdigest xw128 ew160 traphook vecclone    MAX_SIGNERS = 15 (add_signer, add_context_rule)

// ================================================================================================ claim topics
#[cfg(all(feature = "cap21", feature = "traphook", not(feature = "xdrdigest")))]
pub mod cti {
    use soroban_sdk::model::{self, world, CAP};
    use soroban_sdk::{Address, Env, Flat};
    use stellar_tokens::rwa::claim_topics_and_issuers::storage::{
        add_claim_topic, add_trusted_issuer, update_issuer_claim_topics, ClaimTopicsAndIssuersStorageKey as Key,
    };
    use stellar_tokens::rwa::claim_topics_and_issuers::{CLAIMS_EXTEND_AMOUNT, ISSUERS_EXTEND_AMOUNT, MAX_CLAIM_TOPICS};

    use crate::registries::List;
    use crate::util::*;

    const S_CT: usize = 0;
    const S_CTI: usize = 1;
    const E_MAX_TOPICS: u32 = 374;

    /// slot 0: ClaimTopics = lo..=hi ARBITRARY pairwise different topics (absent only when empty);
    /// slot 1: whatever is stored under ClaimTopicIssuers(topic) for the topic of the call (it is overwritten)
    fn declare(lo: u32, hi: u32) -> (List, u32) {
        let topics = List::arb(lo, hi);
        kani::assume(topics.nodup());
        let p: bool = kani::any();
        kani::assume(p || topics.n == 0);
        model::declare_val(S_CT, 0, &Key::ClaimTopics, p, &topics.to_u32_vec(), kani::any());
        let topic: u32 = kani::any();
        let old = List::arb(0, 2);
        model::declare_val(S_CTI, 0, &Key::ClaimTopicIssuers(topic), kani::any(), &old.to_addr_vec(), kani::any());
        (topics, topic)
    }

    /// "only if": whenever `add_claim_topic` returns, there were fewer than MAX_CLAIM_TOPICS topics before and there are
    /// at most MAX_CLAIM_TOPICS after
    #[kani::proof]
    #[kani::unwind(26)]
    pub fn add_claim_topic_topics_at_limit() {
        setup_world();
        let e = Env::default();
        let (pre, topic) = declare(MAX_CLAIM_TOPICS - 2, MAX_CLAIM_TOPICS);
        witness!(pre.n == MAX_CLAIM_TOPICS && !pre.has(topic), "limit.new_topic_for_a_full_list_is_tried");

        add_claim_topic(&e, topic);

        prop!(pre.n + 1 <= MAX_CLAIM_TOPICS, "C20.cti.add_claim_topic.claim_topics_limit_exact.not_exceeded");
        let post = List::of_u32_slot(S_CT);
        prop!(model::slot(S_CT).present && post.n <= MAX_CLAIM_TOPICS && post.is_with(&pre, topic),
            "C20.cti.add_claim_topic.claim_topics_limit_exact.not_exceeded_in_storage");
        witness!(pre.n == MAX_CLAIM_TOPICS - 2, "limit.two_below_the_limit_accepted");
        witness!(pre.n == MAX_CLAIM_TOPICS - 1, "limit.fifteenth_topic_accepted");
        end_checks(2);
    }

    fn below_limit_trap(code: u32) {
        if code == E_MAX_TOPICS {
            prop!(false, "C20.cti.add_claim_topic.claim_topics_limit_exact.reachable");
        } else {
            prop!(false, "C20.cti.add_claim_topic.new_topic_accepted_below_the_limit");
        }
    }

    /// "if": a new topic for a list of MAX_CLAIM_TOPICS - 1 topics is accepted (the list then holds the documented maximum)
    #[kani::proof]
    #[kani::unwind(26)]
    pub fn add_claim_topic_topics_below_limit() {
        setup_world();
        let e = Env::default();
        kani::assume(world().seq < u32::MAX - CLAIMS_EXTEND_AMOUNT);
        let (pre, topic) = declare(MAX_CLAIM_TOPICS - 1, MAX_CLAIM_TOPICS - 1);
        kani::assume(!pre.has(topic));
        witness!(pre.n + 1 == MAX_CLAIM_TOPICS, "limit.call_reaching_exactly_the_documented_maximum_is_tried");

        unsafe { model::ON_TRAP = Some(below_limit_trap) };
        add_claim_topic(&e, topic);
        unsafe { model::ON_TRAP = None };

        let post = List::of_u32_slot(S_CT);
        prop!(post.n == MAX_CLAIM_TOPICS && post.has(topic), "C20.cti.add_claim_topic.accepted_topic_is_stored");
        witness!(post.n == MAX_CLAIM_TOPICS, "limit.fifteenth_topic_accepted");
        end_checks(2);
    }

    // -------------------------------------------------------------------------------------------- per-issuer topic lists
    // `add_trusted_issuer` / `update_issuer_claim_topics` refuse a topic list of more than MAX_CLAIM_TOPICS topics.
    // Universe: `n` registered topics with the FIXED values 100, 101, ... (topic values are only ever compared and used in
    // storage keys: with symbolic topics every one of the n ClaimTopicIssuers(t) entries may match every look-up and nothing
    // is decided during symbolic execution), each with its ClaimTopicIssuers entry (see declare_issuer_state); the list
    // the call passes = the same n topics. Slots: 0 ClaimTopics, 1 TrustedIssuers, 2 IssuerClaimTopics(issuer), 3.. the
    // ClaimTopicIssuers(100 + j).
    const T0: u32 = 100;
    const S_TI: usize = 1;
    const S_ICT: usize = 2;
    const S_TOPIC: usize = 3;
    /// the issuer of the call: a fixed address (opaque: only compared and used in keys); other issuers are arbitrary
    const ISSUER: u32 = 3;

    fn fixed_topics(n: u32) -> List {
        let mut l = List::empty();
        l.n = n;
        let mut k = 0;
        while k < CAP {
            if (k as u32) < n {
                l.x[k] = T0 + k as u32;
            }
            k += 1;
        }
        l
    }
    /// `n` registered topics; `known`: the issuer is trusted already and holds the one topic 100 (update) / is new (add).
    /// All list LENGTHS are concrete (the loops of the library over them keep concrete bounds): TrustedIssuers = one
    /// arbitrary other issuer (+ the issuer when known); ClaimTopicIssuers(t) = one arbitrary other issuer for every
    /// second topic, nobody for the others (+ the issuer for topic 100 when known)
    fn declare_issuer_state(n: u32, known: bool) -> (List, Address) {
        let topics = fixed_topics(n);
        model::declare_val(S_CT, 0, &Key::ClaimTopics, true, &topics.to_u32_vec(), kani::any());
        let issuer = Address::from_id(ISSUER);
        let other: u32 = kani::any();
        kani::assume(other != ISSUER);
        let mut ti = List::empty();
        ti.x[0] = other;
        ti.x[1] = ISSUER;
        ti.n = if known { 2 } else { 1 };
        model::declare_val(S_TI, 0, &Key::TrustedIssuers, true, &ti.to_addr_vec(), kani::any());
        let mut mine = List::empty();
        mine.x[0] = T0;
        mine.n = if known { 1 } else { 0 };
        model::declare_val(S_ICT, 0, &Key::IssuerClaimTopics(issuer.clone()), known, &mine.to_u32_vec(), kani::any());
        let mut j = 0;
        while j < CAP {
            if (j as u32) < n {
                let mut l = List::empty();
                if j % 2 == 0 {
                    let o: u32 = kani::any();
                    kani::assume(o != ISSUER);
                    l.x[0] = o;
                    l.n = 1;
                }
                if known && j == 0 {
                    l.x[1] = ISSUER;
                    l.n = 2;
                }
                model::declare_val(S_TOPIC + j, 0, &Key::ClaimTopicIssuers(T0 + j as u32), true, &l.to_addr_vec(), kani::any());
            }
            j += 1;
        }
        (topics, issuer)
    }
    fn issuer_is_listed_for_all(n: u32) -> bool {
        let mut ok = true;
        let mut j = 0;
        while j < CAP {
            if (j as u32) < n {
                ok &= List::of_addr_slot(S_TOPIC + j).has(ISSUER);
            }
            j += 1;
        }
        ok
    }
    fn add_issuer_trap(code: u32) {
        if code == E_MAX_TOPICS {
            prop!(false, "C20.cti.add_trusted_issuer.claim_topics_limit_exact.reachable");
        } else {
            prop!(false, "C20.cti.add_trusted_issuer.full_topic_list_accepted");
        }
    }
    fn update_issuer_trap(code: u32) {
        if code == E_MAX_TOPICS {
            prop!(false, "C20.cti.update_issuer_claim_topics.claim_topics_limit_exact.reachable");
        } else {
            prop!(false, "C20.cti.update_issuer_claim_topics.full_topic_list_accepted");
        }
    }

    /// "only if": no issuer is ever added with MAX_CLAIM_TOPICS + 1 topics (even if that many topics were registered)
    #[kani::proof]
    #[kani::unwind(26)]
    pub fn add_trusted_issuer_topics_at_limit() {
        setup_world();
        let e = Env::default();
        let (topics, issuer) = declare_issuer_state(MAX_CLAIM_TOPICS + 1, false);
        witness!(topics.n == MAX_CLAIM_TOPICS + 1, "limit.issuer_with_one_topic_too_many_is_tried");
        add_trusted_issuer(&e, &issuer, &topics.to_u32_vec());
        prop!(false, "C20.cti.add_trusted_issuer.claim_topics_limit_exact.not_exceeded");
    }
    /// "if": a new issuer for all MAX_CLAIM_TOPICS registered topics is accepted
    #[kani::proof]
    #[kani::unwind(26)]
    pub fn add_trusted_issuer_topics_below_limit() {
        setup_world();
        let e = Env::default();
        kani::assume(world().seq < u32::MAX - ISSUERS_EXTEND_AMOUNT);
        let (topics, issuer) = declare_issuer_state(MAX_CLAIM_TOPICS, false);
        witness!(topics.n == MAX_CLAIM_TOPICS, "limit.issuer_with_exactly_the_documented_maximum_is_tried");

        unsafe { model::ON_TRAP = Some(add_issuer_trap) };
        add_trusted_issuer(&e, &issuer, &topics.to_u32_vec());
        unsafe { model::ON_TRAP = None };

        let stored = List::of_u32_slot(S_ICT);
        prop!(model::slot(S_ICT).present && stored.same(&topics), "C20.cti.add_trusted_issuer.accepted_topic_list_is_stored");
        prop!(stored.n <= MAX_CLAIM_TOPICS, "C20.cti.add_trusted_issuer.claim_topics_limit_exact.not_exceeded_in_storage");
        prop!(issuer_is_listed_for_all(MAX_CLAIM_TOPICS), "C20.cti.add_trusted_issuer.issuer_listed_under_every_topic");
        witness!(List::of_addr_slot(S_TI).has(ISSUER), "limit.issuer_with_fifteen_topics_accepted");
        end_checks(S_TOPIC + MAX_CLAIM_TOPICS as usize);
    }
    /// "only if": no issuer's list is ever replaced by MAX_CLAIM_TOPICS + 1 topics
    #[kani::proof]
    #[kani::unwind(26)]
    pub fn update_issuer_topics_at_limit() {
        setup_world();
        let e = Env::default();
        let (topics, issuer) = declare_issuer_state(MAX_CLAIM_TOPICS + 1, true);
        witness!(topics.n == MAX_CLAIM_TOPICS + 1, "limit.update_to_one_topic_too_many_is_tried");
        update_issuer_claim_topics(&e, &issuer, &topics.to_u32_vec());
        prop!(false, "C20.cti.update_issuer_claim_topics.claim_topics_limit_exact.not_exceeded");
    }
    /// "if": a trusted issuer holding one topic is updated to all MAX_CLAIM_TOPICS registered topics
    #[kani::proof]
    #[kani::unwind(26)]
    pub fn update_issuer_topics_below_limit() {
        setup_world();
        let e = Env::default();
        kani::assume(world().seq < u32::MAX - ISSUERS_EXTEND_AMOUNT);
        let (topics, issuer) = declare_issuer_state(MAX_CLAIM_TOPICS, true);
        witness!(topics.n == MAX_CLAIM_TOPICS, "limit.update_to_exactly_the_documented_maximum_is_tried");

        unsafe { model::ON_TRAP = Some(update_issuer_trap) };
        update_issuer_claim_topics(&e, &issuer, &topics.to_u32_vec());
        unsafe { model::ON_TRAP = None };

        let stored = List::of_u32_slot(S_ICT);
        prop!(model::slot(S_ICT).present && stored.same(&topics), "C20.cti.update_issuer_claim_topics.accepted_topic_list_is_stored");
        prop!(stored.n <= MAX_CLAIM_TOPICS, "C20.cti.update_issuer_claim_topics.claim_topics_limit_exact.not_exceeded_in_storage");
        prop!(issuer_is_listed_for_all(MAX_CLAIM_TOPICS), "C20.cti.update_issuer_claim_topics.issuer_listed_under_every_topic");
        witness!(List::of_addr_slot(S_TOPIC + 14).has(ISSUER), "limit.update_to_fifteen_topics_accepted");
        end_checks(S_TOPIC + MAX_CLAIM_TOPICS as usize);
    }
}

// ================================================================================================ identity registry storage
/// MAX_METADATA_ENTRIES = 10 is enforced in ONE place, `validate_country_data` (called by add_identity,
/// add_country_data_entries, modify_country_data on every entry they store). The function is checked directly: a stored
/// IdentityProfile whose vectors hold 11+ elements does not fit any model value (1 + 21 * 91 words at capacity 21).
/// MAX_COUNTRY_ENTRIES = 15 is out of reach for the same reason (see checks/reg_limits.py).
#[cfg(all(feature = "cap21", feature = "traphook", not(feature = "xdrdigest")))]
pub mod irs {
    use soroban_sdk::model::{self, world, CAP};
    use soroban_sdk::{Arb, Env, Flat, Map, String, Symbol, Vec as SVec};
    use stellar_tokens::rwa::identity_registry_storage::{
        validate_country_data, CountryData, CountryRelation, IndividualCountryRelation, MAX_METADATA_ENTRIES,
    };

    use crate::util::*;

    const E_TOO_MANY_ENTRIES: u32 = 326;

    /// a country entry whose metadata map has exactly `n` (CONCRETE) entries: arbitrary pairwise different keys (sorted, as
    /// the host keeps maps), arbitrary values of 0..16 bytes; any individual relation
    fn entry_with_metadata(n: u32) -> CountryData {
        let mut keys: SVec<Symbol> = SVec::new(&Env);
        let mut vals: SVec<String> = SVec::new(&Env);
        let mut k = 0;
        while k < CAP {
            if (k as u32) < n {
                keys.push_back(Symbol::arb());
                vals.push_back(String::arb());
            }
            k += 1;
        }
        let m = Map::assume_from_parts(keys, vals);
        CountryData { country: CountryRelation::Individual(IndividualCountryRelation::arb()), metadata: Some(m) }
    }
    /// "only if": an entry with MAX_METADATA_ENTRIES + 1 metadata entries is never validated
    #[kani::proof]
    #[kani::unwind(26)]
    pub fn validate_country_data_metadata_at_limit() {
        setup_world();
        let e = Env::default();
        let cd = entry_with_metadata(MAX_METADATA_ENTRIES + 1);
        witness!(cd.metadata.is_some(), "limit.entry_with_one_metadata_entry_too_many_is_tried");
        validate_country_data(&e, &cd);
        prop!(false, "C20.irs.validate_country_data.metadata_entries_limit_exact.not_exceeded");
    }
    fn metadata_trap(code: u32) {
        if code == E_TOO_MANY_ENTRIES {
            prop!(false, "C20.irs.validate_country_data.metadata_entries_limit_exact.reachable");
        } else {
            prop!(false, "C20.irs.validate_country_data.full_metadata_accepted");
        }
    }
    /// "if": an entry with exactly MAX_METADATA_ENTRIES metadata entries (values within the string limit) is valid
    #[kani::proof]
    #[kani::unwind(26)]
    pub fn validate_country_data_metadata_below_limit() {
        setup_world();
        let e = Env::default();
        let cd = entry_with_metadata(MAX_METADATA_ENTRIES);
        unsafe { model::ON_TRAP = Some(metadata_trap) };
        validate_country_data(&e, &cd);
        unsafe { model::ON_TRAP = None };
        witness!(cd.metadata.as_ref().unwrap().len() == MAX_METADATA_ENTRIES, "limit.entry_with_ten_metadata_entries_accepted");
        end_checks(0);
    }
}

// ================================================================================================ smart-account context rules
#[cfg(all(feature = "xdrdigest", feature = "traphook", any(feature = "cap8", feature = "cap21")))]
pub mod ctxrules {
    use soroban_sdk::model::{self, world, CAP};
    use soroban_sdk::{Address, Arb, Bytes, BytesN, Env, Flat, Map, String, Val, Vec as SVec};
    use stellar_accounts::smart_account::{
        self as sa, ContextRuleType, Meta, Signer, SmartAccountStorageKey as Key, MAX_POLICIES, MAX_SIGNERS,
        SMART_ACCOUNT_EXTEND_AMOUNT,
    };

    use crate::registries::List;
    use crate::util::*;

    const E_TOO_MANY_SIGNERS: u32 = 3010;
    const E_TOO_MANY_POLICIES: u32 = 3011;

    /// the rule's id: a fixed number. It is opaque to the code under test (only ever part of a storage key; the step
    /// harnesses in context_rules.rs quantify over all ids); with a symbolic id no storage hit is decided during symbolic
    /// execution (the solver, not the simplifier, would learn that Policies(id) is the declared Policies(id)), every
    /// vector length read back from storage becomes symbolic and the harness costs 10x more (add_policy: 380 s instead of 35 s)
    const RULE_ID: u32 = 7;
    const S_META: usize = 0;
    const S_SIGNERS: usize = 1;
    const S_POLICIES: usize = 2;
    const S_FP1: usize = 3;
    const S_FP2: usize = 4;

    fn arb_rule_type() -> ContextRuleType {
        let k: u8 = kani::any();
        kani::assume(k < 3);
        if k == 0 {
            ContextRuleType::Default
        } else if k == 1 {
            ContextRuleType::CallContract(Address::from_id(kani::any()))
        } else {
            ContextRuleType::CreateContract(BytesN::<32>::arb())
        }
    }
    fn arb_name() -> String {
        let x: u8 = kani::any();
        String::from(Bytes::from_array(&Env, &[x]))
    }
    /// the delegated signers with these address ids
    pub fn delegated(l: &List) -> SVec<Signer> {
        let mut v = SVec::new(&Env);
        let mut k = 0;
        while k < CAP {
            if (k as u32) < l.n {
                v.push_back(Signer::Delegated(Address::from_id(l.x[k])));
            }
            k += 1;
        }
        v
    }
    /// the stored signer list as address ids (all signers of these harnesses are `Delegated`)
    fn delegated_ids_of_slot(i: usize) -> List {
        let mut l = List::empty();
        if model::slot(i).present {
            let v = model::slot_val::<SVec<Signer>>(i);
            l.n = v.len();
            let mut k = 0;
            while k < CAP {
                if let Some(Signer::Delegated(a)) = v.get(k as u32) {
                    l.x[k] = a.id;
                }
                k += 1;
            }
        }
        l
    }

    pub struct Rule {
        pub id: u32,
        pub present: bool,
        pub ty: ContextRuleType,
        /// address ids of the (delegated) signers
        pub sig: List,
        /// address ids of the policies
        pub pol: List,
    }
    /// arbitrary pairwise different ids; the length is the CONCRETE `n` (every loop of the library over the list keeps
    /// concrete bounds) or, with `n_lo < n`, symbolic in `n_lo..=n`
    pub fn distinct_ids(n_lo: u32, n: u32) -> List {
        let l = List::arb(n_lo, n);
        kani::assume(l.nodup());
        if n_lo == n {
            l.with_len(n)
        } else {
            l
        }
    }
    /// `n` pairwise different ids: the fixed numbers 1000, 1001, ... except the LAST one, which is arbitrary (any other u32).
    /// (For the lists the library SORTS -- the signers of a rule with up to 16 elements: with all elements symbolic every
    /// insertion position of the library's insertion sort is symbolic and two sorts of 15 elements exhaust 20 GB in symbolic
    /// execution; with fixed elements the sort is evaluated during symbolic execution and only the arbitrary last element and
    /// the arbitrary new element are placed symbolically. The limit logic never looks at the contents.)
    pub fn fixed_but_last(n: u32) -> List {
        let mut l = List::empty();
        l.n = n;
        let mut k = 0;
        while k < CAP {
            if (k as u32) < n {
                l.x[k] = 1000 + k as u32;
            }
            k += 1;
        }
        if n > 0 {
            let last: u32 = kani::any();
            kani::assume(last < 1000 || last >= 1000 + CAP as u32);
            l.x[n as usize - 1] = last;
        }
        l
    }
    /// slots 0..=2: Meta(id), Signers(id), Policies(id) of the rule RULE_ID: any type, any 1-byte name, any expiry; the given
    /// delegated signers and policies (pairwise different by construction), at least one of them (the registry's invariant)
    pub fn declare_rule(present: bool, sig: List, pol: List) -> Rule {
        let id: u32 = RULE_ID;
        let ty = arb_rule_type();
        kani::assume(sig.n + pol.n > 0);
        let meta = Meta { name: arb_name(), context_type: ty.clone(), valid_until: Option::<u32>::arb() };
        model::declare_val(S_META, 0, &Key::Meta(id), present, &meta, kani::any());
        model::declare_val(S_SIGNERS, 0, &Key::Signers(id), present, &delegated(&sig), kani::any());
        model::declare_val(S_POLICIES, 0, &Key::Policies(id), present, &pol.to_addr_vec(), kani::any());
        Rule { id, present, ty, sig, pol }
    }
    /// two ARBITRARY fingerprint entries, each present or absent: whichever fingerprints the call computes (of the rule
    /// before, of the rule after), each may or may not be on record (a superset of the reachable states)
    pub fn declare_any_fingerprints() {
        let h1 = BytesN::<32>::arb();
        let h2 = BytesN::<32>::arb();
        kani::assume(h1 != h2);
        model::declare_val(S_FP1, 0, &Key::Fingerprint(h1), kani::any(), &true, kani::any());
        model::declare_val(S_FP2, 0, &Key::Fingerprint(h2), kani::any(), &true, kani::any());
    }
    /// every stored entry the call reads gets its TTL extended: keep `sequence + extension` representable
    fn ttl_representable() {
        kani::assume(world().seq <= u32::MAX - SMART_ACCOUNT_EXTEND_AMOUNT);
    }
    fn pin_all_calls_return() {
        let mut i = 0;
        while i < model::NC {
            model::preset_call::<()>(i, false, &());
            i += 1;
        }
    }
    /// the call stayed inside the model; it wrote at most `extra` keys besides the declared ones (fingerprints)
    fn end(declared: usize, extra: usize) {
        end_checks(declared + extra);
    }

    // -------------------------------------------------------------------------------------------- add_policy (cap8)
    /// one stored rule with `ns` signers and MAX_POLICIES policies; any fingerprints on record; any new policy address, any
    /// install parameter, any answer of the policy contract: `add_policy` never returns normally
    #[cfg(all(feature = "cap8", not(feature = "cap21")))]
    fn add_policy_to_full_rule(ns: u32) {
        setup_world();
        let e = Env::default();
        let r = declare_rule(true, distinct_ids(ns, ns), distinct_ids(MAX_POLICIES, MAX_POLICIES));
        declare_any_fingerprints();
        let policy = Address::from_id(kani::any());
        let param = Val::arb();
        witness!(!r.pol.has(policy.id), "limit.new_policy_for_a_full_rule_is_tried");

        sa::add_policy(&e, r.id, &policy, param);

        prop!(false, "C20.ctxrules.add_policy.policies_limit_exact.not_exceeded");
    }
    /// "only if": a rule that holds MAX_POLICIES policies never gets one more (0, 1 or 2 signers)
    #[cfg(all(feature = "cap8", not(feature = "cap21")))]
    #[kani::proof]
    #[kani::unwind(98)]
    pub fn add_policy_policies_at_limit() {
        let shape: u8 = kani::any();
        if shape == 0 {
            add_policy_to_full_rule(0)
        } else if shape == 1 {
            add_policy_to_full_rule(1)
        } else {
            add_policy_to_full_rule(2)
        }
    }

    fn add_policy_trap(code: u32) {
        if code == E_TOO_MANY_POLICIES {
            prop!(false, "C20.ctxrules.add_policy.policies_limit_exact.reachable");
        } else {
            prop!(false, "C20.ctxrules.add_policy.new_policy_accepted_below_the_limit");
        }
    }
    /// "if": a new policy for a stored rule with MAX_POLICIES - 1 policies (no equal rule on record, install returns) is accepted
    #[cfg(all(feature = "cap8", not(feature = "cap21")))]
    #[kani::proof]
    #[kani::unwind(98)]
    pub fn add_policy_policies_below_limit() {
        setup_world();
        let e = Env::default();
        ttl_representable();
        let r = declare_rule(true, distinct_ids(1, 1), distinct_ids(MAX_POLICIES - 1, MAX_POLICIES - 1));
        let policy = Address::from_id(kani::any());
        let param = Val::arb();
        kani::assume(!r.pol.has(policy.id));
        pin_all_calls_return();
        witness!(r.pol.n + 1 == MAX_POLICIES, "limit.call_reaching_exactly_the_documented_maximum_is_tried");

        unsafe { model::ON_TRAP = Some(add_policy_trap) };
        sa::add_policy(&e, r.id, &policy, param);
        unsafe { model::ON_TRAP = None };

        let post = List::of_addr_slot(S_POLICIES);
        prop!(post.is_with(&r.pol, policy.id), "C20.ctxrules.add_policy.accepted_policy_is_stored");
        prop!(post.n <= MAX_POLICIES, "C20.ctxrules.add_policy.policies_limit_exact.not_exceeded_in_storage");
        witness!(post.n == MAX_POLICIES, "limit.fifth_policy_accepted");
        end(3, 1);
    }

    // -------------------------------------------------------------------------------------------- add_signer (cap21)
    /// the signer a call adds: delegated (any address id) or external (any verifier id, one arbitrary key byte)
    fn arb_new_signer() -> Signer {
        let a = Address::from_id(kani::any());
        if kani::any() {
            Signer::Delegated(a)
        } else {
            let x: u8 = kani::any();
            Signer::External(a, Bytes::from_array(&Env, &[x]))
        }
    }
    fn is_delegated_in(s: &Signer, l: &List) -> bool {
        match s {
            Signer::Delegated(a) => l.has(a.id),
            _ => false,
        }
    }
    /// one stored rule with MAX_SIGNERS signers and `np` policies; any fingerprints on record; any new signer:
    /// `add_signer` never returns normally
    #[cfg(feature = "cap21")]
    fn add_signer_to_full_rule(np: u32) {
        setup_world();
        let e = Env::default();
        let r = declare_rule(true, fixed_but_last(MAX_SIGNERS), distinct_ids(np, np));
        declare_any_fingerprints();
        let s = arb_new_signer();
        witness!(!is_delegated_in(&s, &r.sig), "limit.new_signer_for_a_full_rule_is_tried");

        sa::add_signer(&e, r.id, &s);

        prop!(false, "C20.ctxrules.add_signer.signers_limit_exact.not_exceeded");
    }
    /// "only if": a rule that holds MAX_SIGNERS signers (and no policy) never gets one more
    #[cfg(feature = "cap21")]
    #[kani::proof]
    #[kani::unwind(130)]
    pub fn add_signer_signers_at_limit() {
        add_signer_to_full_rule(0)
    }

    fn add_signer_trap(code: u32) {
        if code == E_TOO_MANY_SIGNERS {
            prop!(false, "C20.ctxrules.add_signer.signers_limit_exact.reachable");
        } else {
            prop!(false, "C20.ctxrules.add_signer.new_signer_accepted_below_the_limit");
        }
    }
    /// "if": a new signer for a stored rule with MAX_SIGNERS - 1 signers (no equal rule on record) is accepted
    #[cfg(feature = "cap21")]
    #[kani::proof]
    #[kani::unwind(130)]
    pub fn add_signer_signers_below_limit() {
        setup_world();
        let e = Env::default();
        ttl_representable();
        let r = declare_rule(true, fixed_but_last(MAX_SIGNERS - 1), distinct_ids(1, 1));
        let s = arb_new_signer();
        kani::assume(!is_delegated_in(&s, &r.sig));
        witness!(r.sig.n + 1 == MAX_SIGNERS, "limit.call_reaching_exactly_the_documented_maximum_is_tried");

        unsafe { model::ON_TRAP = Some(add_signer_trap) };
        sa::add_signer(&e, r.id, &s);
        unsafe { model::ON_TRAP = None };

        let post = model::slot_val::<SVec<Signer>>(S_SIGNERS);
        prop!(post.len() == r.sig.n + 1 && post.get(r.sig.n) == Some(s.clone()), "C20.ctxrules.add_signer.accepted_signer_is_stored");
        prop!(post.len() <= MAX_SIGNERS, "C20.ctxrules.add_signer.signers_limit_exact.not_exceeded_in_storage");
        witness!(post.len() == MAX_SIGNERS, "limit.fifteenth_signer_accepted");
        end(3, 1);
    }

    // -------------------------------------------------------------------------------------------- add_context_rule
    /// the id the new rule gets: NextId is stored with this fixed value (see RULE_ID for why it is not symbolic)
    const NEXT_ID: u32 = 7;
    const A_NEXT: usize = 0;
    const A_COUNT: usize = 1;
    const A_IDS: usize = 2;
    const A_META: usize = 3;
    const A_SIGNERS: usize = 4;
    const A_POLICIES: usize = 5;
    const A_FP1: usize = 6;
    const A_FP2: usize = 7;

    /// NextId = 7; Count arbitrary (present or absent); Ids(Default) = 0..2 arbitrary older ids; whatever is stored under
    /// the next id (it is overwritten); with `fingerprints`, two arbitrary fingerprint entries present or absent.
    /// Returns the rule count.
    fn declare_registry(fingerprints: bool) -> u32 {
        model::declare_val(A_NEXT, 2, &Key::NextId, true, &NEXT_ID, 0);
        let cp: bool = kani::any();
        let c: u32 = kani::any();
        model::declare_val(A_COUNT, 2, &Key::Count, cp, &c, 0);
        let ids = List::arb(0, 2);
        kani::assume(ids.all_below(NEXT_ID));
        let lp: bool = kani::any();
        kani::assume(lp || ids.n == 0);
        model::declare_val(A_IDS, 0, &Key::Ids(ContextRuleType::Default), lp, &ids.to_u32_vec(), kani::any());
        let old = Meta { name: arb_name(), context_type: ContextRuleType::Default, valid_until: None };
        model::declare_val(A_META, 0, &Key::Meta(NEXT_ID), kani::any(), &old, kani::any());
        model::declare_val(A_SIGNERS, 0, &Key::Signers(NEXT_ID), kani::any(), &SVec::<Signer>::new(&Env), kani::any());
        model::declare_val(A_POLICIES, 0, &Key::Policies(NEXT_ID), kani::any(), &SVec::<Address>::new(&Env), kani::any());
        if fingerprints {
            let h1 = BytesN::<32>::arb();
            let h2 = BytesN::<32>::arb();
            kani::assume(h1 != h2);
            model::declare_val(A_FP1, 0, &Key::Fingerprint(h1), kani::any(), &true, kani::any());
            model::declare_val(A_FP2, 0, &Key::Fingerprint(h2), kani::any(), &true, kani::any());
        }
        if cp {
            c
        } else {
            0
        }
    }
    /// the policy map with these (strictly increasing, hence pairwise different) addresses and arbitrary install parameters
    fn policy_map(l: &List) -> Map<Address, Val> {
        let mut vals = SVec::new(&Env);
        let mut k = 0;
        while k < CAP {
            if (k as u32) < l.n {
                vals.push_back(Val::arb());
            }
            k += 1;
        }
        Map::assume_from_parts(l.to_addr_vec(), vals)
    }
    /// `n` arbitrary ids, length CONCRETE (no distinctness assumed)
    fn any_ids(n: u32) -> List {
        List::arb(n, n).with_len(n)
    }
    fn add_rule_trap(code: u32) {
        if code == E_TOO_MANY_SIGNERS {
            prop!(false, "C20.ctxrules.add_context_rule.signers_limit_exact.reachable");
        } else if code == E_TOO_MANY_POLICIES {
            prop!(false, "C20.ctxrules.add_context_rule.policies_limit_exact.reachable");
        } else {
            prop!(false, "C20.ctxrules.add_context_rule.new_rule_accepted_below_the_limits");
        }
    }
    /// a new rule of type Default with these signers and policies, from any registry state: the call as the harnesses make it
    fn call_add_rule(e: &Env, sig: &List, pol: &List, valid_until: Option<u32>) -> sa::ContextRule {
        sa::add_context_rule(e, &ContextRuleType::Default, &arb_name(), valid_until, &delegated(sig), &policy_map(pol))
    }
    /// must-succeed pre-state: room for one more rule, expiry not in the past, no equal rule on record, installs return
    fn add_rule_must_succeed(sig: &List, pol: &List) {
        setup_world();
        let e = Env::default();
        let count = declare_registry(false);
        kani::assume(count < sa::MAX_CONTEXT_RULES);
        let valid_until = Option::<u32>::arb();
        kani::assume(match valid_until { None => true, Some(v) => v >= world().seq });
        pin_all_calls_return();

        unsafe { model::ON_TRAP = Some(add_rule_trap) };
        let got = call_add_rule(&e, sig, pol, valid_until);
        unsafe { model::ON_TRAP = None };

        prop!(got.id == NEXT_ID && got.signers.len() == sig.n && got.policies.len() == pol.n, "C20.ctxrules.add_context_rule.accepted_rule_is_returned");
        prop!(delegated_ids_of_slot(A_SIGNERS).same(sig), "C20.ctxrules.add_context_rule.accepted_signers_are_stored");
        prop!(List::of_addr_slot(A_POLICIES).same(pol), "C20.ctxrules.add_context_rule.accepted_policies_are_stored");
        prop!(model::n_calls() == pol.n, "C20.ctxrules.add_context_rule.each_policy_installed_once");
        prop!(sig.n <= MAX_SIGNERS, "C20.ctxrules.add_context_rule.signers_limit_exact.not_exceeded_in_storage");
        prop!(pol.n <= MAX_POLICIES, "C20.ctxrules.add_context_rule.policies_limit_exact.not_exceeded_in_storage");
        end(6, 1);
    }

    /// "only if" (MAX_POLICIES): a rule with MAX_POLICIES + 1 policies is never created (0 or 1 signers; any registry state)
    #[cfg(all(feature = "cap8", not(feature = "cap21")))]
    #[kani::proof]
    #[kani::unwind(98)]
    pub fn add_context_rule_policies_at_limit() {
        setup_world();
        let e = Env::default();
        declare_registry(true);
        let pol = any_ids(MAX_POLICIES + 1);
        witness!(pol.nodup(), "limit.rule_with_one_policy_too_many_is_tried");
        if kani::any() {
            call_add_rule(&e, &any_ids(0), &pol, Option::<u32>::arb());
        } else {
            call_add_rule(&e, &any_ids(1), &pol, Option::<u32>::arb());
        }
        prop!(false, "C20.ctxrules.add_context_rule.policies_limit_exact.not_exceeded");
    }
    /// "if" (MAX_POLICIES): a fresh rule with one signer and exactly MAX_POLICIES policies is accepted
    #[cfg(all(feature = "cap8", not(feature = "cap21")))]
    #[kani::proof]
    #[kani::unwind(98)]
    pub fn add_context_rule_policies_below_limit() {
        let pol = any_ids(MAX_POLICIES);
        witness!(pol.n == MAX_POLICIES, "limit.rule_with_exactly_the_documented_maximum_is_tried");
        add_rule_must_succeed(&any_ids(1), &pol);
        witness!(List::of_addr_slot(A_POLICIES).n == MAX_POLICIES, "limit.rule_with_five_policies_accepted");
    }

    /// "only if" (MAX_SIGNERS): a rule with MAX_SIGNERS + 1 signers is never created (no policies; any registry state)
    #[cfg(feature = "cap21")]
    #[kani::proof]
    #[kani::unwind(170)]
    pub fn add_context_rule_signers_at_limit() {
        setup_world();
        let e = Env::default();
        declare_registry(true);
        let sig = fixed_but_last(MAX_SIGNERS + 1);
        witness!(sig.nodup(), "limit.rule_with_one_signer_too_many_is_tried");
        call_add_rule(&e, &sig, &any_ids(0), Option::<u32>::arb());
        prop!(false, "C20.ctxrules.add_context_rule.signers_limit_exact.not_exceeded");
    }
    /// "if" (MAX_SIGNERS): a fresh rule with exactly MAX_SIGNERS signers and no policy is accepted
    #[cfg(feature = "cap21")]
    #[kani::proof]
    #[kani::unwind(170)]
    pub fn add_context_rule_signers_below_limit() {
        let sig = fixed_but_last(MAX_SIGNERS);
        witness!(sig.n == MAX_SIGNERS, "limit.rule_with_exactly_the_documented_maximum_is_tried");
        add_rule_must_succeed(&sig, &any_ids(0));
        witness!(delegated_ids_of_slot(A_SIGNERS).n == MAX_SIGNERS, "limit.rule_with_fifteen_signers_accepted");
    }
}
