//! C20: "documented capacity limits are enforced exactly at the limit" -- decided AT the limit, in both directions.
//!
//! The step harnesses of the registries run with vectors of 3-4 elements, where a comparison against a documented
//! maximum of 5 / 15 is on the path but never true. Here the stored list is declared with MAX-1 / MAX ARBITRARY
//! pairwise different elements (profiles whose vectors hold MAX+1 elements), so that an off-by-one in either
//! direction is decided:
//!   `<fn>_<limit>_at_limit`     the list holds MAX-2..=MAX elements: whenever the addition returns normally the list
//!                               held fewer than MAX elements before and holds at most MAX after (clauses
//!                               `C20.<registry>.<fn>.<limit>_limit_exact.not_exceeded[_in_storage]`);
//!   `<fn>_<limit>_below_limit`  the list holds MAX-1 elements and every other precondition of the addition is met:
//!                               the addition returns normally. Every trap is reported by the model's trap observer
//!                               (feature `traphook`): the limit error under `...limit_exact.reachable`, any other trap
//!                               under `...accepted_below_the_limit` (registered must-succeed: Rust panics count too).
//! Nothing else is re-proved here (exact deltas, events, frames are the step harnesses' business), which keeps the
//! big-vector profiles affordable.
//!
//! Sub-modules and their profiles (checks/reg_limits.py):
//!   cti       lim_cti   cap21 vw24 traphook                               MAX_CLAIM_TOPICS = 15 (add_claim_topic, per-issuer lists)
//!   ctxrules  lim_sa8   cap8 vw48 xdrdigest xw48 aw96 ew64 traphook       MAX_POLICIES = 5 (add_policy, add_context_rule)
//!             lim_sa21  cap21 vw128 xdrdigest xw128 ew160 traphook        MAX_SIGNERS = 15 (add_signer, add_context_rule)
//!   irs       lim_irs   (see the module)                                  MAX_COUNTRY_ENTRIES = 15, MAX_METADATA_ENTRIES = 10

// ================================================================================================ claim topics
#[cfg(all(feature = "cap21", feature = "traphook", not(feature = "xdrdigest")))]
pub mod cti {
    use soroban_sdk::model::{self, world, CAP};
    use soroban_sdk::{Address, Env, Flat};
    use stellar_tokens::rwa::claim_topics_and_issuers::storage::{add_claim_topic, ClaimTopicsAndIssuersStorageKey as Key};
    use stellar_tokens::rwa::claim_topics_and_issuers::{CLAIMS_EXTEND_AMOUNT, MAX_CLAIM_TOPICS};

    use crate::registries::List;
    use crate::util::*;

    const S_CT: usize = 0;
    const S_CTI: usize = 1;
    const E_MAX_TOPICS: u32 = 374;

    /// slot 0: ClaimTopics = lo..=hi ARBITRARY pairwise different topics (absent only when empty);
    /// slot 1: whatever is stored under ClaimTopicIssuers(topic) for the topic of the call (it is overwritten)
    fn declare(lo: u32, hi: u32) -> (List, u32) {
        let topics = List::arb(lo, hi);
        kani::assume(topics.nodup());
        let p: bool = kani::any();
        kani::assume(p || topics.n == 0);
        model::declare_val(S_CT, 0, &Key::ClaimTopics, p, &topics.to_u32_vec(), kani::any());
        let topic: u32 = kani::any();
        let old = List::arb(0, 2);
        model::declare_val(S_CTI, 0, &Key::ClaimTopicIssuers(topic), kani::any(), &old.to_addr_vec(), kani::any());
        (topics, topic)
    }

    /// "only if": whenever `add_claim_topic` returns, there were fewer than MAX_CLAIM_TOPICS topics before and there are
    /// at most MAX_CLAIM_TOPICS after
    #[kani::proof]
    #[kani::unwind(26)]
    pub fn add_claim_topic_topics_at_limit() {
        setup_world();
        let e = Env::default();
        let (pre, topic) = declare(MAX_CLAIM_TOPICS - 2, MAX_CLAIM_TOPICS);
        witness!(pre.n == MAX_CLAIM_TOPICS && !pre.has(topic), "limit.new_topic_for_a_full_list_is_tried");

        add_claim_topic(&e, topic);

        prop!(pre.n + 1 <= MAX_CLAIM_TOPICS, "C20.cti.add_claim_topic.claim_topics_limit_exact.not_exceeded");
        let post = List::of_u32_slot(S_CT);
        prop!(model::slot(S_CT).present && post.n <= MAX_CLAIM_TOPICS && post.is_with(&pre, topic),
            "C20.cti.add_claim_topic.claim_topics_limit_exact.not_exceeded_in_storage");
        witness!(pre.n == MAX_CLAIM_TOPICS - 2, "limit.two_below_the_limit_accepted");
        witness!(pre.n == MAX_CLAIM_TOPICS - 1, "limit.fifteenth_topic_accepted");
        end_checks(2);
    }

    fn below_limit_trap(code: u32) {
        if code == E_MAX_TOPICS {
            prop!(false, "C20.cti.add_claim_topic.claim_topics_limit_exact.reachable");
        } else {
            prop!(false, "C20.cti.add_claim_topic.new_topic_accepted_below_the_limit");
        }
    }

    /// "if": a new topic for a list of MAX_CLAIM_TOPICS - 1 topics is accepted (the list then holds the documented maximum)
    #[kani::proof]
    #[kani::unwind(26)]
    pub fn add_claim_topic_topics_below_limit() {
        setup_world();
        let e = Env::default();
        kani::assume(world().seq < u32::MAX - CLAIMS_EXTEND_AMOUNT);
        let (pre, topic) = declare(MAX_CLAIM_TOPICS - 1, MAX_CLAIM_TOPICS - 1);
        kani::assume(!pre.has(topic));
        witness!(pre.n + 1 == MAX_CLAIM_TOPICS, "limit.call_reaching_exactly_the_documented_maximum_is_tried");

        unsafe { model::ON_TRAP = Some(below_limit_trap) };
        add_claim_topic(&e, topic);
        unsafe { model::ON_TRAP = None };

        let post = List::of_u32_slot(S_CT);
        prop!(post.n == MAX_CLAIM_TOPICS && post.has(topic), "C20.cti.add_claim_topic.accepted_topic_is_stored");
        witness!(post.n == MAX_CLAIM_TOPICS, "limit.fifteenth_topic_accepted");
        end_checks(2);
    }
}

// ================================================================================================ smart-account context rules
#[cfg(all(feature = "xdrdigest", feature = "traphook", any(feature = "cap8", feature = "cap21")))]
pub mod ctxrules {
    use soroban_sdk::model::{self, world, CAP};
    use soroban_sdk::{Address, Arb, Bytes, BytesN, Env, Flat, Map, String, Val, Vec as SVec};
    use stellar_accounts::smart_account::{
        self as sa, ContextRuleType, Meta, Signer, SmartAccountStorageKey as Key, MAX_POLICIES, MAX_SIGNERS,
        SMART_ACCOUNT_EXTEND_AMOUNT,
    };

    use crate::registries::List;
    use crate::util::*;

    const E_TOO_MANY_SIGNERS: u32 = 3010;
    const E_TOO_MANY_POLICIES: u32 = 3011;

    /// the rule's id: a fixed number. It is opaque to the code under test (only ever part of a storage key; the step
    /// harnesses in context_rules.rs quantify over all ids); with a symbolic id no storage hit is decided during symbolic
    /// execution (the solver, not the simplifier, would learn that Policies(id) is the declared Policies(id)), every
    /// vector length read back from storage becomes symbolic and the harness costs 30x more
    const RULE_ID: u32 = 7;
    const S_META: usize = 0;
    const S_SIGNERS: usize = 1;
    const S_POLICIES: usize = 2;
    const S_FP1: usize = 3;
    const S_FP2: usize = 4;

    fn arb_rule_type() -> ContextRuleType {
        let k: u8 = kani::any();
        kani::assume(k < 3);
        if k == 0 {
            ContextRuleType::Default
        } else if k == 1 {
            ContextRuleType::CallContract(Address::from_id(kani::any()))
        } else {
            ContextRuleType::CreateContract(BytesN::<32>::arb())
        }
    }
    fn arb_name() -> String {
        let x: u8 = kani::any();
        String::from(Bytes::from_array(&Env, &[x]))
    }
    /// the delegated signers with these address ids
    pub fn delegated(l: &List) -> SVec<Signer> {
        let mut v = SVec::new(&Env);
        let mut k = 0;
        while k < CAP {
            if (k as u32) < l.n {
                v.push_back(Signer::Delegated(Address::from_id(l.x[k])));
            }
            k += 1;
        }
        v
    }
    /// the stored signer list as address ids (all signers of these harnesses are `Delegated`)
    fn delegated_ids_of_slot(i: usize) -> List {
        let mut l = List::empty();
        if model::slot(i).present {
            let v = model::slot_val::<SVec<Signer>>(i);
            l.n = v.len();
            let mut k = 0;
            while k < CAP {
                if let Some(Signer::Delegated(a)) = v.get(k as u32) {
                    l.x[k] = a.id;
                }
                k += 1;
            }
        }
        l
    }

    pub struct Rule {
        pub id: u32,
        pub present: bool,
        pub ty: ContextRuleType,
        /// address ids of the (delegated) signers
        pub sig: List,
        /// address ids of the policies
        pub pol: List,
    }
    /// arbitrary pairwise different ids; the length is the CONCRETE `n` (every loop of the library over the list keeps
    /// concrete bounds) or, with `n_lo < n`, symbolic in `n_lo..=n`
    pub fn distinct_ids(n_lo: u32, n: u32) -> List {
        let l = List::arb(n_lo, n);
        kani::assume(l.nodup());
        if n_lo == n {
            l.with_len(n)
        } else {
            l
        }
    }
    /// `n` pairwise different ids: the fixed numbers 1000, 1001, ... except the LAST one, which is arbitrary (any other u32).
    /// (For the lists the library SORTS -- the signers of a rule with up to 16 elements: with all elements symbolic every
    /// insertion position of the library's insertion sort is symbolic and two sorts of 15 elements exhaust 20 GB in symbolic
    /// execution; with fixed elements the sort is evaluated during symbolic execution and only the arbitrary last element and
    /// the arbitrary new element are placed symbolically. The limit logic never looks at the contents.)
    pub fn fixed_but_last(n: u32) -> List {
        let mut l = List::empty();
        l.n = n;
        let mut k = 0;
        while k < CAP {
            if (k as u32) < n {
                l.x[k] = 1000 + k as u32;
            }
            k += 1;
        }
        if n > 0 {
            let last: u32 = kani::any();
            kani::assume(last < 1000 || last >= 1000 + CAP as u32);
            l.x[n as usize - 1] = last;
        }
        l
    }
    /// slots 0..=2: Meta(id), Signers(id), Policies(id) of one rule: any id, any type, any 1-byte name, any expiry;
    /// ARBITRARY pairwise different delegated signers (any address ids) and ARBITRARY pairwise different policies;
    /// at least one of them (the registry's invariant)
    pub fn declare_rule(present: bool, sig: List, pol: List) -> Rule {
        let id: u32 = RULE_ID;
        let ty = arb_rule_type();
        kani::assume(sig.n + pol.n > 0);
        let meta = Meta { name: arb_name(), context_type: ty.clone(), valid_until: Option::<u32>::arb() };
        model::declare_val(S_META, 0, &Key::Meta(id), present, &meta, kani::any());
        model::declare_val(S_SIGNERS, 0, &Key::Signers(id), present, &delegated(&sig), kani::any());
        model::declare_val(S_POLICIES, 0, &Key::Policies(id), present, &pol.to_addr_vec(), kani::any());
        Rule { id, present, ty, sig, pol }
    }
    /// two ARBITRARY fingerprint entries, each present or absent: whichever fingerprints the call computes (of the rule
    /// before, of the rule after), each may or may not be on record (a superset of the reachable states)
    pub fn declare_any_fingerprints() {
        let h1 = BytesN::<32>::arb();
        let h2 = BytesN::<32>::arb();
        kani::assume(h1 != h2);
        model::declare_val(S_FP1, 0, &Key::Fingerprint(h1), kani::any(), &true, kani::any());
        model::declare_val(S_FP2, 0, &Key::Fingerprint(h2), kani::any(), &true, kani::any());
    }
    /// every stored entry the call reads gets its TTL extended: keep `sequence + extension` representable
    fn ttl_representable() {
        kani::assume(world().seq <= u32::MAX - SMART_ACCOUNT_EXTEND_AMOUNT);
    }
    fn pin_all_calls_return() {
        let mut i = 0;
        while i < model::NC {
            model::preset_call::<()>(i, false, &());
            i += 1;
        }
    }
    /// the call stayed inside the model; it wrote at most `extra` keys besides the declared ones (fingerprints)
    fn end(declared: usize, extra: usize) {
        end_checks(declared + extra);
    }

    // -------------------------------------------------------------------------------------------- add_policy (cap8)
    /// one stored rule with `ns` signers and MAX_POLICIES policies; any fingerprints on record; any new policy address, any
    /// install parameter, any answer of the policy contract: `add_policy` never returns normally
    #[cfg(all(feature = "cap8", not(feature = "cap21")))]
    fn add_policy_to_full_rule(ns: u32) {
        setup_world();
        let e = Env::default();
        let r = declare_rule(true, distinct_ids(ns, ns), distinct_ids(MAX_POLICIES, MAX_POLICIES));
        declare_any_fingerprints();
        let policy = Address::from_id(kani::any());
        let param = Val::arb();
        witness!(!r.pol.has(policy.id), "limit.new_policy_for_a_full_rule_is_tried");

        sa::add_policy(&e, r.id, &policy, param);

        prop!(false, "C20.ctxrules.add_policy.policies_limit_exact.not_exceeded");
    }
    /// "only if": a rule that holds MAX_POLICIES policies never gets one more (0, 1 or 2 signers)
    #[cfg(all(feature = "cap8", not(feature = "cap21")))]
    #[kani::proof]
    #[kani::unwind(98)]
    pub fn add_policy_policies_at_limit() {
        let shape: u8 = kani::any();
        if shape == 0 {
            add_policy_to_full_rule(0)
        } else if shape == 1 {
            add_policy_to_full_rule(1)
        } else {
            add_policy_to_full_rule(2)
        }
    }

    fn add_policy_trap(code: u32) {
        if code == E_TOO_MANY_POLICIES {
            prop!(false, "C20.ctxrules.add_policy.policies_limit_exact.reachable");
        } else {
            prop!(false, "C20.ctxrules.add_policy.new_policy_accepted_below_the_limit");
        }
    }
    /// "if": a new policy for a stored rule with MAX_POLICIES - 1 policies (no equal rule on record, install returns) is accepted
    #[cfg(all(feature = "cap8", not(feature = "cap21")))]
    #[kani::proof]
    #[kani::unwind(98)]
    pub fn add_policy_policies_below_limit() {
        setup_world();
        let e = Env::default();
        ttl_representable();
        let r = declare_rule(true, distinct_ids(1, 1), distinct_ids(MAX_POLICIES - 1, MAX_POLICIES - 1));
        let policy = Address::from_id(kani::any());
        let param = Val::arb();
        kani::assume(!r.pol.has(policy.id));
        pin_all_calls_return();
        witness!(r.pol.n + 1 == MAX_POLICIES, "limit.call_reaching_exactly_the_documented_maximum_is_tried");

        unsafe { model::ON_TRAP = Some(add_policy_trap) };
        sa::add_policy(&e, r.id, &policy, param);
        unsafe { model::ON_TRAP = None };

        let post = List::of_addr_slot(S_POLICIES);
        prop!(post.is_with(&r.pol, policy.id), "C20.ctxrules.add_policy.accepted_policy_is_stored");
        prop!(post.n <= MAX_POLICIES, "C20.ctxrules.add_policy.policies_limit_exact.not_exceeded_in_storage");
        witness!(post.n == MAX_POLICIES, "limit.fifth_policy_accepted");
        end(3, 1);
    }

    // -------------------------------------------------------------------------------------------- add_signer (cap21)
    /// the signer a call adds: delegated (any address id) or external (any verifier id, one arbitrary key byte)
    fn arb_new_signer() -> Signer {
        let a = Address::from_id(kani::any());
        if kani::any() {
            Signer::Delegated(a)
        } else {
            let x: u8 = kani::any();
            Signer::External(a, Bytes::from_array(&Env, &[x]))
        }
    }
    fn is_delegated_in(s: &Signer, l: &List) -> bool {
        match s {
            Signer::Delegated(a) => l.has(a.id),
            _ => false,
        }
    }
    /// one stored rule with MAX_SIGNERS signers and `np` policies; any fingerprints on record; any new signer:
    /// `add_signer` never returns normally
    #[cfg(feature = "cap21")]
    fn add_signer_to_full_rule(np: u32) {
        setup_world();
        let e = Env::default();
        let r = declare_rule(true, fixed_but_last(MAX_SIGNERS), distinct_ids(np, np));
        declare_any_fingerprints();
        let s = arb_new_signer();
        witness!(!is_delegated_in(&s, &r.sig), "limit.new_signer_for_a_full_rule_is_tried");

        sa::add_signer(&e, r.id, &s);

        prop!(false, "C20.ctxrules.add_signer.signers_limit_exact.not_exceeded");
    }
    /// "only if": a rule that holds MAX_SIGNERS signers never gets one more (0 or 1 policies)
    #[cfg(feature = "cap21")]
    #[kani::proof]
    #[kani::unwind(130)]
    pub fn add_signer_signers_at_limit() {
        if kani::any() {
            add_signer_to_full_rule(0)
        } else {
            add_signer_to_full_rule(1)
        }
    }

    fn add_signer_trap(code: u32) {
        if code == E_TOO_MANY_SIGNERS {
            prop!(false, "C20.ctxrules.add_signer.signers_limit_exact.reachable");
        } else {
            prop!(false, "C20.ctxrules.add_signer.new_signer_accepted_below_the_limit");
        }
    }
    /// "if": a new signer for a stored rule with MAX_SIGNERS - 1 signers (no equal rule on record) is accepted
    #[cfg(feature = "cap21")]
    #[kani::proof]
    #[kani::unwind(130)]
    pub fn add_signer_signers_below_limit() {
        setup_world();
        let e = Env::default();
        ttl_representable();
        let r = declare_rule(true, fixed_but_last(MAX_SIGNERS - 1), distinct_ids(1, 1));
        let s = arb_new_signer();
        kani::assume(!is_delegated_in(&s, &r.sig));
        witness!(r.sig.n + 1 == MAX_SIGNERS, "limit.call_reaching_exactly_the_documented_maximum_is_tried");

        unsafe { model::ON_TRAP = Some(add_signer_trap) };
        sa::add_signer(&e, r.id, &s);
        unsafe { model::ON_TRAP = None };

        let post = model::slot_val::<SVec<Signer>>(S_SIGNERS);
        prop!(post.len() == r.sig.n + 1 && post.get(r.sig.n) == Some(s.clone()), "C20.ctxrules.add_signer.accepted_signer_is_stored");
        prop!(post.len() <= MAX_SIGNERS, "C20.ctxrules.add_signer.signers_limit_exact.not_exceeded_in_storage");
        witness!(post.len() == MAX_SIGNERS, "limit.fifteenth_signer_accepted");
        end(3, 1);
    }
}
#[cfg(all(feature = "xdrdigest", feature = "traphook", feature = "cap21"))]
pub mod scratch {
    use soroban_sdk::model::{self, world, CAP};
    use soroban_sdk::{Address, Arb, Bytes, BytesN, Env, Flat, Map, String, Val, Vec as SVec};
    use stellar_accounts::smart_account::{self as sa, MAX_POLICIES, Signer};
    use crate::util::*;
    use super::ctxrules::*;
    fn run(n: u32) {
        setup_world();
        let e = Env::default();
        kani::assume(world().seq <= u32::MAX - 40 * 17280);
        let r = declare_rule(true, fixed_but_last(n), distinct_ids(1, 1));
        let s = Signer::Delegated(Address::from_id(kani::any()));
        sa::add_signer(&e, r.id, &s);
        witness!(true, "x");
    }
    #[kani::proof]
    #[kani::unwind(130)]
    pub fn p_s2() { run(2) }
    #[kani::proof]
    #[kani::unwind(130)]
    pub fn p_s4() { run(4) }
    #[kani::proof]
    #[kani::unwind(130)]
    pub fn p_s8() { run(8) }
}
#[cfg(all(feature = "xdrdigest", feature = "traphook", feature = "cap21"))]
pub mod scratch2 {
    use soroban_sdk::model::{self, world, CAP};
    use soroban_sdk::{flat_lt, Address, Arb, Bytes, BytesN, Env, Flat, Map, String, Val, Vec as SVec};
    use stellar_accounts::smart_account::{self as sa, MAX_POLICIES, Signer};
    use crate::util::*;
    use crate::registries::List;
    use super::ctxrules::*;
    fn heavy() {
        let l = List::arb(0, 20);
        kani::assume(l.nodup());
        witness!(l.n == 3, "y");
    }
    fn fixed(n: u32) -> List {
        let mut l = List::empty();
        l.n = n;
        let mut k = 0;
        while k < CAP { if (k as u32) < n { l.x[k] = 1000 + k as u32; } k += 1; }
        l
    }
    #[kani::proof]
    #[kani::unwind(130)]
    pub fn q_lt() {
        let v = delegated(&fixed(3));
        if !flat_lt(&v.get(0).unwrap(), &v.get(1).unwrap()) { heavy(); }
        witness!(true, "x");
    }
    #[kani::proof]
    #[kani::unwind(130)]
    pub fn q_lt0() {
        let v = delegated(&fixed(3));
        if !flat_lt(&v.get(0).unwrap(), &v.get(1).unwrap()) { kani::assume(false); }
        witness!(true, "x");
    }
    #[kani::proof]
    #[kani::unwind(130)]
    pub fn q_lt1() {
        let v = delegated(&fixed(3));
        if !flat_lt(&v.get(0).unwrap(), &v.get(1).unwrap()) { kani::assume(false); }
        heavy();
        witness!(true, "x");
    }
    #[kani::proof]
    #[kani::unwind(130)]
    pub fn q_st0() {
        setup_world();
        let e = Env::default();
        let r = declare_rule(true, fixed(3), distinct_ids(1, 1));
        let rule = sa::get_context_rule(&e, r.id);
        if !flat_lt(&rule.signers.get(0).unwrap(), &rule.signers.get(1).unwrap()) { kani::assume(false); }
        witness!(true, "x");
    }
    #[kani::proof]
    #[kani::unwind(130)]
    pub fn q_st1() {
        setup_world();
        let e = Env::default();
        let r = declare_rule(true, fixed_but_last(3), distinct_ids(1, 1));
        let rule = sa::get_context_rule(&e, r.id);
        if !flat_lt(&rule.signers.get(0).unwrap(), &rule.signers.get(1).unwrap()) { heavy(); }
        witness!(true, "x");
    }
    #[kani::proof]
    #[kani::unwind(130)]
    pub fn q_st2() {
        setup_world();
        let e = Env::default();
        let r = declare_rule(true, fixed(3), distinct_ids(1, 1));
        let v = model::slot_val::<SVec<Signer>>(1);
        if !flat_lt(&v.get(0).unwrap(), &v.get(1).unwrap()) { heavy(); }
        witness!(true, "x");
    }
    fn sort_of(signers: &SVec<Signer>) -> SVec<Signer> {
        let e = Env::default();
        let mut sorted = SVec::new(&e);
        for p in signers.iter() {
            match sorted.binary_search(&p) {
                Ok(_) => kani::assume(false),
                Err(pos) => sorted.insert(pos, p),
            }
        }
        sorted
    }
    #[kani::proof]
    #[kani::unwind(130)]
    pub fn q_so1() {
        let v = delegated(&fixed(4));
        let s = sort_of(&v);
        witness!(s.len() == 4, "x");
    }
    #[kani::proof]
    #[kani::unwind(130)]
    pub fn q_so2() {
        setup_world();
        let e = Env::default();
        let r = declare_rule(true, fixed(4), distinct_ids(1, 1));
        let rule = sa::get_context_rule(&e, r.id);
        let s = sort_of(&rule.signers);
        witness!(s.len() == 4, "x");
    }
    #[kani::proof]
    #[kani::unwind(130)]
    pub fn q_so3() {
        setup_world();
        let e = Env::default();
        let r = declare_rule(true, fixed(4), distinct_ids(1, 1));
        let rule = sa::get_context_rule(&e, r.id);
        let mut signers = rule.signers.clone();
        let n = Signer::Delegated(Address::from_id(kani::any()));
        if signers.contains(&n) { kani::assume(false); }
        signers.push_back(n.clone());
        let s = sort_of(&signers);
        witness!(s.len() == 5, "x");
    }
    fn sg(x: u32) -> Signer { Signer::Delegated(Address::from_id(x)) }
    #[kani::proof]
    #[kani::unwind(130)]
    pub fn q_a1() {
        let mut v: SVec<Signer> = SVec::new(&Env);
        v.insert(0, sg(1000));
        v.insert(1, sg(1001));
        if v.binary_search(&sg(1002)) != Err(2) { heavy(); }
        witness!(true, "x");
    }
    #[kani::proof]
    #[kani::unwind(130)]
    pub fn q_a2() {
        let mut v: SVec<Signer> = SVec::new(&Env);
        let r1 = v.binary_search(&sg(1000));
        if let Err(p) = r1 { v.insert(p, sg(1000)); }
        let r2 = v.binary_search(&sg(1001));
        if let Err(p) = r2 { v.insert(p, sg(1001)); }
        if v.binary_search(&sg(1002)) != Err(2) { heavy(); }
        witness!(true, "x");
    }
    #[kani::proof]
    #[kani::unwind(130)]
    pub fn q_a3() {
        let src = delegated(&fixed(2));
        let mut v: SVec<Signer> = SVec::new(&Env);
        for p in src.iter() {
            match v.binary_search(&p) {
                Ok(_) => kani::assume(false),
                Err(pos) => v.insert(pos, p),
            }
        }
        if v.binary_search(&sg(1002)) != Err(2) { heavy(); }
        witness!(true, "x");
    }
    #[kani::proof]
    #[kani::unwind(130)]
    pub fn q_b1() {
        let src = delegated(&fixed(2));
        let mut it = src.iter();
        let _a = it.next();
        let _b = it.next();
        let c = it.next();
        if c.is_some() { heavy(); }
        witness!(true, "x");
    }
    #[kani::proof]
    #[kani::unwind(130)]
    pub fn q_b2() {
        let src = delegated(&fixed(2));
        let mut it = src.iter();
        let a = it.next();
        if a.is_none() { heavy(); }
        witness!(true, "x");
    }
    #[kani::proof]
    #[kani::unwind(130)]
    pub fn q_b3() {
        let src = delegated(&fixed(2));
        let a = src.get(0);
        let c = src.get(2);
        if a.is_none() || c.is_some() { heavy(); }
        witness!(true, "x");
    }
    #[kani::proof]
    #[kani::unwind(130)]
    pub fn q_bs() {
        let v = delegated(&fixed(3));
        let s = Signer::Delegated(Address::from_id(1001));
        if v.binary_search(&s) != Ok(1) { heavy(); }
        witness!(true, "x");
    }
    #[kani::proof]
    #[kani::unwind(130)]
    pub fn q_ins() {
        let mut v = delegated(&fixed(3));
        let s = Signer::Delegated(Address::from_id(5));
        v.insert(0, s);
        if !flat_lt(&v.get(0).unwrap(), &v.get(1).unwrap()) { heavy(); }
        witness!(true, "x");
    }
}
