//! C16: pause / allow-list / block-list / supply-cap / migration gates cannot be bypassed.
//! Two levels: the library functions (`pausable::*`, `AllowList::*`, `BlockList::*`, `capped::*`,
//! `upgradeable::*`) and every exported entry point of the EXAMPLE contracts (mounted with `#[path]`
//! from /repo/examples, compiled with the real `stellar_macros` attribute/derive macros), because a
//! deployed contract that dispatches to `Base::…` instead of the gate-aware function is a forgotten gate.
//! The list/pausable/capped token harnesses also carry the base-token clauses (C01./C02. names).
use soroban_sdk::model::{self, world};
use soroban_sdk::{contracttype, Address, BytesN, Env, Flat, MuxedAddress, Symbol};
use stellar_tokens::fungible::burnable::{Burn, FungibleBurnable};
use stellar_tokens::fungible::{
    AllowanceData, AllowanceKey, Approve, Base, FungibleStorageKey, FungibleToken, Mint, Transfer,
};

use crate::fungible::{
    allowance_worth, allowance_worth_now, bal_now, bal_pre, declare_allowance, declare_balances,
    supply_now, AllowPre, Pre, NA, S_ALLOW, S_SUPPLY,
};
use crate::handshake::redraw_auth;
use crate::util::*;

// ------------------------------------------------------------------ the example contracts
#[path = "/repo/examples/fungible-pausable/src/contract.rs"]
pub mod pausable_example;
#[path = "/repo/examples/fungible-allowlist/src/contract.rs"]
pub mod allowlist_example;
#[path = "/repo/examples/fungible-blocklist/src/contract.rs"]
pub mod blocklist_example;
#[path = "/repo/examples/fungible-capped/src/contract.rs"]
pub mod capped_example;
#[path = "/repo/examples/upgradeable/v1/src/contract.rs"]
pub mod upgradeable_v1_example;
#[path = "/repo/examples/upgradeable/v2/src/contract.rs"]
pub mod upgradeable_v2_example;
#[path = "/repo/examples/upgradeable/upgrader/src/contract.rs"]
pub mod upgrader_example;

// ------------------------------------------------------------------ slot layout of the token harnesses
// 0..NA balances, NA supply, NA+1 allowance (or a plug), then the gate state
pub const S_GATE: usize = S_ALLOW + 1;

/// Occupies the allowance slot with a key no call can touch, so that a write to ANY undeclared key
/// lands behind the declared universe and is caught by `end_checks`.
fn plug() {
    let k = FungibleStorageKey::Allowance(AllowanceKey { owner: Address::from_id(4), spender: Address::from_id(4) });
    model::declare_val(S_ALLOW, 1, &k, false, &AllowanceData { amount: 0, live_until_ledger: 0 }, 0);
}
fn plug_ok() -> bool {
    !model::slot(S_ALLOW).present
}

// ------------------------------------------------------------------ base-token post-conditions, per flavour
macro_rules! post_transfer {
    ($fl:literal, $f:literal, $pre:expr, $from:expr, $to:expr, $by:expr, $mux:expr, $amount:expr) => {{
        prop!($amount >= 0, concat!("C01.", $fl, ".", $f, ".amount_nonneg"));
        prop!(bal_pre(&$pre, &$from) >= $amount, concat!("C01.", $fl, ".", $f, ".sufficient_balance"));
        if $from != $to {
            prop!(bal_now(&$from) == bal_pre(&$pre, &$from) - $amount, concat!("C01.", $fl, ".", $f, ".from_debited_exactly"));
            prop!(bal_now(&$to) == bal_pre(&$pre, &$to) + $amount, concat!("C01.", $fl, ".", $f, ".to_credited_exactly"));
        } else {
            prop!(bal_now(&$from) == bal_pre(&$pre, &$from), concat!("C01.", $fl, ".", $f, ".self_transfer_neutral"));
        }
        prop!(bal_now(&$by) == bal_pre(&$pre, &$by), concat!("C01.", $fl, ".", $f, ".bystander_unchanged"));
        prop!(supply_now() == $pre.supply, concat!("C01.", $fl, ".", $f, ".supply_unchanged"));
        let ev = Transfer { from: $from.clone(), to: $to.clone(), to_muxed_id: $mux, amount: $amount };
        prop!(model::n_events() == 1 && model::event_is(0, Transfer::EVENT_ID, &ev.event_words()), concat!("C01.", $fl, ".", $f, ".one_exact_event"));
    }};
}
macro_rules! post_spend {
    ($fl:literal, $f:literal, $al:expr, $spender:expr, $amount:expr, $pre_slot:expr) => {{
        prop!(authorized(&$spender), concat!("C02.", $fl, ".", $f, ".spender_authorized"));
        prop!($amount >= 0, concat!("C02.", $fl, ".", $f, ".amount_nonneg"));
        prop!(allowance_worth(&$al) >= $amount, concat!("C02.", $fl, ".", $f, ".allowance_live_and_sufficient"));
        prop!(allowance_worth_now() == allowance_worth(&$al) - $amount, concat!("C02.", $fl, ".", $f, ".allowance_drops_by_exactly_amount"));
        if $amount > 0 {
            let d: AllowanceData = model::slot_val(S_ALLOW);
            prop!(d.live_until_ledger == $al.data_live_until, concat!("C02.", $fl, ".", $f, ".expiry_kept"));
        } else {
            prop!(model::slots_equal(&model::slot(S_ALLOW), &$pre_slot), concat!("C02.", $fl, ".", $f, ".zero_amount_leaves_allowance_entry"));
        }
    }};
}
macro_rules! post_burn {
    ($fl:literal, $f:literal, $pre:expr, $from:expr, $by:expr, $amount:expr) => {{
        prop!($amount >= 0, concat!("C01.", $fl, ".", $f, ".amount_nonneg"));
        prop!(bal_pre(&$pre, &$from) >= $amount, concat!("C01.", $fl, ".", $f, ".sufficient_balance"));
        prop!(bal_now(&$from) == bal_pre(&$pre, &$from) - $amount, concat!("C01.", $fl, ".", $f, ".from_debited_exactly"));
        prop!(supply_now() == $pre.supply - $amount && supply_now() >= 0, concat!("C01.", $fl, ".", $f, ".supply_minus_amount"));
        prop!(bal_now(&$by) == bal_pre(&$pre, &$by), concat!("C01.", $fl, ".", $f, ".bystander_unchanged"));
        let ev = Burn { from: $from.clone(), amount: $amount };
        prop!(model::n_events() == 1 && model::event_is(0, Burn::EVENT_ID, &ev.event_words()), concat!("C01.", $fl, ".", $f, ".one_exact_event"));
    }};
}
macro_rules! post_mint {
    ($fl:literal, $pre:expr, $to:expr, $by:expr, $amount:expr) => {{
        prop!($amount >= 0, concat!("C01.", $fl, ".mint.amount_nonneg"));
        prop!($pre.supply.checked_add($amount).is_some() && supply_now() == $pre.supply + $amount, concat!("C01.", $fl, ".mint.supply_plus_amount"));
        prop!(bal_now(&$to) == bal_pre(&$pre, &$to) + $amount, concat!("C01.", $fl, ".mint.to_credited_exactly"));
        prop!(bal_now(&$by) == bal_pre(&$pre, &$by), concat!("C01.", $fl, ".mint.bystander_unchanged"));
        let ev = Mint { to: $to.clone(), amount: $amount };
        prop!(model::n_events() == 1 && model::event_is(0, Mint::EVENT_ID, &ev.event_words()), concat!("C01.", $fl, ".mint.one_exact_event"));
    }};
}
// ================================================================== 1. Pausable (library level)
/// mirror of the (private) `stellar_contract_utils::pausable::storage::PausableStorageKey`; if the library
/// renames it, its write lands outside the declared universe and the harness is reported inconclusive
#[contracttype]
pub enum PausableStorageKey {
    Paused,
}
/// instance flag `Paused` in slot `i`: absent / false / true. Returns `paused()` of the pre-state.
pub fn declare_paused(i: usize) -> bool {
    let present: bool = kani::any();
    let v: bool = kani::any();
    model::declare_val(i, 2, &PausableStorageKey::Paused, present, &v, 0);
    present && v
}
pub fn paused_now(i: usize) -> bool {
    model::slot(i).present && model::slot_val::<bool>(i)
}

pub mod pausable {
    use stellar_contract_utils::pausable::{self as lib, Paused, Unpaused};

    use super::*;

    /// pause from an arbitrary state; a second pause is impossible, an unpause is possible
    #[kani::proof]
    #[kani::unwind(18)]
    pub fn pause_step() {
        setup_world();
        let e = Env::default();
        let pre = declare_paused(0);

        lib::pause(&e);

        prop!(!pre, "C16.pausable.pause.only_when_not_paused");
        prop!(paused_now(0) && lib::paused(&e), "C16.pausable.pause.sets_flag");
        prop!(model::n_events() == 1 && model::event_is(0, Paused::EVENT_ID, &(Paused {}).event_words()), "C16.pausable.pause.one_exact_event");
        witness!(true, "pause_returns");
        end_checks(1);
        lib::pause(&e);
        prop!(false, "C16.pausable.pause.no_second_pause_without_unpause");
    }
    #[kani::proof]
    #[kani::unwind(18)]
    pub fn unpause_step() {
        setup_world();
        let e = Env::default();
        let pre = declare_paused(0);

        lib::unpause(&e);

        prop!(pre, "C16.pausable.unpause.only_when_paused");
        prop!(!paused_now(0) && !lib::paused(&e), "C16.pausable.unpause.clears_flag");
        prop!(model::n_events() == 1 && model::event_is(0, Unpaused::EVENT_ID, &(Unpaused {}).event_words()), "C16.pausable.unpause.one_exact_event");
        witness!(true, "unpause_returns");
        end_checks(1);
        lib::unpause(&e);
        prop!(false, "C16.pausable.unpause.no_second_unpause_without_pause");
    }
    /// strict alternation over a history: pause -> unpause -> pause all succeed from an unpaused state
    /// (must-succeed), and the flag follows
    #[kani::proof]
    #[kani::unwind(18)]
    pub fn alternation_accepted() {
        setup_world();
        let e = Env::default();
        let pre = declare_paused(0);
        kani::assume(!pre);
        world().must_succeed = true;
        lib::pause(&e);
        prop!(lib::paused(&e), "C16.pausable.alternation.paused_after_pause");
        lib::when_paused(&e);
        lib::unpause(&e);
        prop!(!lib::paused(&e), "C16.pausable.alternation.unpaused_after_unpause");
        lib::when_not_paused(&e);
        lib::pause(&e);
        prop!(lib::paused(&e), "C16.pausable.alternation.paused_again");
        prop!(model::n_events() == 3, "C16.pausable.alternation.three_events");
        witness!(true, "alternation_runs");
        end_checks(1);
    }
    /// the two guards: return iff the flag has the required value, and change nothing
    #[kani::proof]
    #[kani::unwind(18)]
    pub fn guards() {
        setup_world();
        let e = Env::default();
        let pre = declare_paused(0);
        let s0 = model::slot(0);
        let which: bool = kani::any();
        if which {
            lib::when_not_paused(&e);
            prop!(!pre, "C16.pausable.when_not_paused.traps_while_paused");
        } else {
            lib::when_paused(&e);
            prop!(pre, "C16.pausable.when_paused.traps_while_not_paused");
        }
        prop!(model::slots_equal(&model::slot(0), &s0) && model::n_events() == 0, "C16.pausable.guards.no_effect");
        prop!(lib::paused(&e) == pre, "C16.pausable.paused.reads_flag");
        witness!(which, "when_not_paused_returns");
        witness!(!which, "when_paused_returns");
        end_checks(1);
    }
    // the real attribute macros of stellar_macros on local functions (both `&Env` and `Env` forms)
    #[stellar_macros::when_not_paused]
    fn gated_not_paused(e: &Env) -> u32 {
        7
    }
    #[stellar_macros::when_paused]
    fn gated_paused(e: Env, x: u32) -> u32 {
        x
    }
    #[kani::proof]
    #[kani::unwind(18)]
    pub fn attribute_macros() {
        setup_world();
        let e = Env::default();
        let pre = declare_paused(0);
        let s0 = model::slot(0);
        let which: bool = kani::any();
        if which {
            let r = gated_not_paused(&e);
            prop!(!pre, "C16.pausable.attr_when_not_paused.body_unreachable_while_paused");
            prop!(r == 7, "C16.pausable.attr_when_not_paused.body_runs_unchanged");
        } else {
            let x: u32 = kani::any();
            let r = gated_paused(e.clone(), x);
            prop!(pre, "C16.pausable.attr_when_paused.body_unreachable_while_not_paused");
            prop!(r == x, "C16.pausable.attr_when_paused.body_runs_unchanged");
        }
        prop!(model::slots_equal(&model::slot(0), &s0) && model::n_events() == 0, "C16.pausable.attr.no_effect");
        witness!(which, "attr_when_not_paused_returns");
        witness!(!which, "attr_when_paused_returns");
        end_checks(1);
    }
    // ---- macro COMPOSITION and parameter shapes: the access macros must keep the attributes stacked below them,
    // and `#[only_role]` must demand authorization for a borrowed `&Address` parameter too (no shipped example stacks
    // the two macro families or borrows the role parameter, so only harness-local functions can see such a regression)
    #[stellar_macros::only_owner]
    #[stellar_macros::when_not_paused]
    fn owner_then_pause(e: &Env) -> u32 {
        1
    }
    #[stellar_macros::when_not_paused]
    #[stellar_macros::only_owner]
    fn pause_then_owner(e: &Env) -> u32 {
        2
    }
    #[stellar_macros::only_admin]
    #[stellar_macros::when_not_paused]
    fn admin_then_pause(e: &Env) -> u32 {
        3
    }
    #[stellar_macros::only_role(caller, "minter")]
    #[stellar_macros::when_not_paused]
    fn role_then_pause(e: &Env, caller: Address) -> u32 {
        4
    }
    #[stellar_macros::only_role(caller, "minter")]
    fn role_borrowed(e: &Env, caller: &Address) -> u32 {
        5
    }
    #[kani::proof]
    #[kani::unwind(18)]
    pub fn stacked_attribute_macros() {
        use stellar_access::access_control::AccessControlStorageKey;
        use stellar_access::ownable::OwnableStorageKey;
        setup_world();
        let e = Env::default();
        let paused = declare_paused(0);
        let owner = addr_below(3);
        let owner_set: bool = kani::any();
        model::declare_val(1, 2, &OwnableStorageKey::Owner, owner_set, &owner, 0);
        let admin = addr_below(3);
        let admin_set: bool = kani::any();
        model::declare_val(2, 2, &AccessControlStorageKey::Admin, admin_set, &admin, 0);
        let caller = addr_below(3);
        let has_role: bool = kani::any();
        model::declare_val(3, 0, &AccessControlStorageKey::HasRole(caller.clone(), soroban_sdk::Symbol::new(&e, "minter")), has_role, &0u32, kani::any());
        let which: u8 = kani::any();
        kani::assume(which < 5);
        if which == 0 {
            let r = owner_then_pause(&e);
            witness!(r == 1, "owner_then_pause_returns");
            prop!(!paused, "C16.pausable.attr_stack.only_owner_keeps_when_not_paused_below_it");
            prop!(owner_set && authorized(&owner), "C06.attr_stack.only_owner_above_when_not_paused_still_demands_owner");
        } else if which == 1 {
            let r = pause_then_owner(&e);
            witness!(r == 2, "pause_then_owner_returns");
            prop!(!paused, "C16.pausable.attr_stack.when_not_paused_above_only_owner_effective");
            prop!(owner_set && authorized(&owner), "C06.attr_stack.only_owner_below_when_not_paused_still_demands_owner");
        } else if which == 2 {
            let r = admin_then_pause(&e);
            witness!(r == 3, "admin_then_pause_returns");
            prop!(!paused, "C16.pausable.attr_stack.only_admin_keeps_when_not_paused_below_it");
            prop!(admin_set && authorized(&admin), "C06.attr_stack.only_admin_above_when_not_paused_still_demands_admin");
        } else if which == 3 {
            let r = role_then_pause(&e, caller.clone());
            witness!(r == 4, "role_then_pause_returns");
            prop!(!paused, "C16.pausable.attr_stack.only_role_keeps_when_not_paused_below_it");
            prop!(has_role && authorized(&caller), "C06.attr_stack.only_role_above_when_not_paused_still_demands_role_and_auth");
        } else {
            let r = role_borrowed(&e, &caller);
            witness!(r == 5, "role_borrowed_returns");
            prop!(has_role && authorized(&caller), "C06.attr_shape.only_role_on_borrowed_address_demands_role_and_auth");
        }
        end_checks(4);
    }
    /// converse: the guards accept when the flag has the required value
    #[kani::proof]
    #[kani::unwind(18)]
    pub fn guards_accept() {
        setup_world();
        let e = Env::default();
        let pre = declare_paused(0);
        world().must_succeed = true;
        if pre {
            lib::when_paused(&e);
        } else {
            lib::when_not_paused(&e);
        }
        witness!(pre, "paused_accepted");
        witness!(!pre, "not_paused_accepted");
        end_checks(1);
    }
}

// ================================================================== 2. examples/fungible-pausable
/// One harness per exported entry point carrying `#[when_not_paused]` (the registry fragment extracts the
/// list from the example source on every run): with `Paused = true` it never returns; with `Paused`
/// false/absent the base-token clauses hold (so after an unpause everything works as before).
pub mod pausable_ex {
    use stellar_contract_utils::pausable::{Pausable, Paused, Unpaused};

    use super::pausable_example::{ExampleContract as Ex, OWNER};
    use super::*;

    const S_PAUSED: usize = S_GATE;
    const S_OWNER: usize = S_GATE + 1;
    const DECL: usize = S_GATE + 2;

    fn declare_owner() -> Option<Address> {
        let present: bool = kani::any();
        let owner = addr_below(4);
        model::declare_val(S_OWNER, 2, &OWNER, present, &owner, 0);
        if present {
            Some(owner)
        } else {
            None
        }
    }
    fn gate_unchanged(paused_slot: &model::Slot, owner_slot: &model::Slot) -> bool {
        model::slots_equal(&model::slot(S_PAUSED), paused_slot) && model::slots_equal(&model::slot(S_OWNER), owner_slot)
    }

    #[kani::proof]
    #[kani::unwind(18)]
    pub fn paused_transfer() {
        setup_world();
        let e = Env::default();
        let pre = declare_balances();
        plug();
        let paused = declare_paused(S_PAUSED);
        let _o = declare_owner();
        let (ps, os) = (model::slot(S_PAUSED), model::slot(S_OWNER));
        let from = addr_below(3);
        let to = addr_below(3);
        let by = addr_below(3);
        kani::assume(by != from && by != to);
        let mux: Option<u64> = kani::any();
        let amount: i128 = kani::any();

        <Ex as FungibleToken>::transfer(&e, from.clone(), MuxedAddress { addr: to.clone(), mux }, amount);

        prop!(!paused, "C16.pausable_example.transfer.refused_while_paused");
        prop!(gate_unchanged(&ps, &os) && plug_ok(), "C16.pausable_example.transfer.gate_state_untouched");
        prop!(authorized(&from), "C02.pausable_example.transfer.from_authorized");
        post_transfer!("pausable_example", "transfer", pre, from, to, by, mux, amount);
        witness!(amount > 0 && from != to, "transfer.moves_when_not_paused");
        end_checks(DECL);
    }
    #[kani::proof]
    #[kani::unwind(18)]
    pub fn paused_transfer_from() {
        setup_world();
        let e = Env::default();
        let pre = declare_balances();
        let paused = declare_paused(S_PAUSED);
        let _o = declare_owner();
        let (ps, os) = (model::slot(S_PAUSED), model::slot(S_OWNER));
        let spender = addr_below(3);
        let from = addr_below(3);
        let to = addr_below(3);
        let by = addr_below(3);
        kani::assume(by != from && by != to);
        let al = declare_allowance(&from, &spender);
        let pre_al_slot = model::slot(S_ALLOW);
        let amount: i128 = kani::any();

        <Ex as FungibleToken>::transfer_from(&e, spender.clone(), from.clone(), to.clone(), amount);

        prop!(!paused, "C16.pausable_example.transfer_from.refused_while_paused");
        prop!(gate_unchanged(&ps, &os), "C16.pausable_example.transfer_from.gate_state_untouched");
        post_spend!("pausable_example", "transfer_from", al, spender, amount, pre_al_slot);
        post_transfer!("pausable_example", "transfer_from", pre, from, to, by, None, amount);
        witness!(amount > 0 && from != to && spender != from, "transfer_from.moves_when_not_paused");
        end_checks(DECL);
    }
    #[kani::proof]
    #[kani::unwind(18)]
    pub fn paused_burn() {
        setup_world();
        let e = Env::default();
        let pre = declare_balances();
        plug();
        let paused = declare_paused(S_PAUSED);
        let _o = declare_owner();
        let (ps, os) = (model::slot(S_PAUSED), model::slot(S_OWNER));
        let from = addr_below(3);
        let by = addr_below(3);
        kani::assume(by != from);
        let amount: i128 = kani::any();

        <Ex as FungibleBurnable>::burn(&e, from.clone(), amount);

        prop!(!paused, "C16.pausable_example.burn.refused_while_paused");
        prop!(gate_unchanged(&ps, &os) && plug_ok(), "C16.pausable_example.burn.gate_state_untouched");
        prop!(authorized(&from), "C02.pausable_example.burn.from_authorized");
        post_burn!("pausable_example", "burn", pre, from, by, amount);
        witness!(amount > 0, "burn.burns_when_not_paused");
        end_checks(DECL);
    }
    #[kani::proof]
    #[kani::unwind(18)]
    pub fn paused_burn_from() {
        setup_world();
        let e = Env::default();
        let pre = declare_balances();
        let paused = declare_paused(S_PAUSED);
        let _o = declare_owner();
        let (ps, os) = (model::slot(S_PAUSED), model::slot(S_OWNER));
        let spender = addr_below(3);
        let from = addr_below(3);
        let by = addr_below(3);
        kani::assume(by != from);
        let al = declare_allowance(&from, &spender);
        let pre_al_slot = model::slot(S_ALLOW);
        let amount: i128 = kani::any();

        <Ex as FungibleBurnable>::burn_from(&e, spender.clone(), from.clone(), amount);

        prop!(!paused, "C16.pausable_example.burn_from.refused_while_paused");
        prop!(gate_unchanged(&ps, &os), "C16.pausable_example.burn_from.gate_state_untouched");
        post_spend!("pausable_example", "burn_from", al, spender, amount, pre_al_slot);
        post_burn!("pausable_example", "burn_from", pre, from, by, amount);
        witness!(amount > 0 && spender != from, "burn_from.burns_when_not_paused");
        end_checks(DECL);
    }
    #[kani::proof]
    #[kani::unwind(18)]
    pub fn paused_mint() {
        setup_world();
        let e = Env::default();
        let pre = declare_balances();
        plug();
        let paused = declare_paused(S_PAUSED);
        let owner = declare_owner();
        let (ps, os) = (model::slot(S_PAUSED), model::slot(S_OWNER));
        let to = addr_below(3);
        let by = addr_below(3);
        kani::assume(by != to);
        let amount: i128 = kani::any();

        Ex::mint(&e, to.clone(), amount);

        prop!(!paused, "C16.pausable_example.mint.refused_while_paused");
        prop!(gate_unchanged(&ps, &os) && plug_ok(), "C16.pausable_example.mint.gate_state_untouched");
        prop!(owner.is_some() && authorized(owner.as_ref().unwrap()), "C16.pausable_example.mint.owner_authorized");
        post_mint!("pausable_example", pre, to, by, amount);
        witness!(amount > 0, "mint.mints_when_not_paused");
        end_checks(DECL);
    }

    /// the example's own pause / unpause entry points: owner-only, strict alternation
    #[kani::proof]
    #[kani::unwind(18)]
    pub fn pause_entry() {
        setup_world();
        let e = Env::default();
        let paused = declare_paused(0);
        let present: bool = kani::any();
        let owner = addr_below(4);
        model::declare_val(1, 2, &OWNER, present, &owner, 0);
        let os = model::slot(1);
        let caller = addr_below(4);

        <Ex as Pausable>::pause(&e, caller.clone());

        prop!(!paused, "C16.pausable_example.pause.only_when_not_paused");
        prop!(present && caller == owner && authorized(&caller), "C16.pausable_example.pause.owner_only");
        prop!(paused_now(0) && <Ex as Pausable>::paused(&e), "C16.pausable_example.pause.sets_flag");
        prop!(model::slots_equal(&model::slot(1), &os), "C16.pausable_example.pause.owner_untouched");
        prop!(model::n_events() == 1 && model::event_is(0, Paused::EVENT_ID, &(Paused {}).event_words()), "C16.pausable_example.pause.one_exact_event");
        witness!(true, "pause_entry_returns");
        end_checks(2);
        redraw_auth();
        <Ex as Pausable>::pause(&e, caller.clone());
        prop!(false, "C16.pausable_example.pause.no_second_pause_without_unpause");
    }
    #[kani::proof]
    #[kani::unwind(18)]
    pub fn unpause_entry() {
        setup_world();
        let e = Env::default();
        let paused = declare_paused(0);
        let present: bool = kani::any();
        let owner = addr_below(4);
        model::declare_val(1, 2, &OWNER, present, &owner, 0);
        let os = model::slot(1);
        let caller = addr_below(4);

        <Ex as Pausable>::unpause(&e, caller.clone());

        prop!(paused, "C16.pausable_example.unpause.only_when_paused");
        prop!(present && caller == owner && authorized(&caller), "C16.pausable_example.unpause.owner_only");
        prop!(!paused_now(0) && !<Ex as Pausable>::paused(&e), "C16.pausable_example.unpause.clears_flag");
        prop!(model::slots_equal(&model::slot(1), &os), "C16.pausable_example.unpause.owner_untouched");
        prop!(model::n_events() == 1 && model::event_is(0, Unpaused::EVENT_ID, &(Unpaused {}).event_words()), "C16.pausable_example.unpause.one_exact_event");
        witness!(true, "unpause_entry_returns");
        end_checks(2);
        redraw_auth();
        <Ex as Pausable>::unpause(&e, caller.clone());
        prop!(false, "C16.pausable_example.unpause.no_second_unpause_without_pause");
    }
    /// history: paused contract -> owner unpauses -> a well-formed transfer is ACCEPTED again (must-succeed)
    /// and a following pause by the owner refuses the next transfer.
    #[kani::proof]
    #[kani::unwind(18)]
    pub fn unpause_then_transfer_accepted() {
        setup_world();
        let e = Env::default();
        let pre = declare_balances();
        plug();
        let paused = declare_paused(S_PAUSED);
        kani::assume(paused);
        let owner = addr_below(4);
        model::declare_val(S_OWNER, 2, &OWNER, true, &owner, 0);
        kani::assume(authorized(&owner));
        world().must_succeed = true;

        <Ex as Pausable>::unpause(&e, owner.clone());

        redraw_auth();
        world().n_events = 0;
        let from = addr_below(3);
        let to = addr_below(3);
        let amount: i128 = kani::any();
        kani::assume(authorized(&from) && amount >= 0 && bal_pre(&pre, &from) >= amount);
        // balance entries that exist can have their TTL extended: ledger + extension must not overflow u32
        kani::assume(world().seq <= u32::MAX / 2 && world().max_ttl <= u32::MAX / 2);
        <Ex as FungibleToken>::transfer(&e, from.clone(), MuxedAddress { addr: to.clone(), mux: None }, amount);
        prop!(from == to || bal_now(&to) == bal_pre(&pre, &to) + amount, "C16.pausable_example.unpause_then_transfer.works_again");
        witness!(amount > 0 && from != to, "transfer_after_unpause");
        end_checks(DECL);

        redraw_auth();
        kani::assume(authorized(&owner));
        <Ex as Pausable>::pause(&e, owner.clone());
        world().must_succeed = false;
        redraw_auth();
        <Ex as FungibleToken>::transfer(&e, from.clone(), MuxedAddress { addr: to.clone(), mux: None }, amount);
        prop!(false, "C16.pausable_example.pause_then_transfer.refused_again");
    }
}

// ================================================================== 3. allow-list / block-list
pub trait ListKind {
    type Key: Flat;
    /// true: presence of the entry is REQUIRED (allow-list); false: presence is FORBIDDEN (block-list)
    const ALLOW: bool;
    fn key(a: Address) -> Self::Key;
}
pub struct AllowKind;
impl ListKind for AllowKind {
    type Key = stellar_tokens::fungible::allowlist::storage::AllowListStorageKey;
    const ALLOW: bool = true;
    fn key(a: Address) -> Self::Key {
        stellar_tokens::fungible::allowlist::storage::AllowListStorageKey::Allowed(a)
    }
}
pub struct BlockKind;
impl ListKind for BlockKind {
    type Key = stellar_tokens::fungible::blocklist::storage::BlockListStorageKey;
    const ALLOW: bool = false;
    fn key(a: Address) -> Self::Key {
        stellar_tokens::fungible::blocklist::storage::BlockListStorageKey::Blocked(a)
    }
}
pub struct ListPre {
    pub listed: [bool; NA],
}
/// slots base..base+NA: persistent presence flag of account i (Allowed(i) / Blocked(i)), any TTL
pub fn declare_list<L: ListKind>(base: usize) -> ListPre {
    let seq = world().seq;
    let mut listed = [false; NA];
    let mut i = 0;
    while i < NA {
        let present: bool = kani::any();
        let lu: u32 = kani::any();
        kani::assume(lu >= seq);
        model::declare_val(base + i, 0, &L::key(Address::from_id(i as u32)), present, &(), lu);
        listed[i] = present;
        i += 1;
    }
    ListPre { listed }
}
pub fn listed_pre(l: &ListPre, a: &Address) -> bool {
    let mut r = false;
    let mut i = 0;
    while i < NA {
        if a.id == i as u32 {
            r = l.listed[i];
        }
        i += 1;
    }
    r
}
pub fn listed_now(base: usize, a: &Address) -> bool {
    let mut r = false;
    let mut i = 0;
    while i < NA {
        if a.id == i as u32 {
            r = model::slot(base + i).present;
        }
        i += 1;
    }
    r
}
/// membership of every account other than `except` is as in the pre-state
pub fn list_same_except(base: usize, l: &ListPre, except: Option<&Address>) -> bool {
    let mut r = true;
    let mut i = 0;
    while i < NA {
        let skip = match except {
            Some(a) => a.id == i as u32,
            None => false,
        };
        if !skip {
            r &= model::slot(base + i).present == l.listed[i];
        }
        i += 1;
    }
    r
}
/// the party passes the gate in the pre-state
pub fn vetted<L: ListKind>(l: &ListPre, a: &Address) -> bool {
    listed_pre(l, a) == L::ALLOW
}

/// the five token operations of a flavour (library wrapper or example contract)
pub trait TokenOps {
    fn transfer(e: &Env, from: &Address, to: &MuxedAddress, amount: i128);
    fn transfer_from(e: &Env, spender: &Address, from: &Address, to: &Address, amount: i128);
    fn approve(e: &Env, owner: &Address, spender: &Address, amount: i128, live_until_ledger: u32);
}
pub trait BurnOps {
    fn burn(e: &Env, from: &Address, amount: i128);
    fn burn_from(e: &Env, spender: &Address, from: &Address, amount: i128);
}

const S_LIST: usize = S_GATE;
const LIST_DECL: usize = S_GATE + NA;

macro_rules! list_token_family {
    ($modname:ident, $fl:literal, $kind:ty, $ops:ty) => {
        pub mod $modname {
            use super::*;

            #[kani::proof]
            #[kani::unwind(18)]
            pub fn transfer() {
                setup_world();
                let e = Env::default();
                let pre = declare_balances();
                plug();
                let lst = declare_list::<$kind>(S_LIST);
                let from = addr_below(3);
                let to = addr_below(3);
                let by = addr_below(3);
                kani::assume(by != from && by != to);
                let mux: Option<u64> = kani::any();
                let amount: i128 = kani::any();

                <$ops as TokenOps>::transfer(&e, &from, &MuxedAddress { addr: to.clone(), mux }, amount);

                prop!(vetted::<$kind>(&lst, &from), concat!("C16.", $fl, ".transfer.from_vetted"));
                prop!(vetted::<$kind>(&lst, &to), concat!("C16.", $fl, ".transfer.to_vetted"));
                prop!(list_same_except(S_LIST, &lst, None) && plug_ok(), concat!("C16.", $fl, ".transfer.list_untouched"));
                prop!(authorized(&from), concat!("C02.", $fl, ".transfer.from_authorized"));
                post_transfer!($fl, "transfer", pre, from, to, by, mux, amount);
                witness!(amount > 0 && from != to, "transfer.moves");
                witness!(from == to && amount > 0, "transfer.self");
                end_checks(LIST_DECL);
            }
            #[kani::proof]
            #[kani::unwind(18)]
            pub fn transfer_from() {
                setup_world();
                let e = Env::default();
                let pre = declare_balances();
                let lst = declare_list::<$kind>(S_LIST);
                let spender = addr_below(3);
                let from = addr_below(3);
                let to = addr_below(3);
                let by = addr_below(3);
                kani::assume(by != from && by != to);
                let al = declare_allowance(&from, &spender);
                let pre_al_slot = model::slot(S_ALLOW);
                let amount: i128 = kani::any();

                <$ops as TokenOps>::transfer_from(&e, &spender, &from, &to, amount);

                prop!(vetted::<$kind>(&lst, &from), concat!("C16.", $fl, ".transfer_from.from_vetted"));
                prop!(vetted::<$kind>(&lst, &to), concat!("C16.", $fl, ".transfer_from.to_vetted"));
                prop!(list_same_except(S_LIST, &lst, None), concat!("C16.", $fl, ".transfer_from.list_untouched"));
                post_spend!($fl, "transfer_from", al, spender, amount, pre_al_slot);
                post_transfer!($fl, "transfer_from", pre, from, to, by, None, amount);
                witness!(amount > 0 && from != to && spender != from, "transfer_from.moves");
                witness!(amount > 0 && !vetted::<$kind>(&lst, &spender), "transfer_from.unvetted_spender_is_not_a_vetted_party");
                end_checks(LIST_DECL);
            }
            /// approve, then read the allowance at an arbitrary later ledger
            #[kani::proof]
            #[kani::unwind(18)]
            pub fn approve() {
                setup_world();
                let e = Env::default();
                let owner = addr_below(3);
                let spender = addr_below(3);
                let present: bool = kani::any();
                let a0: i128 = kani::any();
                kani::assume(a0 >= 0);
                let key = FungibleStorageKey::Allowance(AllowanceKey { owner: owner.clone(), spender: spender.clone() });
                model::declare_val(0, 1, &key, present, &AllowanceData { amount: a0, live_until_ledger: kani::any() }, kani::any());
                let lst = declare_list::<$kind>(1);
                let amount: i128 = kani::any();
                let live_until: u32 = kani::any();
                let seq = world().seq;
                let max_live = e.ledger().max_live_until_ledger();

                <$ops as TokenOps>::approve(&e, &owner, &spender, amount, live_until);

                prop!(vetted::<$kind>(&lst, &owner), concat!("C16.", $fl, ".approve.owner_vetted"));
                prop!(list_same_except(1, &lst, None), concat!("C16.", $fl, ".approve.list_untouched"));
                prop!(authorized(&owner), concat!("C02.", $fl, ".approve.owner_authorized"));
                prop!(amount >= 0, concat!("C02.", $fl, ".approve.amount_nonneg"));
                prop!(live_until <= max_live && (amount == 0 || live_until >= seq), concat!("C02.", $fl, ".approve.expiry_in_range"));
                let d: AllowanceData = model::slot_val(0);
                prop!(model::slot(0).present && d.amount == amount && d.live_until_ledger == live_until, concat!("C02.", $fl, ".approve.stored_exactly"));
                let ev = Approve { owner: owner.clone(), spender: spender.clone(), amount, live_until_ledger: live_until };
                prop!(model::n_events() == 1 && model::event_is(0, Approve::EVENT_ID, &ev.event_words()), concat!("C02.", $fl, ".approve.one_exact_event"));
                let seq2: u32 = kani::any();
                kani::assume(seq2 >= seq);
                world().seq = seq2;
                let r = Base::allowance(&e, &owner, &spender);
                prop!(r == 0 || r == amount, concat!("C02.", $fl, ".approve.never_more_than_approved"));
                prop!(seq2 <= live_until || r == 0, concat!("C02.", $fl, ".approve.worth_zero_after_expiry"));
                witness!(amount > 0 && seq2 > seq && seq2 <= live_until, "approve.read_later_live");
                witness!(amount > 0 && !vetted::<$kind>(&lst, &spender), "approve.unvetted_spender_is_not_a_vetted_party");
                end_checks(1 + NA);
            }
        }
    };
}
macro_rules! list_burn_family {
    ($modname:ident, $fl:literal, $kind:ty, $ops:ty, $burn_clause:literal) => {
        pub mod $modname {
            use super::*;

            #[kani::proof]
            #[kani::unwind(18)]
            pub fn burn() {
                setup_world();
                let e = Env::default();
                let pre = declare_balances();
                plug();
                let lst = declare_list::<$kind>(S_LIST);
                let from = addr_below(3);
                let by = addr_below(3);
                kani::assume(by != from);
                let amount: i128 = kani::any();

                <$ops as BurnOps>::burn(&e, &from, amount);

                prop!(vetted::<$kind>(&lst, &from), concat!("C16.", $fl, ".burn.", $burn_clause));
                prop!(list_same_except(S_LIST, &lst, None) && plug_ok(), concat!("C16.", $fl, ".burn.list_untouched"));
                prop!(authorized(&from), concat!("C02.", $fl, ".burn.from_authorized"));
                post_burn!($fl, "burn", pre, from, by, amount);
                witness!(amount > 0, "burn.positive");
                end_checks(LIST_DECL);
            }
            #[kani::proof]
            #[kani::unwind(18)]
            pub fn burn_from() {
                setup_world();
                let e = Env::default();
                let pre = declare_balances();
                let lst = declare_list::<$kind>(S_LIST);
                let spender = addr_below(3);
                let from = addr_below(3);
                let by = addr_below(3);
                kani::assume(by != from);
                let al = declare_allowance(&from, &spender);
                let pre_al_slot = model::slot(S_ALLOW);
                let amount: i128 = kani::any();

                <$ops as BurnOps>::burn_from(&e, &spender, &from, amount);

                prop!(vetted::<$kind>(&lst, &from), concat!("C16.", $fl, ".burn_from.", $burn_clause));
                prop!(list_same_except(S_LIST, &lst, None), concat!("C16.", $fl, ".burn_from.list_untouched"));
                post_spend!($fl, "burn_from", al, spender, amount, pre_al_slot);
                post_burn!($fl, "burn_from", pre, from, by, amount);
                witness!(amount > 0 && spender != from, "burn_from.positive");
                end_checks(LIST_DECL);
            }
        }
    };
}

// ---- the four flavours
pub struct AllowLib;
impl TokenOps for AllowLib {
    fn transfer(e: &Env, from: &Address, to: &MuxedAddress, amount: i128) {
        stellar_tokens::fungible::allowlist::AllowList::transfer(e, from, to, amount)
    }
    fn transfer_from(e: &Env, spender: &Address, from: &Address, to: &Address, amount: i128) {
        stellar_tokens::fungible::allowlist::AllowList::transfer_from(e, spender, from, to, amount)
    }
    fn approve(e: &Env, owner: &Address, spender: &Address, amount: i128, live_until_ledger: u32) {
        stellar_tokens::fungible::allowlist::AllowList::approve(e, owner, spender, amount, live_until_ledger)
    }
}
impl BurnOps for AllowLib {
    fn burn(e: &Env, from: &Address, amount: i128) {
        stellar_tokens::fungible::allowlist::AllowList::burn(e, from, amount)
    }
    fn burn_from(e: &Env, spender: &Address, from: &Address, amount: i128) {
        stellar_tokens::fungible::allowlist::AllowList::burn_from(e, spender, from, amount)
    }
}
pub struct BlockLib;
impl TokenOps for BlockLib {
    fn transfer(e: &Env, from: &Address, to: &MuxedAddress, amount: i128) {
        stellar_tokens::fungible::blocklist::BlockList::transfer(e, from, to, amount)
    }
    fn transfer_from(e: &Env, spender: &Address, from: &Address, to: &Address, amount: i128) {
        stellar_tokens::fungible::blocklist::BlockList::transfer_from(e, spender, from, to, amount)
    }
    fn approve(e: &Env, owner: &Address, spender: &Address, amount: i128, live_until_ledger: u32) {
        stellar_tokens::fungible::blocklist::BlockList::approve(e, owner, spender, amount, live_until_ledger)
    }
}
impl BurnOps for BlockLib {
    fn burn(e: &Env, from: &Address, amount: i128) {
        stellar_tokens::fungible::blocklist::BlockList::burn(e, from, amount)
    }
    fn burn_from(e: &Env, spender: &Address, from: &Address, amount: i128) {
        stellar_tokens::fungible::blocklist::BlockList::burn_from(e, spender, from, amount)
    }
}
/// the exported entry points of examples/fungible-allowlist (what a user deploys)
pub struct AllowEx;
impl TokenOps for AllowEx {
    fn transfer(e: &Env, from: &Address, to: &MuxedAddress, amount: i128) {
        <allowlist_example::ExampleContract as FungibleToken>::transfer(e, from.clone(), to.clone(), amount)
    }
    fn transfer_from(e: &Env, spender: &Address, from: &Address, to: &Address, amount: i128) {
        <allowlist_example::ExampleContract as FungibleToken>::transfer_from(e, spender.clone(), from.clone(), to.clone(), amount)
    }
    fn approve(e: &Env, owner: &Address, spender: &Address, amount: i128, live_until_ledger: u32) {
        <allowlist_example::ExampleContract as FungibleToken>::approve(e, owner.clone(), spender.clone(), amount, live_until_ledger)
    }
}
impl BurnOps for AllowEx {
    fn burn(e: &Env, from: &Address, amount: i128) {
        <allowlist_example::ExampleContract as FungibleBurnable>::burn(e, from.clone(), amount)
    }
    fn burn_from(e: &Env, spender: &Address, from: &Address, amount: i128) {
        <allowlist_example::ExampleContract as FungibleBurnable>::burn_from(e, spender.clone(), from.clone(), amount)
    }
}
/// the exported entry points of examples/fungible-blocklist (it exports no burn entry point)
pub struct BlockEx;
impl TokenOps for BlockEx {
    fn transfer(e: &Env, from: &Address, to: &MuxedAddress, amount: i128) {
        <blocklist_example::ExampleContract as FungibleToken>::transfer(e, from.clone(), to.clone(), amount)
    }
    fn transfer_from(e: &Env, spender: &Address, from: &Address, to: &Address, amount: i128) {
        <blocklist_example::ExampleContract as FungibleToken>::transfer_from(e, spender.clone(), from.clone(), to.clone(), amount)
    }
    fn approve(e: &Env, owner: &Address, spender: &Address, amount: i128, live_until_ledger: u32) {
        <blocklist_example::ExampleContract as FungibleToken>::approve(e, owner.clone(), spender.clone(), amount, live_until_ledger)
    }
}

list_token_family!(allow, "allowlist", AllowKind, AllowLib);
list_burn_family!(allow_burn, "allowlist", AllowKind, AllowLib, "from_vetted");
list_token_family!(block, "blocklist", BlockKind, BlockLib);
list_burn_family!(block_burn, "blocklist", BlockKind, BlockLib, "from_vetted");
list_token_family!(allow_ex, "allowlist_example", AllowKind, AllowEx);
list_burn_family!(allow_ex_burn, "allowlist_example", AllowKind, AllowEx, "allowlist_checked_on_burn_example");
list_token_family!(block_ex, "blocklist_example", BlockKind, BlockEx);

// ---- list administration: immediate, idempotent, (example level) manager-only
pub trait ListAdmin {
    /// put the account on the list / take it off the list
    fn add(e: &Env, user: &Address, operator: &Address);
    fn remove(e: &Env, user: &Address, operator: &Address);
    fn query(e: &Env, user: &Address) -> bool;
    /// event ids of add / remove
    const EV_ADD: u64;
    const EV_REMOVE: u64;
    /// whether the flavour must check the operator's "manager" role and authorization
    const GUARDED: bool;
}
fn user_event_words(user: &Address) -> [u64; model::EW] {
    let mut w = [0u64; model::EW];
    user.put(&mut w[0..1]);
    w
}
/// slot `i`: HasRole(operator, "manager") of stellar_access::access_control
fn declare_manager_role(i: usize, operator: &Address) -> bool {
    use stellar_access::access_control::AccessControlStorageKey;
    let present: bool = kani::any();
    let idx: u32 = kani::any();
    let lu: u32 = kani::any();
    kani::assume(lu >= world().seq);
    model::declare_val(i, 0, &AccessControlStorageKey::HasRole(operator.clone(), Symbol::new(&Env::default(), "manager")), present, &idx, lu);
    present
}

macro_rules! list_admin_family {
    ($modname:ident, $fl:literal, $kind:ty, $adm:ty, $add:literal, $remove:literal) => {
        pub mod $modname {
            use super::*;

            /// add: listed immediately, exactly one event iff it was not listed, others untouched, second add is a no-op
            #[kani::proof]
            #[kani::unwind(18)]
            pub fn add() {
                setup_world();
                let e = Env::default();
                let lst = declare_list::<$kind>(0);
                let user = addr_below(4);
                let operator = addr_below(4);
                let has_role = declare_manager_role(NA, &operator);

                <$adm as ListAdmin>::add(&e, &user, &operator);

                if <$adm as ListAdmin>::GUARDED {
                    prop!(has_role && authorized(&operator), concat!("C16.", $fl, ".", $add, ".manager_role_and_auth"));
                }
                prop!(listed_now(0, &user), concat!("C16.", $fl, ".", $add, ".takes_effect_immediately"));
                prop!(list_same_except(0, &lst, Some(&user)), concat!("C16.", $fl, ".", $add, ".others_untouched"));
                if listed_pre(&lst, &user) {
                    prop!(model::n_events() == 0, concat!("C16.", $fl, ".", $add, ".idempotent_no_event"));
                } else {
                    prop!(model::n_events() == 1 && model::event_is(0, <$adm as ListAdmin>::EV_ADD, &user_event_words(&user)), concat!("C16.", $fl, ".", $add, ".one_exact_event"));
                }
                prop!(<$adm as ListAdmin>::query(&e, &user), concat!("C16.", $fl, ".", $add, ".query_sees_it"));
                witness!(!listed_pre(&lst, &user), "add.fresh");
                witness!(listed_pre(&lst, &user), "add.already_listed");
                // idempotence: doing it again changes nothing
                let n = model::n_events();
                let s = [model::slot(0), model::slot(1), model::slot(2), model::slot(3)];
                <$adm as ListAdmin>::add(&e, &user, &operator);
                prop!(model::n_events() == n, concat!("C16.", $fl, ".", $add, ".second_call_no_event"));
                prop!(
                    model::slots_equal(&model::slot(0), &s[0]) && model::slots_equal(&model::slot(1), &s[1])
                        && model::slots_equal(&model::slot(2), &s[2]) && model::slots_equal(&model::slot(3), &s[3]),
                    concat!("C16.", $fl, ".", $add, ".second_call_no_change")
                );
                witness!(true, "add.twice");
                end_checks(NA + 1);
            }
            #[kani::proof]
            #[kani::unwind(18)]
            pub fn remove() {
                setup_world();
                let e = Env::default();
                let lst = declare_list::<$kind>(0);
                let user = addr_below(4);
                let operator = addr_below(4);
                let has_role = declare_manager_role(NA, &operator);

                <$adm as ListAdmin>::remove(&e, &user, &operator);

                if <$adm as ListAdmin>::GUARDED {
                    prop!(has_role && authorized(&operator), concat!("C16.", $fl, ".", $remove, ".manager_role_and_auth"));
                }
                prop!(!listed_now(0, &user), concat!("C16.", $fl, ".", $remove, ".takes_effect_immediately"));
                prop!(list_same_except(0, &lst, Some(&user)), concat!("C16.", $fl, ".", $remove, ".others_untouched"));
                if !listed_pre(&lst, &user) {
                    prop!(model::n_events() == 0, concat!("C16.", $fl, ".", $remove, ".idempotent_no_event"));
                } else {
                    prop!(model::n_events() == 1 && model::event_is(0, <$adm as ListAdmin>::EV_REMOVE, &user_event_words(&user)), concat!("C16.", $fl, ".", $remove, ".one_exact_event"));
                }
                prop!(!<$adm as ListAdmin>::query(&e, &user), concat!("C16.", $fl, ".", $remove, ".query_sees_it"));
                witness!(listed_pre(&lst, &user), "remove.listed");
                witness!(!listed_pre(&lst, &user), "remove.not_listed");
                let n = model::n_events();
                let s = [model::slot(0), model::slot(1), model::slot(2), model::slot(3)];
                <$adm as ListAdmin>::remove(&e, &user, &operator);
                prop!(model::n_events() == n, concat!("C16.", $fl, ".", $remove, ".second_call_no_event"));
                prop!(
                    model::slots_equal(&model::slot(0), &s[0]) && model::slots_equal(&model::slot(1), &s[1])
                        && model::slots_equal(&model::slot(2), &s[2]) && model::slots_equal(&model::slot(3), &s[3]),
                    concat!("C16.", $fl, ".", $remove, ".second_call_no_change")
                );
                witness!(true, "remove.twice");
                end_checks(NA + 1);
            }
        }
    };
}
pub struct AllowLibAdm;
impl ListAdmin for AllowLibAdm {
    const EV_ADD: u64 = stellar_tokens::fungible::allowlist::UserAllowed::EVENT_ID;
    const EV_REMOVE: u64 = stellar_tokens::fungible::allowlist::UserDisallowed::EVENT_ID;
    const GUARDED: bool = false;
    fn add(e: &Env, user: &Address, _operator: &Address) {
        stellar_tokens::fungible::allowlist::AllowList::allow_user(e, user)
    }
    fn remove(e: &Env, user: &Address, _operator: &Address) {
        stellar_tokens::fungible::allowlist::AllowList::disallow_user(e, user)
    }
    fn query(e: &Env, user: &Address) -> bool {
        stellar_tokens::fungible::allowlist::AllowList::allowed(e, user)
    }
}
pub struct BlockLibAdm;
impl ListAdmin for BlockLibAdm {
    const EV_ADD: u64 = stellar_tokens::fungible::blocklist::UserBlocked::EVENT_ID;
    const EV_REMOVE: u64 = stellar_tokens::fungible::blocklist::UserUnblocked::EVENT_ID;
    const GUARDED: bool = false;
    fn add(e: &Env, user: &Address, _operator: &Address) {
        stellar_tokens::fungible::blocklist::BlockList::block_user(e, user)
    }
    fn remove(e: &Env, user: &Address, _operator: &Address) {
        stellar_tokens::fungible::blocklist::BlockList::unblock_user(e, user)
    }
    fn query(e: &Env, user: &Address) -> bool {
        stellar_tokens::fungible::blocklist::BlockList::blocked(e, user)
    }
}
pub struct AllowExAdm;
impl ListAdmin for AllowExAdm {
    const EV_ADD: u64 = stellar_tokens::fungible::allowlist::UserAllowed::EVENT_ID;
    const EV_REMOVE: u64 = stellar_tokens::fungible::allowlist::UserDisallowed::EVENT_ID;
    const GUARDED: bool = true;
    fn add(e: &Env, user: &Address, operator: &Address) {
        <allowlist_example::ExampleContract as stellar_tokens::fungible::allowlist::FungibleAllowList>::allow_user(e, user.clone(), operator.clone())
    }
    fn remove(e: &Env, user: &Address, operator: &Address) {
        <allowlist_example::ExampleContract as stellar_tokens::fungible::allowlist::FungibleAllowList>::disallow_user(e, user.clone(), operator.clone())
    }
    fn query(e: &Env, user: &Address) -> bool {
        <allowlist_example::ExampleContract as stellar_tokens::fungible::allowlist::FungibleAllowList>::allowed(e, user.clone())
    }
}
pub struct BlockExAdm;
impl ListAdmin for BlockExAdm {
    const EV_ADD: u64 = stellar_tokens::fungible::blocklist::UserBlocked::EVENT_ID;
    const EV_REMOVE: u64 = stellar_tokens::fungible::blocklist::UserUnblocked::EVENT_ID;
    const GUARDED: bool = true;
    fn add(e: &Env, user: &Address, operator: &Address) {
        <blocklist_example::ExampleContract as stellar_tokens::fungible::blocklist::FungibleBlockList>::block_user(e, user.clone(), operator.clone())
    }
    fn remove(e: &Env, user: &Address, operator: &Address) {
        <blocklist_example::ExampleContract as stellar_tokens::fungible::blocklist::FungibleBlockList>::unblock_user(e, user.clone(), operator.clone())
    }
    fn query(e: &Env, user: &Address) -> bool {
        <blocklist_example::ExampleContract as stellar_tokens::fungible::blocklist::FungibleBlockList>::blocked(e, user.clone())
    }
}
list_admin_family!(allow_adm, "allowlist", AllowKind, AllowLibAdm, "allow_user", "disallow_user");
list_admin_family!(block_adm, "blocklist", BlockKind, BlockLibAdm, "block_user", "unblock_user");
list_admin_family!(allow_ex_adm, "allowlist_example", AllowKind, AllowExAdm, "allow_user", "disallow_user");
list_admin_family!(block_ex_adm, "blocklist_example", BlockKind, BlockExAdm, "block_user", "unblock_user");

/// history at the example level: a manager takes `user` off the allow-list (puts it on the block-list);
/// in the NEXT invocation a transfer by `user` is refused. ("list changes take effect immediately")
pub mod list_history {
    use super::*;

    #[kani::proof]
    #[kani::unwind(18)]
    pub fn disallow_then_transfer_refused() {
        setup_world();
        let e = Env::default();
        let _pre = declare_balances();
        plug();
        let _lst = declare_list::<AllowKind>(S_LIST);
        let user = addr_below(3);
        let operator = addr_below(4);
        let _r = declare_manager_role(LIST_DECL, &operator);
        AllowExAdm::remove(&e, &user, &operator);
        witness!(true, "disallowed");
        redraw_auth();
        let other = addr_below(3);
        let amount: i128 = kani::any();
        if kani::any::<bool>() {
            AllowEx::transfer(&e, &user, &MuxedAddress { addr: other, mux: None }, amount);
        } else {
            AllowEx::transfer(&e, &other, &MuxedAddress { addr: user, mux: None }, amount);
        }
        prop!(false, "C16.allowlist_example.disallow_then_transfer.refused_at_once");
    }
    #[kani::proof]
    #[kani::unwind(18)]
    pub fn block_then_transfer_refused() {
        setup_world();
        let e = Env::default();
        let _pre = declare_balances();
        plug();
        let _lst = declare_list::<BlockKind>(S_LIST);
        let user = addr_below(3);
        let operator = addr_below(4);
        let _r = declare_manager_role(LIST_DECL, &operator);
        BlockExAdm::add(&e, &user, &operator);
        witness!(true, "blocked");
        redraw_auth();
        let other = addr_below(3);
        let amount: i128 = kani::any();
        if kani::any::<bool>() {
            BlockEx::transfer(&e, &user, &MuxedAddress { addr: other, mux: None }, amount);
        } else {
            BlockEx::transfer(&e, &other, &MuxedAddress { addr: user, mux: None }, amount);
        }
        prop!(false, "C16.blocklist_example.block_then_transfer.refused_at_once");
    }
}

// ================================================================== 4. supply cap
pub mod capped {
    use stellar_tokens::fungible::capped::{check_cap, query_cap, set_cap, CapStorageKey};

    use super::*;

    /// `check_cap` returned => a cap is set and supply + amount <= cap without overflow; nothing changes.
    /// Pre-state: ANY stored cap and supply (superset of the reachable ones).
    #[kani::proof]
    #[kani::unwind(18)]
    pub fn check_cap_step() {
        setup_world();
        let e = Env::default();
        let cp: bool = kani::any();
        let cap: i128 = kani::any();
        model::declare_val(0, 2, &CapStorageKey::Cap, cp, &cap, 0);
        let sp: bool = kani::any();
        let supply: i128 = kani::any();
        model::declare_val(1, 2, &FungibleStorageKey::TotalSupply, sp, &supply, 0);
        let supply = if sp { supply } else { 0 };
        let (s0, s1) = (model::slot(0), model::slot(1));
        let amount: i128 = kani::any();

        check_cap(&e, amount);

        prop!(cp, "C16.capped.check_cap.cap_must_be_set");
        prop!(supply.checked_add(amount).is_some(), "C16.capped.check_cap.no_overflow");
        prop!(match supply.checked_add(amount) { Some(s) => s <= cap, None => false }, "C16.capped.check_cap.supply_plus_amount_within_cap");
        prop!(model::slots_equal(&model::slot(0), &s0) && model::slots_equal(&model::slot(1), &s1) && model::n_events() == 0, "C16.capped.check_cap.no_effect");
        witness!(amount > 0 && supply > 0 && supply + amount == cap, "check_cap.exactly_at_cap");
        witness!(amount > 0 && !sp, "check_cap.first_mint");
        end_checks(2);
    }
    /// set_cap / query_cap as coded: only non-negative caps are stored, query returns the stored cap or traps
    #[kani::proof]
    #[kani::unwind(18)]
    pub fn set_and_query_cap() {
        setup_world();
        let e = Env::default();
        let cp: bool = kani::any();
        let cap0: i128 = kani::any();
        model::declare_val(0, 2, &CapStorageKey::Cap, cp, &cap0, 0);
        if kani::any::<bool>() {
            let q = query_cap(&e);
            prop!(cp && q == cap0, "C16.capped.query_cap.returns_stored_cap_or_traps");
            witness!(true, "query_returns");
        } else {
            let cap: i128 = kani::any();
            set_cap(&e, cap);
            prop!(cap >= 0, "C16.capped.set_cap.rejects_negative_cap");
            prop!(model::slot(0).present && model::slot_val::<i128>(0) == cap, "C16.capped.set_cap.stored_exactly");
            prop!(query_cap(&e) == cap, "C16.capped.set_cap.query_reads_it_back");
            prop!(model::n_events() == 0, "C16.capped.set_cap.no_event");
            witness!(cap == 0, "set_cap_zero");
            witness!(cap > 0 && cp, "set_cap_overwrites");
        }
        end_checks(1);
    }
    /// examples/fungible-capped `mint` (and its constructor): a returned mint leaves supply <= cap
    #[kani::proof]
    #[kani::unwind(18)]
    pub fn example_mint() {
        use super::capped_example::ExampleContract as Ex;
        setup_world();
        let e = Env::default();
        let pre = declare_balances();
        plug();
        let cp: bool = kani::any();
        let cap: i128 = kani::any();
        model::declare_val(S_GATE, 2, &CapStorageKey::Cap, cp, &cap, 0);
        let cs = model::slot(S_GATE);
        let to = addr_below(3);
        let by = addr_below(3);
        kani::assume(by != to);
        let amount: i128 = kani::any();

        Ex::mint(&e, to.clone(), amount);

        prop!(cp, "C16.capped_example.mint.cap_must_be_set");
        prop!(supply_now() <= cap, "C16.capped_example.mint.supply_never_above_cap");
        prop!(model::slots_equal(&model::slot(S_GATE), &cs) && plug_ok(), "C16.capped_example.mint.cap_untouched");
        post_mint!("capped_example", pre, to, by, amount);
        witness!(amount > 0 && supply_now() == cap, "mint.fills_the_cap");
        witness!(amount > 0 && supply_now() < cap, "mint.below_cap");
        end_checks(S_GATE + 1);
    }
    #[kani::proof]
    #[kani::unwind(18)]
    pub fn example_constructor() {
        use super::capped_example::ExampleContract as Ex;
        setup_world();
        let e = Env::default();
        model::declare_val(0, 2, &CapStorageKey::Cap, false, &0i128, 0);
        let cap: i128 = kani::any();
        Ex::__constructor(&e, cap);
        prop!(cap >= 0 && model::slot(0).present && model::slot_val::<i128>(0) == cap, "C16.capped_example.constructor.sets_nonnegative_cap");
        witness!(cap > 0, "constructed");
        end_checks(1);
    }
}

// ================================================================== 5. upgrade / migrate
/// mirror of the (private) `stellar_contract_utils::upgradeable::storage::UpgradeableStorageKey`
#[contracttype]
pub enum UpgradeableStorageKey {
    Migrating,
}
pub mod upgradeable {
    use stellar_contract_utils::upgradeable::{self as lib, UpgradeableMigratable};

    use super::upgradeable_v1_example::ExampleContract as V1;
    use super::upgradeable_v2_example::{Data, ExampleContract as V2, DATA_KEY};
    use super::*;

    const S_MIG: usize = 0;
    const S_OWNER: usize = 1;
    const S_DATA: usize = 2;

    fn declare_migrating() -> bool {
        let present: bool = kani::any();
        let v: bool = kani::any();
        model::declare_val(S_MIG, 2, &UpgradeableStorageKey::Migrating, present, &v, 0);
        present && v
    }
    fn migrating_now() -> bool {
        model::slot(S_MIG).present && model::slot_val::<bool>(S_MIG)
    }
    fn declare_owner(key: &Symbol) -> Option<Address> {
        let present: bool = kani::any();
        let owner = addr_below(4);
        model::declare_val(S_OWNER, 2, key, present, &owner, 0);
        if present {
            Some(owner)
        } else {
            None
        }
    }
    fn declare_data() {
        let present: bool = kani::any();
        let d = Data { num1: kani::any(), num2: kani::any() };
        model::declare_val(S_DATA, 2, &DATA_KEY, present, &d, 0);
    }

    /// the storage functions
    #[kani::proof]
    #[kani::unwind(18)]
    pub fn storage_fns() {
        setup_world();
        let e = Env::default();
        let pre = declare_migrating();
        let k: u8 = kani::any();
        kani::assume(k < 4);
        if k == 0 {
            lib::enable_migration(&e);
            prop!(migrating_now() && lib::can_complete_migration(&e), "C16.upgradeable.enable_migration.sets_flag");
        } else if k == 1 {
            lib::ensure_can_complete_migration(&e);
            prop!(pre, "C16.upgradeable.ensure_can_complete_migration.traps_unless_migrating");
            prop!(migrating_now(), "C16.upgradeable.ensure_can_complete_migration.no_effect");
        } else if k == 2 {
            lib::complete_migration(&e);
            prop!(!migrating_now() && !lib::can_complete_migration(&e), "C16.upgradeable.complete_migration.clears_flag");
            lib::ensure_can_complete_migration(&e);
            prop!(false, "C16.upgradeable.complete_migration.cannot_be_completed_again");
        } else {
            prop!(lib::can_complete_migration(&e) == pre, "C16.upgradeable.can_complete_migration.reads_flag");
        }
        witness!(k == 0, "enable");
        witness!(k == 1, "ensure_returns");
        witness!(k == 3 && pre, "query_true");
        prop!(model::n_events() == 0, "C16.upgradeable.storage.no_events");
        end_checks(1);
    }
    #[kani::proof]
    #[kani::unwind(18)]
    pub fn storage_complete_witness() {
        setup_world();
        let e = Env::default();
        let _pre = declare_migrating();
        lib::complete_migration(&e);
        witness!(true, "complete_returns");
        end_checks(1);
    }

    /// derive(Upgradeable) of examples/upgradeable/v1: upgrade needs the owner, raises Migrating, swaps the code once
    #[kani::proof]
    #[kani::unwind(18)]
    pub fn v1_upgrade() {
        use stellar_contract_utils::upgradeable::Upgradeable;
        setup_world();
        let e = Env::default();
        let _pre = declare_migrating();
        let owner = declare_owner(&super::upgradeable_v1_example::OWNER);
        let os = model::slot(S_OWNER);
        let operator = addr_below(4);
        let hash = <BytesN<32> as soroban_sdk::Arb>::arb();
        let w0 = world().wasm_updates;
        kani::assume(w0 == 0);

        <V1 as Upgradeable>::upgrade(&e, hash, operator.clone());

        prop!(owner.is_some() && Some(operator.clone()) == owner && authorized(&operator), "C16.upgradeable_v1_example.upgrade.owner_only");
        prop!(migrating_now(), "C16.upgradeable_v1_example.upgrade.sets_migrating");
        prop!(world().wasm_updates == 1, "C16.upgradeable_v1_example.upgrade.code_replaced_once");
        prop!(model::slots_equal(&model::slot(S_OWNER), &os), "C16.upgradeable_v1_example.upgrade.owner_untouched");
        witness!(true, "v1_upgrade_returns");
        end_checks(2);
    }
    /// derive(UpgradeableMigratable) of examples/upgradeable/v2
    #[kani::proof]
    #[kani::unwind(18)]
    pub fn v2_upgrade() {
        setup_world();
        let e = Env::default();
        let _pre = declare_migrating();
        let owner = declare_owner(&super::upgradeable_v2_example::OWNER);
        declare_data();
        let (os, ds) = (model::slot(S_OWNER), model::slot(S_DATA));
        let operator = addr_below(4);
        let hash = <BytesN<32> as soroban_sdk::Arb>::arb();
        kani::assume(world().wasm_updates == 0);

        <V2 as UpgradeableMigratable>::upgrade(&e, hash, operator.clone());

        prop!(owner.is_some() && Some(operator.clone()) == owner && authorized(&operator), "C16.upgradeable_v2_example.upgrade.owner_only");
        prop!(migrating_now(), "C16.upgradeable_v2_example.upgrade.sets_migrating");
        prop!(world().wasm_updates == 1, "C16.upgradeable_v2_example.upgrade.code_replaced_once");
        prop!(model::slots_equal(&model::slot(S_OWNER), &os) && model::slots_equal(&model::slot(S_DATA), &ds), "C16.upgradeable_v2_example.upgrade.rest_untouched");
        witness!(true, "v2_upgrade_returns");
        end_checks(3);
    }
    /// migrate returns => Migrating was true, is false afterwards, the data is stored; a second migrate is impossible
    #[kani::proof]
    #[kani::unwind(18)]
    pub fn v2_migrate() {
        setup_world();
        let e = Env::default();
        let pre = declare_migrating();
        let owner = declare_owner(&super::upgradeable_v2_example::OWNER);
        declare_data();
        let os = model::slot(S_OWNER);
        let operator = addr_below(4);
        let (n1, n2): (u32, u32) = (kani::any(), kani::any());

        <V2 as UpgradeableMigratable>::migrate(&e, Data { num1: n1, num2: n2 }, operator.clone());

        prop!(pre, "C16.upgradeable_v2_example.migrate.never_without_upgrade");
        prop!(!migrating_now(), "C16.upgradeable_v2_example.migrate.clears_migrating");
        prop!(owner.is_some() && Some(operator.clone()) == owner && authorized(&operator), "C16.upgradeable_v2_example.migrate.owner_only");
        let d: Data = model::slot_val(S_DATA);
        prop!(model::slot(S_DATA).present && d.num1 == n1 && d.num2 == n2, "C16.upgradeable_v2_example.migrate.data_stored");
        prop!(model::slots_equal(&model::slot(S_OWNER), &os) && world().wasm_updates == 0, "C16.upgradeable_v2_example.migrate.rest_untouched");
        witness!(true, "v2_migrate_returns");
        end_checks(3);
        // a later invocation with any authorization and any data
        redraw_auth();
        let operator2 = addr_below(4);
        <V2 as UpgradeableMigratable>::migrate(&e, Data { num1: kani::any(), num2: kani::any() }, operator2);
        prop!(false, "C16.upgradeable_v2_example.migrate.exactly_once_per_upgrade");
    }
    /// history: upgrade -> migrate is possible (reachability) and re-arms exactly one migration
    #[kani::proof]
    #[kani::unwind(18)]
    pub fn v2_upgrade_then_migrate() {
        setup_world();
        let e = Env::default();
        let _pre = declare_migrating();
        let owner = addr_below(4);
        model::declare_val(S_OWNER, 2, &super::upgradeable_v2_example::OWNER, true, &owner, 0);
        declare_data();
        kani::assume(authorized(&owner));
        world().must_succeed = true;
        <V2 as UpgradeableMigratable>::upgrade(&e, <BytesN<32> as soroban_sdk::Arb>::arb(), owner.clone());
        redraw_auth();
        kani::assume(authorized(&owner));
        <V2 as UpgradeableMigratable>::migrate(&e, Data { num1: kani::any(), num2: kani::any() }, owner.clone());
        prop!(!migrating_now(), "C16.upgradeable_v2_example.upgrade_then_migrate.completed");
        witness!(true, "upgrade_then_migrate_accepted");
        end_checks(3);
        world().must_succeed = false;
        redraw_auth();
        <V2 as UpgradeableMigratable>::migrate(&e, Data { num1: kani::any(), num2: kani::any() }, owner.clone());
        prop!(false, "C16.upgradeable_v2_example.upgrade_then_migrate.only_once");
    }
    /// examples/upgradeable/upgrader: only its owner can trigger the upgrade, which is forwarded verbatim
    #[kani::proof]
    #[kani::unwind(18)]
    pub fn upgrader_upgrade() {
        use super::upgrader_example::Upgrader;
        use stellar_access::ownable::OwnableStorageKey;
        setup_world();
        let e = Env::default();
        let op: bool = kani::any();
        let owner = addr_below(4);
        model::declare_val(0, 2, &OwnableStorageKey::Owner, op, &owner, 0);
        let target = addr_below(4);
        let operator = addr_below(4);
        let hash = <BytesN<32> as soroban_sdk::Arb>::arb();
        let mut args = model::ArgBuf::new();
        args.push(&hash);
        args.push(&operator);

        Upgrader::upgrade(&e, target.clone(), operator.clone(), hash.clone());

        prop!(op && authorized(&owner), "C16.upgrader_example.upgrade.owner_only");
        prop!(model::n_calls() == 1 && model::call_count(&target, Symbol::of("upgrade"), &args) == 1, "C16.upgrader_example.upgrade.forwarded_exactly_once");
        witness!(true, "upgrader_returns");
        end_checks(1);
    }
}
