//! C05 (E1 half): the tokenised vault `stellar_tokens::vault::Vault` over the fungible base token
//! (shares) and the stateful SEP-41 stub (`soroban_sdk::token`, the underlying asset).
//! One inductive step per entry point from an ARBITRARY stored pre-state: the operation returns exactly
//! what the matching `preview_*` returns in the same pre-state, moves exactly the returned amounts of
//! assets (asset stub) and shares (fungible storage) between exactly the named parties, spends exactly
//! `shares` of the owner's SHARE allowance when the operator is not the owner, respects `max_*`, and
//! emits exactly one Deposit / Withdraw event with these numbers and parties.
//!
//! The magnitude-dependent claims (rounding direction, exactness, rate monotonicity) are decided by E2
//! (`mir2smt`, all of i128). Here `stellar_contract_utils::math::mul_div_i128` is replaced
//! (`#[kani::stub]`, `-Z stubbing`) by `uf_mul_div`: an UNINTERPRETED, deterministic function of
//! `(x, y, denominator, rounding)` (table-backed: equal arguments give the equal result, a new argument
//! tuple gets an arbitrary i128 or fails like an overflow; a zero denominator fails). Nothing else about
//! its value is assumed, so every clause below holds whatever the conversion computes; amounts, balances,
//! supply, total assets range over all of i128. (Comparing two bit-blasted 128-bit multiply-divide
//! circuits for equality is what SAT cannot do: the un-stubbed probe ran out of its 15 minutes.)
use soroban_sdk::model::{self, world, NADDR};
use soroban_sdk::token::{tok_allowance, tok_allowance_until, tok_balance, token_world};
use soroban_sdk::{Address, Env, Symbol};
use stellar_tokens::fungible::{AllowanceData, FungibleStorageKey};
use stellar_tokens::vault::storage::VaultStorageKey;
use stellar_tokens::vault::{Deposit, Vault, Withdraw};

use stellar_contract_utils::math::Rounding;

use crate::fungible::{
    declare_balances, allowance_worth, allowance_worth_now, bal_now, bal_pre, declare_allowance, supply_now, AllowPre, Pre, NA, S_ALLOW,
    S_SUPPLY,
};
use crate::util::*;

pub const S_ASSET: usize = crate::fungible::DECLARED; // VaultStorageKey::AssetAddress (instance)
pub const S_OFFSET: usize = crate::fungible::DECLARED + 1; // VaultStorageKey::VirtualDecimalsOffset (instance)
pub const DECLARED: usize = crate::fungible::DECLARED + 2;
/// slot of the REVERSE share allowance (operator -> owner) in the withdraw / redeem harnesses: a library that
/// consults the allowance in the wrong direction must fail a clause instead of silently finding nothing
pub const S_ALLOW_REV: usize = DECLARED;

pub fn declare_reverse_allowance(owner: &soroban_sdk::Address, operator: &soroban_sdk::Address) -> model::Slot {
    use stellar_tokens::fungible::{AllowanceData, AllowanceKey, FungibleStorageKey};
    let present: bool = kani::any();
    let amount: i128 = kani::any();
    kani::assume(amount >= 0);
    // owner == operator: the reverse key IS the forward key (already declared); plug the slot with an untouchable key
    let (o, sp) = if owner != operator {
        (operator.clone(), owner.clone())
    } else {
        (soroban_sdk::Address::from_id(9_999), soroban_sdk::Address::from_id(9_998))
    };
    let key = FungibleStorageKey::Allowance(AllowanceKey { owner: o, spender: sp });
    model::declare_val(S_ALLOW_REV, 1, &key, present && owner != operator, &AllowanceData { amount, live_until_ledger: kani::any() }, kani::any());
    model::slot(S_ALLOW_REV)
}

// ------------------------------------------------------------------------------------ the stub
#[derive(Clone, Copy)]
pub struct UfRec {
    x: i128,
    y: i128,
    d: i128,
    r: u8,
    out: i128,
}
pub const NUF: usize = 4;
static mut UF: [UfRec; NUF] = [UfRec { x: 0, y: 0, d: 0, r: 0, out: 0 }; NUF];
static mut UF_N: usize = 0;
pub fn uf_calls() -> usize {
    unsafe { UF_N }
}
/// uninterpreted stand-in for `mul_div_i128` (same signature)
#[allow(static_mut_refs)]
pub fn uf_mul_div(_e: &Env, x: i128, y: i128, denominator: i128, rounding: Rounding) -> i128 {
    if denominator == 0 {
        model::trap(1500)
    }
    let r: u8 = match rounding {
        Rounding::Floor => 0,
        Rounding::Ceil => 1,
        Rounding::Truncate => 2,
    };
    let n = unsafe { UF_N };
    let mut i = 0;
    while i < NUF {
        if i < n {
            let c = unsafe { UF[i] };
            if c.x == x && c.y == y && c.d == denominator && c.r == r {
                return c.out;
            }
        }
        i += 1;
    }
    if n >= NUF {
        model::overflow()
    }
    // the real function may fail (result outside i128)
    if kani::any() {
        model::trap(1501)
    }
    let out: i128 = kani::any();
    let mut i = 0;
    while i < NUF {
        if i == n {
            unsafe { UF[i] = UfRec { x, y, d: denominator, r, out } };
        }
        i += 1;
    }
    unsafe { UF_N = n + 1 };
    out
}

fn amount() -> i128 {
    kani::any()
}

pub struct VPre {
    pub sh: Pre,
    pub asset_set: bool,
    pub asset: Address,
    pub offset: u32,
}

/// Arbitrary stored state of a vault.
/// Shares (`fungible::declare_balances`): slots 0..NA Balance(i) present/absent, slot NA TotalSupply, ghost
/// `rest` (untracked holders); invariant: all >= 0, sum(tracked) + rest == supply. Slot NA+1: `declare_allowance`.
/// Vault: AssetAddress present/absent (any address), VirtualDecimalsOffset absent or <= 10 (the only
/// setter, `set_decimals_offset`, refuses more).  Asset stub: balances and allowances arbitrary
/// non-negative, arbitrary expirations.
pub fn declare_vault() -> VPre {
    let sh = declare_balances();

    let asset_set: bool = kani::any();
    let asset = addr_below(NADDR as u32);
    model::declare_val(S_ASSET, 2, &VaultStorageKey::AssetAddress, asset_set, &asset, 0);
    let op: bool = kani::any();
    let off: u32 = kani::any();
    kani::assume(off <= 10);
    model::declare_val(S_OFFSET, 2, &VaultStorageKey::VirtualDecimalsOffset, op, &off, 0);

    let t = token_world();
    t.decimals = kani::any();
    let mut i = 0;
    while i < NADDR {
        let b: i128 = kani::any();
        kani::assume(b >= 0);
        t.bal[i] = b;
        let mut j = 0;
        while j < NADDR {
            let a: i128 = kani::any();
            kani::assume(a >= 0);
            t.allow[i][j] = a;
            t.allow_until[i][j] = kani::any();
            j += 1;
        }
        i += 1;
    }
    VPre { sh, asset_set, asset, offset: if op { off } else { 0 } }
}

/// the i-th logged foreign call is exactly (callee, func, args)
fn call_is(i: usize, callee: &Address, func: u64, args: &model::ArgBuf) -> bool {
    let c = model::call_at(i);
    (i as u32) < model::n_calls() && c.callee == callee.id && c.func == func && c.args.eq(args)
}

/// the same fact under two clause names (owned by two properties): asserted on two nondeterministic branches,
/// because Kani's assert is assert-then-assume (a second assertion of the same condition could never fail)
macro_rules! prop2 {
    ($c:expr, [$($a:tt)+], [$($b:tt)+]) => {{
        let c: bool = $c;
        if kani::any::<bool>() {
            prop!(c, $($a)+);
        } else {
            prop!(c, $($b)+);
        }
    }};
}

// ------------------------------------------------------------------------------------ deposit / mint
/// shared post-conditions of deposit and mint (`tag` = entry point)
macro_rules! deposit_post {
    ($tag:literal, $e:ident, $p:ident, $vault:ident, $receiver:ident, $from:ident, $operator:ident, $assets:ident, $shares:ident,
     $a_from0:ident, $a_vault0:ident, $a_by0:ident, $by:ident, $al0:ident, $al_until0:ident, $sby:ident) => {
        prop!($p.asset_set, concat!("C05.vault.", $tag, ".asset_configured"));
        prop!(authorized(&$operator), concat!("C05.vault.", $tag, ".operator_authorized"));
        prop!(model::auth_count(&$operator) >= 1, concat!("C05.vault.", $tag, ".operator_auth_required_in_log"));
        prop!($assets >= 0 && $shares >= 0, concat!("C05.vault.", $tag, ".amounts_nonneg"));
        // ---- asset side: exactly `assets` from the payer to the vault
        if $from != $vault {
            prop!($a_from0 >= $assets, concat!("C05.vault.", $tag, ".payer_had_the_assets"));
            prop!(tok_balance(&$from) == $a_from0 - $assets, concat!("C05.vault.", $tag, ".payer_debited_exactly_assets"));
            prop!(tok_balance(&$vault) == $a_vault0 + $assets, concat!("C05.vault.", $tag, ".vault_credited_exactly_assets"));
        } else {
            prop!(tok_balance(&$vault) == $a_vault0, concat!("C05.vault.", $tag, ".vault_paying_itself_is_neutral"));
        }
        prop!(tok_balance(&$by) == $a_by0, concat!("C05.vault.", $tag, ".asset_bystander_unchanged"));
        // ---- the payer's consent: own authorization, or a live asset allowance to the operator, spent exactly
        if $operator == $from {
            prop!(authorized(&$from), concat!("C05.vault.", $tag, ".payer_authorized"));
            let mut a = model::ArgBuf::new();
            a.push(&$from);
            a.push(&$vault);
            a.push(&$assets);
            prop!(model::n_calls() == 1 && call_is(0, &$p.asset, Symbol::of("transfer"), &a), concat!("C05.vault.", $tag, ".one_exact_asset_transfer"));
            prop!(tok_allowance(&$from, &$operator) == $al0, concat!("C05.vault.", $tag, ".own_deposit_leaves_asset_allowance"));
        } else {
            prop!($al0 >= $assets, concat!("C05.vault.", $tag, ".payer_allowance_live_and_sufficient"));
            prop!(tok_allowance(&$from, &$operator) == $al0 - $assets, concat!("C05.vault.", $tag, ".payer_allowance_drops_by_exactly_assets"));
            let mut a = model::ArgBuf::new();
            a.push(&$operator);
            a.push(&$from);
            a.push(&$vault);
            a.push(&$assets);
            prop!(model::n_calls() == 1 && call_is(0, &$p.asset, Symbol::of("transfer_from"), &a), concat!("C05.vault.", $tag, ".one_exact_asset_transfer_from"));
        }
        let _ = $al_until0;
        // ---- share side: exactly `shares` minted to the receiver
        prop2!(bal_now(&$receiver) == bal_pre(&$p.sh, &$receiver) + $shares, [concat!("C05.vault.", $tag, ".receiver_minted_exactly_shares")], [concat!("C01.vault.", $tag, ".receiver_credited_exactly")]);
        prop2!(bal_now(&$sby) == bal_pre(&$p.sh, &$sby), [concat!("C05.vault.", $tag, ".share_bystander_unchanged")], [concat!("C01.vault.", $tag, ".bystander_unchanged")]);
        prop2!(supply_now() == $p.sh.supply + $shares, [concat!("C05.vault.", $tag, ".supply_plus_shares")], [concat!("C01.vault.", $tag, ".supply_plus_shares")]);
        // ---- event
        let ev = Deposit { operator: $operator.clone(), from: $from.clone(), receiver: $receiver.clone(), assets: $assets, shares: $shares };
        prop2!(model::n_events() == 1 && model::event_is(0, Deposit::EVENT_ID, &ev.event_words()),
               [concat!("C05.vault.", $tag, ".one_exact_deposit_event")], [concat!("C01.vault.", $tag, ".one_exact_deposit_event")]);
        let _ = $e;
    };
}

#[kani::proof]
#[kani::unwind(18)]
#[kani::stub(stellar_contract_utils::math::mul_div_i128, crate::vault::uf_mul_div)]
pub fn deposit() {
    setup_world();
    let e = Env::default();
    let p = declare_vault();
    let vault = e.current_contract_address();
    let receiver = addr_below(NA as u32);
    let from = addr_below(NADDR as u32);
    let operator = addr_below(NADDR as u32);
    let by = addr_below(NADDR as u32);
    kani::assume(by != from && by != vault);
    let sby = addr_below(NA as u32);
    kani::assume(sby != receiver);
    let _al = declare_allowance(&from, &operator);
    let pre_al_slot = model::slot(S_ALLOW);
    let assets = amount();
    let a_from0 = tok_balance(&from);
    let a_vault0 = tok_balance(&vault);
    let a_by0 = tok_balance(&by);
    let al0 = tok_allowance(&from, &operator);
    let al_until0 = tok_allowance_until(&from, &operator);

    let pv = Vault::preview_deposit(&e, assets);
    let shares = Vault::deposit(&e, assets, receiver.clone(), from.clone(), operator.clone());

    prop!(shares == pv, "C05.vault.deposit.returns_exactly_preview_deposit");
    deposit_post!("deposit", e, p, vault, receiver, from, operator, assets, shares, a_from0, a_vault0, a_by0, by, al0, al_until0, sby);
    prop!(model::slots_equal(&model::slot(S_ALLOW), &pre_al_slot), "C02.vault.deposit.share_allowance_untouched");
    witness!(assets > 0 && shares > 0 && operator != from && from != vault, "deposit.by_operator");
    witness!(assets > 0 && shares > 0 && operator == from && receiver != from, "deposit.own_assets_for_someone_else");
    witness!(assets > 0 && shares == 0, "deposit.rounds_to_zero_shares");
    witness!(assets > 1 && shares > 1 && shares != assets && p.sh.supply > 0 && a_vault0 > 0, "deposit.skewed_rate");
    witness!(p.offset == 10 && shares > 0, "deposit.offset_10");
    end_checks(DECLARED);
}

#[kani::proof]
#[kani::unwind(18)]
#[kani::stub(stellar_contract_utils::math::mul_div_i128, crate::vault::uf_mul_div)]
pub fn mint() {
    setup_world();
    let e = Env::default();
    let p = declare_vault();
    let vault = e.current_contract_address();
    let receiver = addr_below(NA as u32);
    let from = addr_below(NADDR as u32);
    let operator = addr_below(NADDR as u32);
    let by = addr_below(NADDR as u32);
    kani::assume(by != from && by != vault);
    let sby = addr_below(NA as u32);
    kani::assume(sby != receiver);
    let _al = declare_allowance(&from, &operator);
    let pre_al_slot = model::slot(S_ALLOW);
    let shares = amount();
    let a_from0 = tok_balance(&from);
    let a_vault0 = tok_balance(&vault);
    let a_by0 = tok_balance(&by);
    let al0 = tok_allowance(&from, &operator);
    let al_until0 = tok_allowance_until(&from, &operator);

    let pv = Vault::preview_mint(&e, shares);
    let assets = Vault::mint(&e, shares, receiver.clone(), from.clone(), operator.clone());

    prop!(assets == pv, "C05.vault.mint.returns_exactly_preview_mint");
    deposit_post!("mint", e, p, vault, receiver, from, operator, assets, shares, a_from0, a_vault0, a_by0, by, al0, al_until0, sby);
    prop!(model::slots_equal(&model::slot(S_ALLOW), &pre_al_slot), "C02.vault.mint.share_allowance_untouched");
    witness!(assets > 0 && shares > 0 && operator != from && from != vault, "mint.by_operator");
    witness!(assets > 0 && shares > 0 && operator == from && receiver != from, "mint.own_assets_for_someone_else");
    witness!(assets > 1 && shares > 1 && shares != assets && p.sh.supply > 0 && a_vault0 > 0, "mint.skewed_rate");
    witness!(shares > 0 && assets == 1 && shares > 1, "mint.rounds_up_to_one_asset");
    end_checks(DECLARED);
}

// ------------------------------------------------------------------------------------ withdraw / redeem
macro_rules! withdraw_post {
    ($tag:literal, $p:ident, $vault:ident, $receiver:ident, $owner:ident, $operator:ident, $assets:ident, $shares:ident,
     $a_recv0:ident, $a_vault0:ident, $a_by0:ident, $by:ident, $al:ident, $pre_al_slot:ident, $sby:ident) => {
        prop!($p.asset_set, concat!("C05.vault.", $tag, ".asset_configured"));
        prop!(authorized(&$operator), concat!("C05.vault.", $tag, ".operator_authorized"));
        prop!(model::auth_count(&$operator) >= 1, concat!("C05.vault.", $tag, ".operator_auth_required_in_log"));
        prop!($assets >= 0 && $shares >= 0, concat!("C05.vault.", $tag, ".amounts_nonneg"));
        // ---- share side: exactly `shares` burned from the owner
        prop!(bal_pre(&$p.sh, &$owner) >= $shares, concat!("C05.vault.", $tag, ".owner_had_the_shares"));
        prop2!(bal_now(&$owner) == bal_pre(&$p.sh, &$owner) - $shares, [concat!("C05.vault.", $tag, ".owner_burned_exactly_shares")], [concat!("C01.vault.", $tag, ".owner_debited_exactly")]);
        prop2!(bal_now(&$sby) == bal_pre(&$p.sh, &$sby), [concat!("C05.vault.", $tag, ".share_bystander_unchanged")], [concat!("C01.vault.", $tag, ".bystander_unchanged")]);
        prop2!(supply_now() == $p.sh.supply - $shares && supply_now() >= 0, [concat!("C05.vault.", $tag, ".supply_minus_shares")], [concat!("C01.vault.", $tag, ".supply_minus_shares")]);
        // ---- the owner's consent: own authorization or a live, sufficient SHARE allowance, spent exactly
        if $operator != $owner {
            prop2!(allowance_worth(&$al) >= $shares, [concat!("C05.vault.", $tag, ".share_allowance_live_and_sufficient")], [concat!("C02.vault.", $tag, ".share_allowance_live_and_sufficient")]);
            prop2!(allowance_worth_now() == allowance_worth(&$al) - $shares, [concat!("C05.vault.", $tag, ".share_allowance_drops_by_exactly_shares")], [concat!("C02.vault.", $tag, ".share_allowance_drops_by_exactly_shares")]);
            if $shares > 0 {
                let d: AllowanceData = model::slot_val(S_ALLOW);
                prop!(d.live_until_ledger == $al.data_live_until, concat!("C02.vault.", $tag, ".share_allowance_expiry_kept"));
            }
        } else {
            prop!(authorized(&$owner), concat!("C02.vault.", $tag, ".owner_authorized"));
            prop!(model::slots_equal(&model::slot(S_ALLOW), &$pre_al_slot), concat!("C02.vault.", $tag, ".own_withdrawal_leaves_allowance"));
        }
        // ---- asset side: exactly `assets` from the vault to the receiver
        if $receiver != $vault {
            prop!($a_vault0 >= $assets, concat!("C05.vault.", $tag, ".vault_had_the_assets"));
            prop!(tok_balance(&$vault) == $a_vault0 - $assets, concat!("C05.vault.", $tag, ".vault_debited_exactly_assets"));
            prop!(tok_balance(&$receiver) == $a_recv0 + $assets, concat!("C05.vault.", $tag, ".receiver_credited_exactly_assets"));
        } else {
            prop!(tok_balance(&$vault) == $a_vault0, concat!("C05.vault.", $tag, ".vault_paying_itself_is_neutral"));
        }
        prop!(tok_balance(&$by) == $a_by0, concat!("C05.vault.", $tag, ".asset_bystander_unchanged"));
        let mut a = model::ArgBuf::new();
        a.push(&$vault);
        a.push(&$receiver);
        a.push(&$assets);
        prop!(model::n_calls() == 1 && call_is(0, &$p.asset, Symbol::of("transfer"), &a), concat!("C05.vault.", $tag, ".one_exact_asset_transfer"));
        // ---- event
        let ev = Withdraw { operator: $operator.clone(), receiver: $receiver.clone(), owner: $owner.clone(), assets: $assets, shares: $shares };
        prop2!(model::n_events() == 1 && model::event_is(0, Withdraw::EVENT_ID, &ev.event_words()),
               [concat!("C05.vault.", $tag, ".one_exact_withdraw_event")], [concat!("C01.vault.", $tag, ".one_exact_withdraw_event")]);
    };
}

#[kani::proof]
#[kani::unwind(18)]
#[kani::stub(stellar_contract_utils::math::mul_div_i128, crate::vault::uf_mul_div)]
pub fn withdraw() {
    setup_world();
    let e = Env::default();
    let p = declare_vault();
    let vault = e.current_contract_address();
    let receiver = addr_below(NADDR as u32);
    let owner = addr_below(NA as u32);
    let operator = addr_below(NADDR as u32);
    let by = addr_below(NADDR as u32);
    kani::assume(by != receiver && by != vault);
    let sby = addr_below(NA as u32);
    kani::assume(sby != owner);
    let al = declare_allowance(&owner, &operator);
    let pre_rev = declare_reverse_allowance(&owner, &operator);
    let pre_al_slot = model::slot(S_ALLOW);
    let assets = amount();
    let a_recv0 = tok_balance(&receiver);
    let a_vault0 = tok_balance(&vault);
    let a_by0 = tok_balance(&by);

    let pv = Vault::preview_withdraw(&e, assets);
    let shares = Vault::withdraw(&e, assets, receiver.clone(), owner.clone(), operator.clone());

    prop!(shares == pv, "C05.vault.withdraw.returns_exactly_preview_withdraw");
    withdraw_post!("withdraw", p, vault, receiver, owner, operator, assets, shares, a_recv0, a_vault0, a_by0, by, al, pre_al_slot, sby);
    witness!(assets > 0 && shares > 0 && operator != owner && receiver != vault, "withdraw.by_operator");
    witness!(assets > 0 && shares > 0 && operator == owner && receiver != owner, "withdraw.own_shares_to_someone_else");
    witness!(assets > 1 && shares > 1 && shares != assets, "withdraw.skewed_rate");
    witness!(operator != owner && shares > 0 && allowance_worth_now() > 0, "withdraw.partial_allowance_spend");
    prop!(model::slots_equal(&model::slot(S_ALLOW_REV), &pre_rev), "C02.vault.withdraw.reverse_allowance_untouched");
    end_checks(DECLARED + 1);
}

#[kani::proof]
#[kani::unwind(18)]
#[kani::stub(stellar_contract_utils::math::mul_div_i128, crate::vault::uf_mul_div)]
pub fn redeem() {
    setup_world();
    let e = Env::default();
    let p = declare_vault();
    let vault = e.current_contract_address();
    let receiver = addr_below(NADDR as u32);
    let owner = addr_below(NA as u32);
    let operator = addr_below(NADDR as u32);
    let by = addr_below(NADDR as u32);
    kani::assume(by != receiver && by != vault);
    let sby = addr_below(NA as u32);
    kani::assume(sby != owner);
    let al = declare_allowance(&owner, &operator);
    let pre_rev = declare_reverse_allowance(&owner, &operator);
    let pre_al_slot = model::slot(S_ALLOW);
    let shares = amount();
    let a_recv0 = tok_balance(&receiver);
    let a_vault0 = tok_balance(&vault);
    let a_by0 = tok_balance(&by);

    let pv = Vault::preview_redeem(&e, shares);
    let assets = Vault::redeem(&e, shares, receiver.clone(), owner.clone(), operator.clone());

    prop!(assets == pv, "C05.vault.redeem.returns_exactly_preview_redeem");
    prop!(shares <= bal_pre(&p.sh, &owner), "C05.vault.redeem.respects_max_redeem");
    withdraw_post!("redeem", p, vault, receiver, owner, operator, assets, shares, a_recv0, a_vault0, a_by0, by, al, pre_al_slot, sby);
    witness!(assets > 0 && shares > 0 && operator != owner && receiver != vault, "redeem.by_operator");
    witness!(assets > 0 && shares > 0 && operator == owner && receiver != owner, "redeem.own_shares_to_someone_else");
    witness!(assets > 1 && shares > 1 && shares != assets, "redeem.skewed_rate");
    witness!(shares > 0 && assets == 0, "redeem.rounds_to_zero_assets");
    witness!(shares > 0 && shares == bal_pre(&p.sh, &owner), "redeem.everything");
    prop!(model::slots_equal(&model::slot(S_ALLOW_REV), &pre_rev), "C02.vault.redeem.reverse_allowance_untouched");
    end_checks(DECLARED + 1);
}

// ------------------------------------------------------------------------------------ max_* limits
/// `withdraw` succeeds only for `assets <= max_withdraw(owner)` taken in the same pre-state, and
/// `max_withdraw` is what the owner's whole share balance converts to (`preview_redeem(balance)`)
#[kani::proof]
#[kani::unwind(18)]
#[kani::stub(stellar_contract_utils::math::mul_div_i128, crate::vault::uf_mul_div)]
pub fn withdraw_respects_max() {
    setup_world();
    let e = Env::default();
    let p = declare_vault();
    let receiver = addr_below(NADDR as u32);
    let owner = addr_below(NA as u32);
    let operator = addr_below(NADDR as u32);
    let _al = declare_allowance(&owner, &operator);
    let assets = amount();

    let mx = Vault::max_withdraw(&e, owner.clone());
    prop!(mx == Vault::preview_redeem(&e, bal_pre(&p.sh, &owner)), "C05.vault.max_withdraw.is_owner_balance_converted_down");
    let _shares = Vault::withdraw(&e, assets, receiver.clone(), owner.clone(), operator.clone());

    prop!(assets <= mx, "C05.vault.withdraw.respects_max_withdraw");
    witness!(assets == mx && assets > 0, "withdraw.exactly_max");
    witness!(assets < mx && assets > 0, "withdraw.below_max");
    end_checks(DECLARED);
}

/// `max_redeem` is the owner's share balance; the previews and max_* never write
#[kani::proof]
#[kani::unwind(18)]
#[kani::stub(stellar_contract_utils::math::mul_div_i128, crate::vault::uf_mul_div)]
pub fn views() {
    setup_world();
    let e = Env::default();
    let p = declare_vault();
    let owner = addr_below(NA as u32);
    let vault = e.current_contract_address();
    let _al = declare_allowance(&owner, &vault);
    let pre_al_slot = model::slot(S_ALLOW);
    let x = amount();
    let which: u8 = kani::any();
    kani::assume(which < 6);
    let ev0 = model::n_events();
    let a0 = tok_balance(&vault);

    let r = match which {
        0 => Vault::max_redeem(&e, owner.clone()),
        1 => Vault::max_withdraw(&e, owner.clone()),
        2 => Vault::preview_deposit(&e, x),
        3 => Vault::preview_mint(&e, x),
        4 => Vault::preview_withdraw(&e, x),
        _ => Vault::preview_redeem(&e, x),
    };

    if which == 0 {
        prop!(r == bal_pre(&p.sh, &owner), "C05.vault.max_redeem.is_owner_share_balance");
    }
    prop!(Vault::total_assets(&e) == a0 && tok_balance(&vault) == a0, "C05.vault.views.total_assets_is_vault_asset_balance_untouched");
    prop!(supply_now() == p.sh.supply && bal_now(&owner) == bal_pre(&p.sh, &owner), "C05.vault.views.shares_untouched");
    prop!(model::n_events() == ev0 && model::n_calls() == 0 && world().n_auth == 0, "C05.vault.views.no_events_calls_or_auth");
    prop!(model::slots_equal(&model::slot(S_ALLOW), &pre_al_slot), "C05.vault.views.share_allowance_untouched");
    witness!(which == 1 && r > 0, "views.max_withdraw_positive");
    witness!(which == 4 && r > 0, "views.preview_withdraw_positive");
    end_checks(DECLARED);
}

// the post-condition macros are reused by the example-contract family (src/examples.rs, mod vault_ex)
pub(crate) use {deposit_post, prop2, withdraw_post};
