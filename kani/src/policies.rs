//! C14: smart-account policies (stellar_accounts::policies::{simple_threshold, weighted_threshold,
//! spending_limit}), one inductive step per entry point from an ARBITRARY stored pre-state.
//!
//! Profile `policies` = vw48 + ew64 (CAP = 4, BYTES_CAP = 16):
//!   Signer W = 5, Map<Signer, u32> W = 26, WeightedThresholdAccountParams W = 27 (<= VW 48),
//!   SpendingLimitData W = 18, Context W = 31, SimplePolicyEnforced / WeightedPolicyEnforced 54 words (<= EW 64).
//!
//! Slot 0: `AccountContext(smart_account, rule.id)` of the policy under test (absent or present with any value),
//! slot 1: the entry of ANOTHER (account, rule id) pair (frame: never touched).
//! `can_enforce` extends the TTL of the entry it reads (as coded); "does not write" therefore means: key, presence
//! and value words of every declared slot are unchanged, no other key is written, no event is published.
//!
//! Spending limit, representation invariant I (what install/enforce/set_spending_limit establish):
//!   limit > 0, period >= 1, ledgers of the history non-decreasing, 1 <= ledger <= current sequence,
//!   amounts >= 0, cached_total_spent == sum of the amounts (no i128 overflow).
//! Transfer amounts are quantified over the non-negative i128 (the property's quantifier); what the code does
//! with a negative amount is the separate harness `sl_enforce_negative_amount` (see the registry fragment).
use soroban_sdk::auth::{Context, ContractContext};
use soroban_sdk::model::{self, world, Slot, CAP, EW, VW};
use soroban_sdk::{flat_eq, symbol_short, Address, Arb, Bytes, Env, Flat, Map, Val, Vec};
use stellar_accounts::policies::simple_threshold as st;
use stellar_accounts::policies::spending_limit as sl;
use stellar_accounts::policies::weighted_threshold as wt;
use stellar_accounts::smart_account::{ContextRule, Signer};

use crate::util::*;

pub(crate) const S_MAIN: usize = 0;
pub(crate) const S_OTHER: usize = 1;
pub(crate) const DECLARED: usize = 2;

// ------------------------------------------------------------------------------------------ helpers
/// word-wise equality, 8 words per loop trip (keeps the unwind bound small for VW = 48 / EW = 64)
pub(crate) fn words_eq<const N: usize>(a: &[u64; N], b: &[u64; N]) -> bool {
    let mut r = true;
    let mut c = 0;
    while c < N {
        r &= a[c] == b[c];
        if c + 1 < N { r &= a[c + 1] == b[c + 1]; }
        if c + 2 < N { r &= a[c + 2] == b[c + 2]; }
        if c + 3 < N { r &= a[c + 3] == b[c + 3]; }
        if c + 4 < N { r &= a[c + 4] == b[c + 4]; }
        if c + 5 < N { r &= a[c + 5] == b[c + 5]; }
        if c + 6 < N { r &= a[c + 6] == b[c + 6]; }
        if c + 7 < N { r &= a[c + 7] == b[c + 7]; }
        c += 8;
    }
    r
}
/// same key, presence and value words (the TTL may differ)
pub(crate) fn same_entry(a: &Slot, b: &Slot) -> bool {
    a.claimed == b.claimed && a.present == b.present && a.dur == b.dur && words_eq(&a.key, &b.key) && words_eq(&a.val, &b.val)
}
/// completely untouched, TTL included
pub(crate) fn untouched(a: &Slot, b: &Slot) -> bool {
    same_entry(a, b) && a.live_until == b.live_until
}
pub(crate) fn one_event(id: u64, words: &[u64; EW]) -> bool {
    let w = world();
    w.n_events == 1 && w.events[0].id == id && words_eq(&w.events[0].w, words)
}
/// a new invocation has its own symbolic authorization set
pub(crate) fn redraw_auth() {
    let w = world();
    let mut i = 0;
    while i < model::NADDR {
        w.authorized[i] = kani::any();
        i += 1;
    }
    w.n_auth = 0;
}
pub(crate) fn arb_acct() -> Address {
    addr_below(4)
}
/// slot 1: the policy entry of another (account, rule) pair with arbitrary contents
pub(crate) fn declare_other<K: Flat>(key: &K, main: &K) -> Slot {
    kani::assume(!flat_eq(key, main));
    let present: bool = kani::any();
    let v: (u64, u64, u64) = (kani::any(), kani::any(), kani::any());
    let lu: u32 = kani::any();
    model::declare_val(S_OTHER, 0, key, present, &v, lu);
    model::slot(S_OTHER)
}
/// signer universe of this family: Delegated(any of 5 addresses) or External(any of 5 verifier addresses, a key of
/// one or two arbitrary bytes). The policies treat signers as opaque values (equality / map order only).
pub(crate) fn arb_signer() -> Signer {
    let a = Address::arb();
    if kani::any() {
        Signer::Delegated(a)
    } else {
        let x: u8 = kani::any();
        let y: u8 = kani::any();
        let key = if kani::any() { Bytes::from_array(&Env, &[x]) } else { Bytes::from_array(&Env, &[x, y]) };
        Signer::External(a, key)
    }
}
pub(crate) fn arb_signers() -> Vec<Signer> {
    let n: u32 = kani::any();
    kani::assume(n as usize <= CAP);
    let mut v = Vec::new(&Env);
    let mut k = 0;
    while k < CAP {
        if (k as u32) < n {
            v.push_back(arb_signer());
        }
        k += 1;
    }
    v
}
/// arbitrary stored weights: 0..=CAP distinct signers (sorted: the host's map invariant), arbitrary u32 weights
pub(crate) fn arb_weights() -> Map<Signer, u32> {
    let keys = arb_signers();
    let mut vals: Vec<u32> = Vec::new(&Env);
    let mut k = 0;
    while k < CAP {
        if (k as u32) < keys.len() {
            vals.push_back(kani::any());
        }
        k += 1;
    }
    Map::assume_from_parts(keys, vals)
}
/// the weight the stored map gives to `s` (the model's own map lookup: the map is trusted base, the policy is not)
pub(crate) fn weight_of(m: &Map<Signer, u32>, s: &Signer) -> Option<u32> {
    m.get(s.clone())
}
/// sum over the LIST `signers` (every occurrence counts, as coded) of the stored weights; unknown signers count 0
pub(crate) fn listed_weight(m: &Map<Signer, u32>, signers: &Vec<Signer>) -> u64 {
    let mut sum: u64 = 0;
    let mut k = 0;
    while k < CAP {
        if (k as u32) < signers.len() {
            if let Some(s) = signers.get(k as u32) {
                if let Some(w) = weight_of(m, &s) {
                    sum += w as u64;
                }
            }
        }
        k += 1;
    }
    sum
}
pub(crate) fn total_weight(m: &Map<Signer, u32>) -> u64 {
    let vs = m.values();
    let mut sum: u64 = 0;
    let mut k = 0;
    while k < CAP {
        if (k as u32) < vs.len() {
            if let Some(w) = vs.get(k as u32) {
                sum += w as u64;
            }
        }
        k += 1;
    }
    sum
}

// =========================================================================================== simple threshold
pub(crate) struct StPre {
    pub(crate) acct: Address,
    pub(crate) rule: ContextRule,
    pub(crate) present: bool,
    pub(crate) thr: u32,
    pub(crate) main: Slot,
    pub(crate) other: Slot,
}
pub(crate) fn st_declare() -> StPre {
    let acct = arb_acct();
    let rule = ContextRule::arb();
    let present: bool = kani::any();
    let thr: u32 = kani::any();
    let lu: u32 = kani::any();
    let key = st::SimpleThresholdStorageKey::AccountContext(acct.clone(), rule.id);
    model::declare_val(S_MAIN, 0, &key, present, &thr, lu);
    let other = declare_other(&st::SimpleThresholdStorageKey::AccountContext(arb_acct(), kani::any()), &key);
    StPre { acct, rule, present, thr, main: model::slot(S_MAIN), other }
}

#[kani::proof]
#[kani::unwind(14)]
pub fn st_can_enforce() {
    setup_world();
    let e = Env::default();
    let p = st_declare();
    let signers = arb_signers();
    let ctx = Context::arb();

    let r = st::can_enforce(&e, &ctx, &signers, &p.rule, &p.acct);

    prop!(r == (p.present && signers.len() >= p.thr), "C14.simple.can_enforce.iff_count_reaches_threshold");
    prop!(same_entry(&p.main, &model::slot(S_MAIN)), "C14.simple.can_enforce.does_not_write_its_entry");
    prop!(untouched(&p.other, &model::slot(S_OTHER)), "C14.simple.can_enforce.does_not_touch_other_entries");
    prop!(model::n_events() == 0, "C14.simple.can_enforce.no_event");
    witness!(r, "accepts");
    witness!(!r && p.present, "refuses_below_threshold");
    witness!(!r && !p.present, "refuses_not_installed");
    end_checks(DECLARED);
}

#[kani::proof]
#[kani::unwind(14)]
pub fn st_enforce() {
    setup_world();
    let e = Env::default();
    let p = st_declare();
    let signers = arb_signers();
    let ctx = Context::arb();

    st::enforce(&e, &ctx, &signers, &p.rule, &p.acct);

    prop!(authorized(&p.acct), "C14.simple.enforce.needs_account_auth");
    prop!(p.present, "C14.simple.enforce.only_when_installed");
    prop!(signers.len() >= p.thr, "C14.simple.enforce.only_when_count_reaches_threshold");
    let ev = st::SimplePolicyEnforced {
        smart_account: p.acct.clone(),
        context: ctx.clone(),
        context_rule_id: p.rule.id,
        authenticated_signers: signers.clone(),
    };
    prop!(one_event(st::SimplePolicyEnforced::EVENT_ID, &ev.event_words()), "C14.simple.enforce.event_as_coded");
    prop!(same_entry(&p.main, &model::slot(S_MAIN)), "C14.simple.enforce.threshold_unchanged");
    prop!(untouched(&p.other, &model::slot(S_OTHER)), "C14.simple.enforce.does_not_touch_other_entries");
    witness!(true, "enforce_returns");
    witness!(signers.len() == p.thr && p.thr == 4, "exactly_at_threshold_4");
    // agreement: in the same state the read-only answer is `true`
    let r = st::can_enforce(&e, &ctx, &signers, &p.rule, &p.acct);
    prop!(r, "C14.simple.agreement.enforce_returns_implies_can_enforce");
    end_checks(DECLARED);
}

/// must-succeed: can_enforce answered true and the account authorized => enforce returns normally
#[kani::proof]
#[kani::unwind(14)]
pub fn st_enforce_accepts() {
    setup_world();
    let e = Env::default();
    let p = st_declare();
    let signers = arb_signers();
    let ctx = Context::arb();

    let r = st::can_enforce(&e, &ctx, &signers, &p.rule, &p.acct);
    kani::assume(r && authorized(&p.acct));
    world().must_succeed = true;
    st::enforce(&e, &ctx, &signers, &p.rule, &p.acct);
    witness!(true, "enforce_returns");
    end_checks(DECLARED);
}

#[kani::proof]
#[kani::unwind(14)]
pub fn st_install() {
    setup_world();
    let e = Env::default();
    let p = st_declare();
    let params = st::SimpleThresholdAccountParams { threshold: kani::any() };

    st::install(&e, &params, &p.rule, &p.acct);

    prop!(authorized(&p.acct), "C14.simple.install.needs_account_auth");
    prop!(!p.present, "C14.simple.install.refused_when_already_installed");
    prop!(params.threshold >= 1, "C14.simple.install.threshold_never_zero");
    prop!(params.threshold <= p.rule.signers.len(), "C14.simple.install.threshold_reachable");
    prop!(model::slot_live(S_MAIN) && model::slot_val::<u32>(S_MAIN) == params.threshold, "C14.simple.install.stores_threshold");
    prop!(untouched(&p.other, &model::slot(S_OTHER)), "C14.simple.install.does_not_touch_other_entries");
    prop!(model::n_events() == 0, "C14.simple.install.no_event");
    witness!(params.threshold == p.rule.signers.len(), "n_of_n");
    witness!(params.threshold == 1 && p.rule.signers.len() == 4, "one_of_four");
    end_checks(DECLARED);
}

#[kani::proof]
#[kani::unwind(14)]
pub fn st_set_threshold() {
    setup_world();
    let e = Env::default();
    let p = st_declare();
    let thr: u32 = kani::any();

    st::set_threshold(&e, thr, &p.rule, &p.acct);

    prop!(authorized(&p.acct), "C14.simple.set_threshold.needs_account_auth");
    prop!(thr >= 1, "C14.simple.set_threshold.threshold_never_zero");
    prop!(thr <= p.rule.signers.len(), "C14.simple.set_threshold.threshold_reachable");
    prop!(model::slot_live(S_MAIN) && model::slot_val::<u32>(S_MAIN) == thr, "C14.simple.set_threshold.stores_threshold");
    prop!(untouched(&p.other, &model::slot(S_OTHER)), "C14.simple.set_threshold.does_not_touch_other_entries");
    prop!(model::n_events() == 0, "C14.simple.set_threshold.no_event");
    witness!(p.present && thr != p.thr, "changes_threshold");
    // the new threshold is what a later query and a later can_enforce see
    prop!(st::get_threshold(&e, p.rule.id, &p.acct) == thr, "C14.simple.set_threshold.visible_to_get_threshold");
    end_checks(DECLARED);
}

#[kani::proof]
#[kani::unwind(14)]
pub fn st_uninstall() {
    setup_world();
    let e = Env::default();
    let p = st_declare();

    st::uninstall(&e, &p.rule, &p.acct);

    prop!(authorized(&p.acct), "C14.simple.uninstall.needs_account_auth");
    prop!(!model::slot_live(S_MAIN), "C14.simple.uninstall.entry_removed");
    prop!(untouched(&p.other, &model::slot(S_OTHER)), "C14.simple.uninstall.does_not_touch_other_entries");
    prop!(model::n_events() == 0, "C14.simple.uninstall.no_event");
    witness!(p.present, "removes_installed_policy");
    // afterwards the policy refuses everything
    let r = st::can_enforce(&e, &Context::arb(), &arb_signers(), &p.rule, &p.acct);
    prop!(!r, "C14.simple.uninstall.then_can_enforce_false");
    end_checks(DECLARED);
}

#[kani::proof]
#[kani::unwind(14)]
pub fn st_get_threshold() {
    setup_world();
    let e = Env::default();
    let p = st_declare();

    let r = st::get_threshold(&e, p.rule.id, &p.acct);

    prop!(p.present && r == p.thr, "C14.simple.get_threshold.returns_stored");
    prop!(same_entry(&p.main, &model::slot(S_MAIN)), "C14.simple.get_threshold.does_not_write");
    prop!(untouched(&p.other, &model::slot(S_OTHER)), "C14.simple.get_threshold.does_not_touch_other_entries");
    witness!(true, "returns");
    end_checks(DECLARED);
}

// =========================================================================================== weighted threshold
pub(crate) struct WtPre {
    pub(crate) acct: Address,
    pub(crate) rule: ContextRule,
    pub(crate) present: bool,
    pub(crate) params: wt::WeightedThresholdAccountParams,
    pub(crate) main: Slot,
    pub(crate) other: Slot,
}
/// arbitrary stored weights map (sorted, duplicate-free keys: the host's representation invariant), arbitrary threshold
pub(crate) fn wt_declare() -> WtPre {
    let acct = arb_acct();
    let rule = ContextRule::arb();
    let present: bool = kani::any();
    let params = wt::WeightedThresholdAccountParams { signer_weights: arb_weights(), threshold: kani::any() };
    let lu: u32 = kani::any();
    let key = wt::WeightedThresholdStorageKey::AccountContext(acct.clone(), rule.id);
    model::declare_val(S_MAIN, 0, &key, present, &params, lu);
    let other = declare_other(&wt::WeightedThresholdStorageKey::AccountContext(arb_acct(), kani::any()), &key);
    WtPre { acct, rule, present, params, main: model::slot(S_MAIN), other }
}
pub(crate) fn wt_post() -> wt::WeightedThresholdAccountParams {
    model::slot_val::<wt::WeightedThresholdAccountParams>(S_MAIN)
}

#[kani::proof]
#[kani::unwind(14)]
pub fn wt_can_enforce() {
    setup_world();
    let e = Env::default();
    let p = wt_declare();
    let signers = arb_signers();
    let ctx = Context::arb();
    let sum = listed_weight(&p.params.signer_weights, &signers);

    let r = wt::can_enforce(&e, &ctx, &signers, &p.rule, &p.acct);

    if p.present {
        prop!(sum <= u32::MAX as u64, "C14.weighted.can_enforce.overflowing_sum_never_answers");
        prop!(r == (sum >= p.params.threshold as u64), "C14.weighted.can_enforce.iff_weight_reaches_threshold");
    } else {
        prop!(!r, "C14.weighted.can_enforce.false_when_not_installed");
    }
    prop!(same_entry(&p.main, &model::slot(S_MAIN)), "C14.weighted.can_enforce.does_not_write_its_entry");
    prop!(untouched(&p.other, &model::slot(S_OTHER)), "C14.weighted.can_enforce.does_not_touch_other_entries");
    prop!(model::n_events() == 0, "C14.weighted.can_enforce.no_event");
    witness!(r && signers.len() == 2 && sum == u32::MAX as u64, "accepts_sum_u32_max");
    witness!(r && sum == p.params.threshold as u64 && sum > 0, "accepts_exactly_at_threshold");
    witness!(!r && p.present && sum + 1 == p.params.threshold as u64, "refuses_one_below");
    witness!(!r && !p.present, "refuses_not_installed");
    end_checks(DECLARED);
}

#[kani::proof]
#[kani::unwind(14)]
pub fn wt_enforce() {
    setup_world();
    let e = Env::default();
    let p = wt_declare();
    let signers = arb_signers();
    let ctx = Context::arb();
    let sum = listed_weight(&p.params.signer_weights, &signers);

    wt::enforce(&e, &ctx, &signers, &p.rule, &p.acct);

    prop!(authorized(&p.acct), "C14.weighted.enforce.needs_account_auth");
    prop!(p.present, "C14.weighted.enforce.only_when_installed");
    prop!(sum <= u32::MAX as u64, "C14.weighted.enforce.overflowing_sum_never_enforced");
    prop!(sum >= p.params.threshold as u64, "C14.weighted.enforce.only_when_weight_reaches_threshold");
    let ev = wt::WeightedPolicyEnforced {
        smart_account: p.acct.clone(),
        context: ctx.clone(),
        context_rule_id: p.rule.id,
        authenticated_signers: signers.clone(),
    };
    prop!(one_event(wt::WeightedPolicyEnforced::EVENT_ID, &ev.event_words()), "C14.weighted.enforce.event_as_coded");
    prop!(same_entry(&p.main, &model::slot(S_MAIN)), "C14.weighted.enforce.configuration_unchanged");
    prop!(untouched(&p.other, &model::slot(S_OTHER)), "C14.weighted.enforce.does_not_touch_other_entries");
    witness!(true, "enforce_returns");
    witness!(signers.len() == 3 && sum == p.params.threshold as u64 && sum > 2, "three_signers_exactly_at_threshold");
    end_checks(DECLARED);
}

/// agreement, direction "enforce returns => can_enforce answers true in the same state" (enforce does not change the
/// configuration). Also follows from the two explicit characterisations in wt_can_enforce / wt_enforce.
#[kani::proof]
#[kani::unwind(14)]
pub fn wt_agreement() {
    setup_world();
    let e = Env::default();
    let p = wt_declare();
    let signers = arb_signers();
    let ctx = Context::arb();

    wt::enforce(&e, &ctx, &signers, &p.rule, &p.acct);
    let r = wt::can_enforce(&e, &ctx, &signers, &p.rule, &p.acct);

    prop!(r, "C14.weighted.agreement.enforce_returns_implies_can_enforce");
    witness!(true, "enforce_returns");
    end_checks(DECLARED);
}

#[kani::proof]
#[kani::unwind(14)]
pub fn wt_enforce_accepts() {
    setup_world();
    let e = Env::default();
    let p = wt_declare();
    let signers = arb_signers();
    let ctx = Context::arb();

    let r = wt::can_enforce(&e, &ctx, &signers, &p.rule, &p.acct);
    kani::assume(r && authorized(&p.acct));
    world().must_succeed = true;
    wt::enforce(&e, &ctx, &signers, &p.rule, &p.acct);
    witness!(true, "enforce_returns");
    end_checks(DECLARED);
}

/// threshold >= 1 and reachable with the weights now stored
pub(crate) fn wt_reachable(post: &wt::WeightedThresholdAccountParams) -> bool {
    let total = total_weight(&post.signer_weights);
    post.threshold >= 1 && (post.threshold as u64) <= total && total <= u32::MAX as u64
}

#[kani::proof]
#[kani::unwind(14)]
pub fn wt_install() {
    setup_world();
    let e = Env::default();
    let p = wt_declare();
    let params = wt::WeightedThresholdAccountParams { signer_weights: arb_weights(), threshold: kani::any() };

    wt::install(&e, &params, &p.rule, &p.acct);

    prop!(authorized(&p.acct), "C14.weighted.install.needs_account_auth");
    prop!(!p.present, "C14.weighted.install.refused_when_already_installed");
    prop!(model::slot_live(S_MAIN) && words_eq(&model::slot(S_MAIN).val, &words_of(&params)), "C14.weighted.install.stores_params");
    prop!(wt_reachable(&wt_post()), "C14.weighted.install.threshold_nonzero_and_reachable");
    prop!(untouched(&p.other, &model::slot(S_OTHER)), "C14.weighted.install.does_not_touch_other_entries");
    prop!(model::n_events() == 0, "C14.weighted.install.no_event");
    witness!(params.signer_weights.len() == 4 && params.threshold as u64 == total_weight(&params.signer_weights), "four_weights_threshold_is_total");
    witness!(params.signer_weights.len() == 2 && total_weight(&params.signer_weights) == u32::MAX as u64, "total_u32_max");
    end_checks(DECLARED);
}

#[kani::proof]
#[kani::unwind(14)]
pub fn wt_set_threshold() {
    setup_world();
    let e = Env::default();
    let p = wt_declare();
    let thr: u32 = kani::any();

    wt::set_threshold(&e, thr, &p.rule, &p.acct);

    prop!(authorized(&p.acct), "C14.weighted.set_threshold.needs_account_auth");
    prop!(p.present, "C14.weighted.set_threshold.only_when_installed");
    let post = wt_post();
    prop!(model::slot_live(S_MAIN) && post.threshold == thr, "C14.weighted.set_threshold.stores_threshold");
    prop!(post.signer_weights == p.params.signer_weights, "C14.weighted.set_threshold.weights_unchanged");
    prop!(wt_reachable(&post), "C14.weighted.set_threshold.threshold_nonzero_and_reachable");
    prop!(untouched(&p.other, &model::slot(S_OTHER)), "C14.weighted.set_threshold.does_not_touch_other_entries");
    prop!(model::n_events() == 0, "C14.weighted.set_threshold.no_event");
    witness!(thr as u64 == total_weight(&p.params.signer_weights) && p.params.signer_weights.len() == 3, "threshold_is_total_of_three");
    witness!(thr != p.params.threshold, "changes_threshold");
    end_checks(DECLARED);
}

#[kani::proof]
#[kani::unwind(14)]
pub fn wt_set_signer_weight() {
    setup_world();
    let e = Env::default();
    let p = wt_declare();
    let signer = arb_signer();
    let weight: u32 = kani::any();
    let known = weight_of(&p.params.signer_weights, &signer);
    // model capacity: a new key needs room (<= 3 stored weights before the call)
    kani::assume(known.is_some() || p.params.signer_weights.len() <= 3);
    // stored thresholds are never zero (established by install / set_threshold, see those harnesses)
    kani::assume(p.params.threshold >= 1);
    let probe = arb_signer();
    kani::assume(!flat_eq(&probe, &signer));

    wt::set_signer_weight(&e, &signer, weight, &p.rule, &p.acct);

    prop!(authorized(&p.acct), "C14.weighted.set_signer_weight.needs_account_auth");
    prop!(p.present, "C14.weighted.set_signer_weight.only_when_installed");
    let post = wt_post();
    prop!(model::slot_live(S_MAIN) && post.threshold == p.params.threshold, "C14.weighted.set_signer_weight.threshold_unchanged");
    prop!(weight_of(&post.signer_weights, &signer) == Some(weight), "C14.weighted.set_signer_weight.stores_weight");
    prop!(weight_of(&post.signer_weights, &probe) == weight_of(&p.params.signer_weights, &probe), "C14.weighted.set_signer_weight.other_weights_unchanged");
    prop!(post.signer_weights.len() == p.params.signer_weights.len() + if known.is_some() { 0 } else { 1 }, "C14.weighted.set_signer_weight.map_size");
    prop!(wt_reachable(&post), "C14.weighted.set_signer_weight.threshold_still_reachable");
    prop!(untouched(&p.other, &model::slot(S_OTHER)), "C14.weighted.set_signer_weight.does_not_touch_other_entries");
    prop!(model::n_events() == 0, "C14.weighted.set_signer_weight.no_event");
    witness!(known.map_or(false, |w| w > weight), "lowers_a_weight");
    witness!(known.is_none() && p.params.signer_weights.len() == 3, "adds_fourth_signer");
    end_checks(DECLARED);
}

#[kani::proof]
#[kani::unwind(14)]
pub fn wt_uninstall() {
    setup_world();
    let e = Env::default();
    let p = wt_declare();

    wt::uninstall(&e, &p.rule, &p.acct);

    prop!(authorized(&p.acct), "C14.weighted.uninstall.needs_account_auth");
    prop!(!model::slot_live(S_MAIN), "C14.weighted.uninstall.entry_removed");
    prop!(untouched(&p.other, &model::slot(S_OTHER)), "C14.weighted.uninstall.does_not_touch_other_entries");
    prop!(model::n_events() == 0, "C14.weighted.uninstall.no_event");
    witness!(p.present, "removes_installed_policy");
    let r = wt::can_enforce(&e, &Context::arb(), &arb_signers(), &p.rule, &p.acct);
    prop!(!r, "C14.weighted.uninstall.then_can_enforce_false");
    end_checks(DECLARED);
}

#[kani::proof]
#[kani::unwind(14)]
pub fn wt_calculate_weight() {
    setup_world();
    let e = Env::default();
    let p = wt_declare();
    let signers = arb_signers();
    let sum = listed_weight(&p.params.signer_weights, &signers);

    let r = wt::calculate_weight(&e, &signers, &p.rule, &p.acct);

    prop!(p.present, "C14.weighted.calculate_weight.only_when_installed");
    prop!(sum <= u32::MAX as u64 && r as u64 == sum, "C14.weighted.calculate_weight.exact_sum_or_failure");
    prop!(same_entry(&p.main, &model::slot(S_MAIN)), "C14.weighted.calculate_weight.does_not_write");
    witness!(r == u32::MAX, "sum_u32_max");
    witness!(signers.len() == 4 && r == 0, "four_unknown_signers_weigh_nothing");
    end_checks(DECLARED);
}

#[kani::proof]
#[kani::unwind(14)]
pub fn wt_getters() {
    setup_world();
    let e = Env::default();
    let p = wt_declare();

    let t = wt::get_threshold(&e, p.rule.id, &p.acct);
    let m = wt::get_signer_weights(&e, &p.rule, &p.acct);

    prop!(p.present && t == p.params.threshold, "C14.weighted.get_threshold.returns_stored");
    prop!(m == p.params.signer_weights, "C14.weighted.get_signer_weights.returns_stored");
    prop!(same_entry(&p.main, &model::slot(S_MAIN)), "C14.weighted.getters.do_not_write");
    witness!(m.len() == 4, "four_weights");
    end_checks(DECLARED);
}

// =========================================================================================== spending limit
pub(crate) const HIST: usize = 3; // history entries in the pre-state (the call may append one: CAP = 4)

pub(crate) struct SlPre {
    pub(crate) acct: Address,
    pub(crate) rule: ContextRule,
    pub(crate) present: bool,
    pub(crate) data: sl::SpendingLimitData,
    pub(crate) main: Slot,
    pub(crate) other: Slot,
}
/// arbitrary stored SpendingLimitData satisfying I (module doc)
pub(crate) fn sl_declare(e: &Env) -> SlPre {
    let seq = world().seq;
    kani::assume(seq >= 1);
    let acct = arb_acct();
    let rule = ContextRule::arb();
    let present: bool = kani::any();
    let n: u32 = kani::any();
    kani::assume(n as usize <= HIST);
    let mut hist: Vec<sl::SpendingEntry> = Vec::new(e);
    let mut sum: i128 = 0;
    let mut last: u32 = 1;
    let mut k = 0;
    while k < HIST {
        if (k as u32) < n {
            let amount: i128 = kani::any();
            let ledger: u32 = kani::any();
            kani::assume(amount >= 0 && ledger >= last && ledger <= seq);
            last = ledger;
            match sum.checked_add(amount) {
                Some(s) => sum = s,
                None => kani::assume(false),
            }
            hist.push_back(sl::SpendingEntry { amount, ledger_sequence: ledger });
        }
        k += 1;
    }
    let limit: i128 = kani::any();
    let period: u32 = kani::any();
    kani::assume(limit > 0 && period >= 1);
    let data = sl::SpendingLimitData { spending_limit: limit, period_ledgers: period, spending_history: hist, cached_total_spent: sum };
    let lu: u32 = kani::any();
    let key = sl::SpendingLimitStorageKey::AccountContext(acct.clone(), rule.id);
    model::declare_val(S_MAIN, 0, &key, present, &data, lu);
    let other = declare_other(&sl::SpendingLimitStorageKey::AccountContext(arb_acct(), kani::any()), &key);
    SlPre { acct, rule, present, data, main: model::slot(S_MAIN), other }
}
pub(crate) fn sl_post() -> sl::SpendingLimitData {
    model::slot_val::<sl::SpendingLimitData>(S_MAIN)
}
/// history entry `i`; an index outside the vector is a failed property (never a silent harness panic)
pub(crate) fn at(v: &Vec<sl::SpendingEntry>, i: u32) -> sl::SpendingEntry {
    match v.get(i) {
        Some(x) => x,
        None => {
            prop!(false, "C14.spending.harness.history_index_in_range");
            sl::SpendingEntry { amount: 0, ledger_sequence: 0 }
        }
    }
}
/// the amount of a well-formed transfer context, as the code reads it: a contract call of a function named
/// `transfer` whose argument at index 2 exists and is an i128 (the code accepts MORE than three arguments)
pub(crate) fn transfer_amount(_e: &Env, ctx: &Context) -> Option<i128> {
    match ctx {
        Context::Contract(ContractContext { fn_name, args, .. }) => {
            if *fn_name != symbol_short!("transfer") || args.len() < 3 {
                return None;
            }
            match args.get(2) {
                Some(v) if v.ty == model::TY_I128 => Some(<i128 as Flat>::unflat(&v.w[..2])),
                _ => None,
            }
        }
        _ => None,
    }
}
/// entry `en` lies outside the window of `period` ledgers ending at `seq` (integers, no saturation)
pub(crate) fn expired(en: &sl::SpendingEntry, seq: u32, period: u32) -> bool {
    (en.ledger_sequence as i64) <= (seq as i64) - (period as i64)
}
/// (number of expired entries, sum of their amounts); by I they form a prefix of the history
pub(crate) fn expired_prefix(d: &sl::SpendingLimitData, seq: u32) -> (u32, i128) {
    let mut k = 0u32;
    let mut sum = 0i128;
    let mut i = 0;
    while i < HIST {
        if (i as u32) < d.spending_history.len() {
            if let Some(en) = d.spending_history.get(i as u32) {
                if expired(&en, seq, d.period_ledgers) {
                    k += 1;
                    sum += en.amount;
                }
            }
        }
        i += 1;
    }
    (k, sum)
}
/// a fully arbitrary context, or (to make the interesting region cheap to reach) an arbitrary `transfer` call
pub(crate) fn arb_context() -> Context {
    Context::arb()
}

#[kani::proof]
#[kani::unwind(14)]
pub fn sl_can_enforce() {
    setup_world();
    let e = Env::default();
    let p = sl_declare(&e);
    let signers = arb_signers();
    let ctx = arb_context();
    let seq = world().seq;
    let amt = transfer_amount(&e, &ctx);
    let (_, gone) = expired_prefix(&p.data, seq);

    let r = sl::can_enforce(&e, &ctx, &signers, &p.rule, &p.acct);

    if amt.is_none() {
        prop!(!r, "C14.spending.can_enforce.malformed_or_non_transfer_context_refused");
    }
    if signers.is_empty() {
        prop!(!r, "C14.spending.can_enforce.refused_without_signers");
    }
    if !p.present {
        prop!(!r, "C14.spending.can_enforce.false_when_not_installed");
    }
    if let Some(amount) = amt {
        if p.present && !signers.is_empty() {
            // spent inside the window ending now, plus this transfer
            match (p.data.cached_total_spent - gone).checked_add(amount) {
                Some(t) => prop!(r == (t <= p.data.spending_limit), "C14.spending.can_enforce.iff_window_total_within_limit"),
                None => prop!(false, "C14.spending.can_enforce.i128_overflow_never_answers"),
            }
        }
    }
    prop!(same_entry(&p.main, &model::slot(S_MAIN)), "C14.spending.can_enforce.does_not_write_its_entry");
    prop!(untouched(&p.other, &model::slot(S_OTHER)), "C14.spending.can_enforce.does_not_touch_other_entries");
    prop!(model::n_events() == 0, "C14.spending.can_enforce.no_event");
    witness!(r && p.data.spending_history.len() == 3 && gone > 0, "accepts_after_eviction");
    witness!(r && amt.is_some() && amt.unwrap_or(0) > 0 && p.data.cached_total_spent.checked_add(amt.unwrap_or(0)) == Some(p.data.spending_limit), "accepts_exactly_at_limit");
    witness!(!r && amt.is_some() && p.present && !signers.is_empty(), "refuses_over_limit");
    witness!(!r && p.present && !signers.is_empty() && matches!(ctx, Context::Contract(_)) && amt.is_none(), "refuses_malformed_contract_call");
    witness!(!r && p.present && !signers.is_empty() && matches!(ctx, Context::CreateContractHostFn(_)), "refuses_create_contract");
    witness!(!r && p.present && !signers.is_empty() && matches!(ctx, Context::CreateContractWithCtorHostFn(_)), "refuses_create_contract_with_ctor");
    end_checks(DECLARED);
}

/// one enforce step: guards, window, cache, event
#[kani::proof]
#[kani::unwind(14)]
pub fn sl_enforce() {
    setup_world();
    let e = Env::default();
    let p = sl_declare(&e);
    let signers = arb_signers();
    let ctx = arb_context();
    let seq = world().seq;
    let amt = transfer_amount(&e, &ctx);
    if let Some(a) = amt {
        kani::assume(a >= 0); // the property quantifies over non-negative amounts
    }
    let (k, _) = expired_prefix(&p.data, seq);
    let n = p.data.spending_history.len();
    let j: u32 = kani::any();
    kani::assume(j < CAP as u32);

    sl::enforce(&e, &ctx, &signers, &p.rule, &p.acct);

    prop!(authorized(&p.acct), "C14.spending.enforce.needs_account_auth");
    prop!(!signers.is_empty(), "C14.spending.enforce.needs_a_signer");
    prop!(p.present, "C14.spending.enforce.only_when_installed");
    prop!(amt.is_some(), "C14.spending.enforce.malformed_or_non_transfer_context_never_enforced");
    let amount = amt.unwrap_or(0);
    let post = sl_post();
    let m = post.spending_history.len();
    prop!(model::slot_live(S_MAIN) && post.spending_limit == p.data.spending_limit && post.period_ledgers == p.data.period_ledgers,
        "C14.spending.enforce.limit_and_period_unchanged");
    // history = unexpired suffix of the old history ++ [(amount, now)]
    prop!(k <= n && m == n - k + 1, "C14.spending.enforce.exactly_the_expired_entries_evicted");
    let last = at(&post.spending_history, m.wrapping_sub(1));
    prop!(last.amount == amount && last.ledger_sequence == seq, "C14.spending.enforce.new_entry_is_amount_now");
    if j + 1 < m {
        let a = at(&post.spending_history, j);
        let b = at(&p.data.spending_history, j + k);
        prop!(a.amount == b.amount && a.ledger_sequence == b.ledger_sequence, "C14.spending.enforce.kept_entries_unchanged_in_order");
        let c = at(&post.spending_history, j + 1);
        prop!(a.ledger_sequence <= c.ledger_sequence, "C14.spending.enforce.I_ledgers_non_decreasing");
    }
    if j < m {
        let a = at(&post.spending_history, j);
        prop!(!expired(&a, seq, post.period_ledgers), "C14.spending.enforce.every_remaining_entry_inside_window");
        prop!(a.ledger_sequence >= 1 && a.ledger_sequence <= seq, "C14.spending.enforce.I_ledgers_not_in_future");
        prop!(a.amount >= 0, "C14.spending.enforce.I_amounts_non_negative");
    }
    // cached total == sum of the remaining amounts (incl. the new one) <= limit
    let mut sum: i128 = 0;
    let mut ok = true;
    let mut i = 0;
    while i < CAP {
        if (i as u32) < m {
            match sum.checked_add(at(&post.spending_history, i as u32).amount) {
                Some(s) => sum = s,
                None => ok = false,
            }
        }
        i += 1;
    }
    prop!(ok && post.cached_total_spent == sum, "C14.spending.enforce.I_cache_is_sum_of_history");
    prop!(sum <= post.spending_limit, "C14.spending.enforce.window_total_within_limit");
    let ev = sl::SpendingLimitPolicyEnforced {
        smart_account: p.acct.clone(),
        context: ctx.clone(),
        context_rule_id: p.rule.id,
        amount,
        total_spent_in_period: sum,
    };
    prop!(one_event(sl::SpendingLimitPolicyEnforced::EVENT_ID, &ev.event_words()), "C14.spending.enforce.event_as_coded");
    prop!(untouched(&p.other, &model::slot(S_OTHER)), "C14.spending.enforce.does_not_touch_other_entries");
    witness!(n == 3 && k == 3, "all_three_evicted");
    witness!(n == 3 && k == 1 && amount > 0 && sum == post.spending_limit, "one_evicted_lands_exactly_on_limit");
    witness!(n == 3 && k == 0 && j == 1, "nothing_evicted_four_entries");
    witness!(seq < post.period_ledgers && n == 2, "window_longer_than_chain");
    end_checks(DECLARED);
}

/// agreement, direction "enforce returns => can_enforce answered true" (same state, can_enforce asked first:
/// it changes nothing but the TTL)
#[kani::proof]
#[kani::unwind(14)]
pub fn sl_agreement() {
    setup_world();
    let e = Env::default();
    let p = sl_declare(&e);
    let signers = arb_signers();
    let ctx = arb_context();

    let r = sl::can_enforce(&e, &ctx, &signers, &p.rule, &p.acct);
    sl::enforce(&e, &ctx, &signers, &p.rule, &p.acct);

    prop!(r, "C14.spending.agreement.enforce_returns_implies_can_enforce");
    witness!(true, "enforce_returns");
    end_checks(DECLARED);
}

/// must-succeed: under I and without i128 overflow of `window total + amount`, can_enforce returns normally, and
/// if it answered true and the account authorized, enforce returns normally
#[kani::proof]
#[kani::unwind(14)]
pub fn sl_enforce_accepts() {
    setup_world();
    let e = Env::default();
    let p = sl_declare(&e);
    let signers = arb_signers();
    let ctx = arb_context();
    let seq = world().seq;
    // the TTL extension of a live entry must not overflow the ledger number (host trap otherwise, for both functions)
    kani::assume(seq <= u32::MAX - sl::SPENDING_LIMIT_EXTEND_AMOUNT);
    if let Some(a) = transfer_amount(&e, &ctx) {
        let (_, gone) = expired_prefix(&p.data, seq);
        kani::assume(a >= 0 && (p.data.cached_total_spent - gone).checked_add(a).is_some());
    }

    world().must_succeed = true;
    let r = sl::can_enforce(&e, &ctx, &signers, &p.rule, &p.acct);
    witness!(!r, "can_enforce_answers_false");
    kani::assume(r && authorized(&p.acct));
    sl::enforce(&e, &ctx, &signers, &p.rule, &p.acct);
    witness!(true, "enforce_returns");
    witness!(sl_post().spending_history.len() == 4, "four_entries_after");
    end_checks(DECLARED);
}

/// what the code does with a NEGATIVE amount (outside the property's quantifier; see the registry fragment)
#[kani::proof]
#[kani::unwind(14)]
pub fn sl_enforce_negative_amount() {
    setup_world();
    let e = Env::default();
    let p = sl_declare(&e);
    let signers = arb_signers();
    let ctx = arb_context();
    let amt = transfer_amount(&e, &ctx);

    sl::enforce(&e, &ctx, &signers, &p.rule, &p.acct);

    witness!(true, "enforce_returns");
    prop!(amt.unwrap_or(-1) >= 0, "C14.spending.enforce.negative_amount_refused");
    end_checks(DECLARED);
}

#[kani::proof]
#[kani::unwind(14)]
pub fn sl_install() {
    setup_world();
    let e = Env::default();
    let p = sl_declare(&e);
    let params = sl::SpendingLimitAccountParams { spending_limit: kani::any(), period_ledgers: kani::any() };

    sl::install(&e, &params, &p.rule, &p.acct);

    prop!(authorized(&p.acct), "C14.spending.install.needs_account_auth");
    prop!(!p.present, "C14.spending.install.refused_when_already_installed");
    prop!(params.spending_limit > 0 && params.period_ledgers >= 1, "C14.spending.install.limit_positive_period_nonzero");
    let post = sl_post();
    prop!(model::slot_live(S_MAIN) && post.spending_limit == params.spending_limit && post.period_ledgers == params.period_ledgers
        && post.spending_history.len() == 0 && post.cached_total_spent == 0, "C14.spending.install.starts_with_empty_history");
    prop!(untouched(&p.other, &model::slot(S_OTHER)), "C14.spending.install.does_not_touch_other_entries");
    prop!(model::n_events() == 0, "C14.spending.install.no_event");
    witness!(params.period_ledgers == 1 && params.spending_limit == 1, "smallest_configuration");
    end_checks(DECLARED);
}

#[kani::proof]
#[kani::unwind(14)]
pub fn sl_set_spending_limit() {
    setup_world();
    let e = Env::default();
    let p = sl_declare(&e);
    let limit: i128 = kani::any();

    sl::set_spending_limit(&e, limit, &p.rule, &p.acct);

    prop!(authorized(&p.acct), "C14.spending.set_spending_limit.needs_account_auth");
    prop!(p.present, "C14.spending.set_spending_limit.only_when_installed");
    prop!(limit > 0, "C14.spending.set_spending_limit.limit_positive");
    let post = sl_post();
    prop!(model::slot_live(S_MAIN) && post.spending_limit == limit, "C14.spending.set_spending_limit.stores_limit");
    prop!(post.period_ledgers == p.data.period_ledgers && post.cached_total_spent == p.data.cached_total_spent
        && post.spending_history == p.data.spending_history, "C14.spending.set_spending_limit.history_period_cache_unchanged");
    prop!(untouched(&p.other, &model::slot(S_OTHER)), "C14.spending.set_spending_limit.does_not_touch_other_entries");
    prop!(model::n_events() == 0, "C14.spending.set_spending_limit.no_event");
    witness!(limit < p.data.cached_total_spent && p.data.spending_history.len() == 3, "lowered_below_what_is_spent");
    witness!(limit > p.data.spending_limit, "raised");
    end_checks(DECLARED);
}

/// limit change -> a later invocation (own authorization set, later ledger) is judged by the NEW limit
#[kani::proof]
#[kani::unwind(14)]
pub fn sl_limit_change_then_enforce() {
    setup_world();
    let e = Env::default();
    let p = sl_declare(&e);
    let limit: i128 = kani::any();
    let signers = arb_signers();
    let ctx = arb_context();
    let amt = transfer_amount(&e, &ctx);
    if let Some(a) = amt {
        kani::assume(a >= 0);
    }

    sl::set_spending_limit(&e, limit, &p.rule, &p.acct);

    let seq1 = world().seq;
    let seq2: u32 = kani::any();
    kani::assume(seq2 >= seq1);
    world().seq = seq2;
    redraw_auth();
    let (_, gone) = expired_prefix(&p.data, seq2);

    sl::enforce(&e, &ctx, &signers, &p.rule, &p.acct);

    prop!(authorized(&p.acct), "C14.spending.limit_change.enforce_needs_account_auth_again");
    let amount = amt.unwrap_or(0);
    match (p.data.cached_total_spent - gone).checked_add(amount) {
        Some(t) => {
            prop!(t <= limit, "C14.spending.limit_change.later_transfer_judged_by_new_limit");
            prop!(sl_post().cached_total_spent == t && sl_post().spending_limit == limit, "C14.spending.limit_change.state_after");
        }
        None => prop!(false, "C14.spending.limit_change.i128_overflow_never_enforced"),
    }
    witness!(limit < p.data.spending_limit && amount > 0 && seq2 > seq1 && gone > 0, "lower_limit_then_spend_after_eviction");
    witness!(limit > p.data.spending_limit && p.data.cached_total_spent.checked_add(amount).map_or(false, |t| t > p.data.spending_limit), "raised_limit_admits_more");
    end_checks(DECLARED);
}

#[kani::proof]
#[kani::unwind(14)]
pub fn sl_uninstall() {
    setup_world();
    let e = Env::default();
    let p = sl_declare(&e);

    sl::uninstall(&e, &p.rule, &p.acct);

    prop!(authorized(&p.acct), "C14.spending.uninstall.needs_account_auth");
    prop!(!model::slot_live(S_MAIN), "C14.spending.uninstall.entry_removed");
    prop!(untouched(&p.other, &model::slot(S_OTHER)), "C14.spending.uninstall.does_not_touch_other_entries");
    prop!(model::n_events() == 0, "C14.spending.uninstall.no_event");
    witness!(p.present, "removes_installed_policy");
    let r = sl::can_enforce(&e, &arb_context(), &arb_signers(), &p.rule, &p.acct);
    prop!(!r, "C14.spending.uninstall.then_can_enforce_false");
    end_checks(DECLARED);
}

#[kani::proof]
#[kani::unwind(14)]
pub fn sl_get_data() {
    setup_world();
    let e = Env::default();
    let p = sl_declare(&e);

    let d = sl::get_spending_limit_data(&e, p.rule.id, &p.acct);

    prop!(p.present && d == p.data, "C14.spending.get_spending_limit_data.returns_stored");
    prop!(same_entry(&p.main, &model::slot(S_MAIN)), "C14.spending.get_spending_limit_data.does_not_write");
    witness!(d.spending_history.len() == 3, "three_entries");
    end_checks(DECLARED);
}
