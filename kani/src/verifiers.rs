//! C18: signature verifiers of `stellar_accounts::verifiers` -- `utils::base64_url_encode` (differential against
//! an RFC 4648 section 5 bit-level reference), `utils::extract_from_bytes`, the WebAuthn flag / type / challenge
//! validators, `webauthn::verify` (client-data JSON through the real `serde_json_core` parser on templates) and
//! `ed25519::verify`. Signature mathematics = the model's oracles (foreign calls on address id u32::MAX).
use soroban_sdk::model::{self, world, ArgBuf};
use soroban_sdk::{Arb, Bytes, BytesN, Env, Symbol};
use stellar_accounts::verifiers::ed25519;
use stellar_accounts::verifiers::utils::{base64_url_encode, extract_from_bytes};
use stellar_accounts::verifiers::webauthn::{self, ClientDataJson, WebAuthnSigData};

use crate::util::*;

pub const CRYPTO: u32 = u32::MAX;

// ---------------------------------------------------------------- RFC 4648 section 5 reference (no padding)
/// character of a 6-bit value in the URL-safe alphabet, computed arithmetically (no table)
pub fn ref_alpha(v: u8) -> u8 {
    if v < 26 {
        b'A' + v
    } else if v < 52 {
        b'a' + (v - 26)
    } else if v < 62 {
        b'0' + (v - 52)
    } else if v == 62 {
        b'-'
    } else {
        b'_'
    }
}
/// number of output characters for `n` input bytes: ceil(8n / 6)
pub fn ref_len(n: usize) -> usize {
    (8 * n + 5) / 6
}
/// k-th 6-bit group of the bit string `src[0..n]` padded with zero bits (k concrete)
pub fn ref_sextet(src: &[u8], n: usize, k: usize) -> u8 {
    let bit = 6 * k;
    let i = bit / 8;
    let off = bit % 8;
    let hi = if i < n { src[i] } else { 0 } as u16;
    let lo = if i + 1 < n && i + 1 < src.len() { src[i + 1] } else { 0 } as u16;
    let w = (hi << 8) | lo;
    ((w >> (10 - off)) & 0x3f) as u8
}

macro_rules! b64_diff {
    ($name:ident, $L:expr, $DL:expr, $unw:expr) => {
        /// every input of symbolic length 0..=L with symbolic bytes: the first ceil(8n/6) output bytes are the
        /// RFC 4648 section 5 encoding, the rest of the caller's buffer is untouched; never panics
        #[kani::proof]
        #[kani::unwind($unw)]
        pub fn $name() {
            let src: [u8; $L] = kani::any();
            let n: usize = kani::any();
            kani::assume(n <= $L);
            let d0: [u8; $DL] = kani::any();
            let mut dst = d0;
            world().must_succeed = true;
            base64_url_encode(&mut dst, &src[..n]);
            world().must_succeed = false;
            let m = ref_len(n);
            let mut ok = true;
            let mut rest = true;
            let mut k = 0;
            while k < $DL {
                if k < m {
                    ok &= dst[k] == ref_alpha(ref_sextet(&src, n, k));
                } else {
                    rest &= dst[k] == d0[k];
                }
                k += 1;
            }
            prop!(ok, "C18.base64_url_encode.equals_rfc4648_url_safe_unpadded");
            prop!(rest, "C18.base64_url_encode.writes_nothing_past_the_encoding");
            witness!(n == $L, "longest");
            witness!(n % 3 == 0 && n > 0, "len_mod3_0");
            witness!(n % 3 == 1, "len_mod3_1");
            witness!(n % 3 == 2, "len_mod3_2");
            witness!(n == 0, "empty");
        }
    };
}
b64_diff!(b64_diff_12, 12, 16, 18);
b64_diff!(b64_diff_33, 33, 44, 46);
b64_diff!(b64_diff_96, 96, 128, 130);
b64_diff!(b64_diff_255, 255, 340, 342);

/// the challenge case: exactly 32 bytes into a 43-byte buffer fills it completely with the RFC encoding
#[kani::proof]
#[kani::unwind(45)]
pub fn b64_challenge32() {
    let src: [u8; 32] = kani::any();
    let mut dst = [0u8; 43];
    world().must_succeed = true;
    base64_url_encode(&mut dst, &src);
    world().must_succeed = false;
    let expect = ref_b64_32(&src);
    let mut ok = true;
    let mut k = 0;
    while k < 43 {
        ok &= dst[k] == expect[k];
        k += 1;
    }
    prop!(ok, "C18.base64_url_encode.challenge32_equals_rfc4648_url_safe_unpadded");
    witness!(dst[42] == b'A', "last_char_A");
    witness!(dst[0] == b'_' && dst[1] == b'-', "url_safe_chars");
}
/// reference encoding of 32 bytes (43 characters)
pub fn ref_b64_32(src: &[u8; 32]) -> [u8; 43] {
    let mut out = [0u8; 43];
    let mut k = 0;
    while k < 43 {
        out[k] = ref_alpha(ref_sextet(src, 32, k));
        k += 1;
    }
    out
}

// ---------------------------------------------------------------- extract_from_bytes
const EN: usize = 4;
fn bytes_at(b: &Bytes, i: u32) -> u8 {
    b.get(i).unwrap_or(0)
}
/// Some(x) => the range is exactly EN bytes inside the data and x is that sub-range
fn extract_post(data: &Bytes, start: u32, end_excl: u64, r: &Option<BytesN<EN>>, name_ok: bool) -> bool {
    let _ = name_ok;
    match r {
        None => true,
        Some(x) => {
            let mut ok = end_excl <= data.len() as u64 && end_excl == start as u64 + EN as u64;
            let a = x.to_array();
            let mut j = 0;
            while j < EN {
                ok &= a[j] == bytes_at(data, start.wrapping_add(j as u32));
                j += 1;
            }
            ok
        }
    }
}
#[kani::proof]
#[kani::unwind(20)]
pub fn extract_ranges() {
    let e = Env::default();
    let data = <Bytes as Arb>::arb();
    let s: u32 = kani::any();
    let t: u32 = kani::any();
    let kind: u8 = kani::any();
    kani::assume(kind < 4);
    let in_range;
    let r: Option<BytesN<EN>> = match kind {
        0 => {
            in_range = t <= data.len() && s <= t && t - s == EN as u32;
            let r = extract_from_bytes(&e, &data, s..t);
            prop!(extract_post(&data, s, t as u64, &r, true), "C18.extract_from_bytes.range.some_is_the_subrange");
            r
        }
        1 => {
            in_range = t < data.len() && s <= t && t - s + 1 == EN as u32;
            let r = extract_from_bytes(&e, &data, s..=t);
            prop!(extract_post(&data, s, t as u64 + 1, &r, true), "C18.extract_from_bytes.range_inclusive.some_is_the_subrange");
            r
        }
        2 => {
            in_range = s <= data.len() && data.len() - s == EN as u32;
            let r = extract_from_bytes(&e, &data, s..);
            prop!(extract_post(&data, s, data.len() as u64, &r, true), "C18.extract_from_bytes.range_from.some_is_the_subrange");
            r
        }
        _ => {
            in_range = t <= data.len() && t == EN as u32;
            let r = extract_from_bytes(&e, &data, ..t);
            prop!(extract_post(&data, 0, t as u64, &r, true), "C18.extract_from_bytes.range_to.some_is_the_subrange");
            r
        }
    };
    // a normally returning call answers Some exactly for an in-range request of EN bytes
    prop!(r.is_some() == in_range, "C18.extract_from_bytes.some_iff_exactly_n_bytes_in_bounds");
    witness!(kind == 0 && r.is_some() && s > 0, "range_some");
    witness!(kind == 0 && r.is_none(), "range_none");
    witness!(kind == 1 && r.is_some(), "inclusive_some");
    witness!(kind == 2 && r.is_some(), "from_some");
    witness!(kind == 3 && r.is_some(), "to_some");
}
/// an in-bounds request of exactly EN bytes is answered (no trap, no panic)
#[kani::proof]
#[kani::unwind(20)]
pub fn extract_in_range_accepts() {
    let e = Env::default();
    let data = <Bytes as Arb>::arb();
    let s: u32 = kani::any();
    kani::assume(s as u64 + EN as u64 <= data.len() as u64);
    world().must_succeed = true;
    let r: Option<BytesN<EN>> = extract_from_bytes(&e, &data, s..s + EN as u32);
    world().must_succeed = false;
    prop!(r.is_some(), "C18.extract_from_bytes.in_bounds_request_answered");
    witness!(s > 0, "inner_range");
}

// ---------------------------------------------------------------- webauthn flag checks
pub fn flags_ok(f: u8) -> bool {
    let up = f & 0x01 != 0;
    let uv = f & 0x04 != 0;
    let be = f & 0x08 != 0;
    let bs = f & 0x10 != 0;
    up && uv && !(!be && bs)
}
#[kani::proof]
#[kani::unwind(4)]
pub fn webauthn_flags() {
    let e = Env::default();
    let f: u8 = kani::any();
    let which: u8 = kani::any();
    kani::assume(which < 4);
    match which {
        0 => {
            webauthn::validate_user_present_bit_set(&e, f);
            prop!(f & 0x01 != 0, "C18.webauthn.flags.user_present_required");
        }
        1 => {
            webauthn::validate_user_verified_bit_set(&e, f);
            prop!(f & 0x04 != 0, "C18.webauthn.flags.user_verified_required");
        }
        2 => {
            webauthn::validate_backup_eligibility_and_state(&e, f);
            prop!(!(f & 0x08 == 0 && f & 0x10 != 0), "C18.webauthn.flags.backup_state_needs_eligibility");
        }
        _ => {
            webauthn::validate_user_present_bit_set(&e, f);
            webauthn::validate_user_verified_bit_set(&e, f);
            webauthn::validate_backup_eligibility_and_state(&e, f);
            prop!(flags_ok(f), "C18.webauthn.flags.accepted_only_if_up_uv_and_consistent_backup");
        }
    }
    witness!(which == 3 && f == 0x05, "minimal_flags");
    witness!(which == 3 && f == 0xff, "all_bits");
}
#[kani::proof]
#[kani::unwind(4)]
pub fn webauthn_flags_accepts() {
    let e = Env::default();
    let f: u8 = kani::any();
    kani::assume(flags_ok(f));
    world().must_succeed = true;
    webauthn::validate_user_present_bit_set(&e, f);
    webauthn::validate_user_verified_bit_set(&e, f);
    webauthn::validate_backup_eligibility_and_state(&e, f);
    world().must_succeed = false;
    witness!(f & 0x18 == 0x18, "backed_up");
    witness!(f & 0x18 == 0x08, "eligible_not_backed_up");
    witness!(f & 0x18 == 0x00, "not_eligible");
}

// ---------------------------------------------------------------- type / challenge validators, called directly
fn as_str(b: &[u8]) -> &str {
    // the validators only look at the bytes
    unsafe { core::str::from_utf8_unchecked(b) }
}
/// returns only for the 12 bytes "webauthn.get" (symbolic length 0..=16, symbolic bytes)
#[kani::proof]
#[kani::unwind(20)]
pub fn webauthn_type_validator() {
    let e = Env::default();
    let buf: [u8; 16] = kani::any();
    let n: usize = kani::any();
    kani::assume(n <= 16);
    let cdj = ClientDataJson { challenge: "", type_field: as_str(&buf[..n]) };
    webauthn::validate_expected_type(&e, &cdj);
    let want = b"webauthn.get";
    let mut ok = n == 12;
    let mut k = 0;
    while k < 12 {
        ok &= buf[k] == want[k];
        k += 1;
    }
    prop!(ok, "C18.webauthn.type.only_webauthn_get_accepted");
    witness!(true, "accepted");
}
#[kani::proof]
#[kani::unwind(20)]
pub fn webauthn_type_validator_accepts() {
    let e = Env::default();
    let cdj = ClientDataJson { challenge: "", type_field: "webauthn.get" };
    world().must_succeed = true;
    webauthn::validate_expected_type(&e, &cdj);
    world().must_succeed = false;
    witness!(true, "accepted");
}

pub fn arb_payload32(e: &Env) -> ([u8; 32], Bytes) {
    let p: [u8; 32] = kani::any();
    (p, Bytes::from_array(e, &p))
}
/// returns only if the challenge string is the 43 characters base64url(payload[0..32]); payloads shorter than 32
/// bytes never pass (payload length symbolic 0..=34: a longer payload contributes its first 32 bytes)
#[kani::proof]
#[kani::unwind(46)]
pub fn webauthn_challenge_validator() {
    let e = Env::default();
    let pbuf: [u8; 34] = kani::any();
    let pn: usize = kani::any();
    kani::assume(pn <= 34);
    let payload = Bytes::from_slice(&e, &pbuf[..pn]);
    let cbuf: [u8; 44] = kani::any();
    let cn: usize = kani::any();
    kani::assume(cn <= 44);
    let cdj = ClientDataJson { challenge: as_str(&cbuf[..cn]), type_field: "" };
    webauthn::validate_challenge(&e, &cdj, &payload);
    prop!(pn >= 32, "C18.webauthn.challenge.payload_of_at_least_32_bytes");
    let mut p32 = [0u8; 32];
    let mut k = 0;
    while k < 32 {
        p32[k] = pbuf[k];
        k += 1;
    }
    let want = ref_b64_32(&p32);
    let mut ok = cn == 43;
    let mut k = 0;
    while k < 43 {
        ok &= cbuf[k] == want[k];
        k += 1;
    }
    prop!(ok, "C18.webauthn.challenge.equals_base64url_of_first_32_payload_bytes");
    witness!(pn == 32, "payload32");
    witness!(pn == 34, "longer_payload_prefix_used");
}
#[kani::proof]
#[kani::unwind(46)]
pub fn webauthn_challenge_validator_accepts() {
    let e = Env::default();
    let (p, payload) = arb_payload32(&e);
    let c = ref_b64_32(&p);
    let cdj = ClientDataJson { challenge: as_str(&c), type_field: "" };
    world().must_succeed = true;
    webauthn::validate_challenge(&e, &cdj, &payload);
    world().must_succeed = false;
    witness!(true, "accepted");
}

// ---------------------------------------------------------------- ed25519
fn arb_bn<const N: usize>() -> BytesN<N> {
    <BytesN<N> as Arb>::arb()
}
/// true => exactly one oracle query, on exactly (key, payload, signature), answered "valid"
#[kani::proof]
#[kani::unwind(20)]
pub fn ed25519_verify() {
    let e = Env::default();
    let payload = <Bytes as Arb>::arb();
    let pk = arb_bn::<32>();
    let sig = arb_bn::<64>();
    let r = ed25519::verify(&e, &payload, &pk, &sig);
    let mut a = ArgBuf::new();
    a.push(&pk);
    a.push(&payload);
    a.push(&sig);
    let c = model::call_at(0);
    prop!(r, "C18.ed25519.returns_true_or_fails");
    prop!(
        model::n_calls() == 1 && c.callee == CRYPTO && c.func == Symbol::of("ed25519_verify") && !c.failed && c.args.eq(&a),
        "C18.ed25519.accepted_only_if_oracle_accepts_exactly_key_payload_signature"
    );
    witness!(payload.len() == 0, "empty_payload");
    witness!(payload.len() as usize == model::BYTES_CAP, "full_payload");
    kani::assert(!world().overflow, "MODEL-OVERFLOW: flag set");
}
/// the oracle rejects => the verifier never returns
#[kani::proof]
#[kani::unwind(20)]
pub fn ed25519_rejects() {
    let e = Env::default();
    let payload = <Bytes as Arb>::arb();
    let pk = arb_bn::<32>();
    let sig = arb_bn::<64>();
    model::preset_call::<()>(0, true, &());
    witness!(true, "reached_call");
    let _ = ed25519::verify(&e, &payload, &pk, &sig);
    prop!(false, "C18.ed25519.invalid_signature_never_accepted");
}
/// the oracle accepts => accepted
#[kani::proof]
#[kani::unwind(20)]
pub fn ed25519_accepts() {
    let e = Env::default();
    let payload = <Bytes as Arb>::arb();
    let pk = arb_bn::<32>();
    let sig = arb_bn::<64>();
    model::preset_call::<()>(0, false, &());
    world().must_succeed = true;
    let r = ed25519::verify(&e, &payload, &pk, &sig);
    world().must_succeed = false;
    prop!(r, "C18.ed25519.valid_signature_accepted");
    witness!(true, "accepted");
    kani::assert(!world().overflow, "MODEL-OVERFLOW: flag set");
}

// ---------------------------------------------------------------- webauthn::verify (needs `-Z stubbing`: feature utf8stub)
/// Stub for `core::str::from_utf8` (called by the JSON parser on every string). The real one reads the
/// slice word-wise after `align_offset`, whose result depends on the (symbolic) address of the buffer: the
/// bounded model checker then loses the position inside the string and every loop runs to the unwinding bound.
/// OVER-APPROXIMATION: pure ASCII is valid UTF-8 (always Ok, as the real function); for anything else the stub
/// answers Ok or Err arbitrarily, so every behaviour of the real function is included.
pub fn from_utf8_stub(v: &[u8]) -> Result<&str, core::str::Utf8Error> {
    let mut ascii = true;
    let mut i = 0;
    while i < v.len() {
        ascii &= v[i] < 128;
        i += 1;
    }
    if ascii || kani::any() {
        Ok(unsafe { core::str::from_utf8_unchecked(v) })
    } else {
        // (the parser maps every error to JsonParseError without looking at it)
        Err(unsafe { core::mem::zeroed() })
    }
}

#[cfg(feature = "utf8stub")]
pub mod wa {
use super::*;

// ---------------------------------------------------------------- webauthn::verify on client-data templates
/// authenticator data of exactly AD bytes (>= 37), all symbolic
pub const AD: usize = 41; // 37 fixed bytes + 4 bytes of extension data (a verifier that signs only the first 37 bytes must be exposed)

pub struct Assertion {
    pub payload32: [u8; 32],
    pub payload: Bytes,
    pub pub_key: BytesN<65>,
    pub auth: [u8; AD],
    pub sig: WebAuthnSigData,
}
/// the expected oracle query (pub_key, sha256(authenticator_data || sha256(client_data)), signature)
pub fn expected_query(e: &Env, a: &Assertion) -> ArgBuf {
    let cd_hash = e.crypto().sha256(&a.sig.client_data);
    let mut msg = a.sig.authenticator_data.clone();
    msg.extend_from_array(&cd_hash.to_array());
    let digest = e.crypto().sha256(&msg).to_bytes();
    let mut q = ArgBuf::new();
    q.push(&a.pub_key);
    q.push(&digest);
    q.push(&a.sig.signature);
    q
}
pub fn mk_assertion(e: &Env, client_data: &[u8]) -> Assertion {
    let (payload32, payload) = arb_payload32(e);
    let auth: [u8; AD] = kani::any();
    let sig = WebAuthnSigData {
        signature: arb_bn::<64>(),
        authenticator_data: Bytes::from_array(e, &auth),
        client_data: Bytes::from_slice(e, client_data),
    };
    Assertion { payload32, payload, pub_key: arb_bn::<65>(), auth, sig }
}
fn put(dst: &mut [u8], at: usize, src: &[u8]) -> usize {
    let mut k = 0;
    while k < src.len() {
        dst[at + k] = src[k];
        k += 1;
    }
    at + src.len()
}
/// after `verify` returned: every conjunct of the acceptance condition
fn verify_post(e: &Env, r: bool, a: &Assertion, ty: &[u8; 12], ch: &[u8; 43]) {
    prop!(r, "C18.webauthn.verify.returns_true_or_fails");
    let want_t = b"webauthn.get";
    let mut ok = true;
    let mut k = 0;
    while k < 12 {
        ok &= ty[k] == want_t[k];
        k += 1;
    }
    prop!(ok, "C18.webauthn.verify.type_is_webauthn_get");
    let want_c = ref_b64_32(&a.payload32);
    let mut ok = true;
    let mut k = 0;
    while k < 43 {
        ok &= ch[k] == want_c[k];
        k += 1;
    }
    prop!(ok, "C18.webauthn.verify.challenge_is_base64url_of_payload");
    prop!(flags_ok(a.auth[32]), "C18.webauthn.verify.flags_up_uv_and_consistent_backup");
    let q = expected_query(e, a);
    let c = model::call_at(0);
    prop!(
        model::n_calls() == 1 && c.callee == CRYPTO && c.func == Symbol::of("secp256r1_verify") && !c.failed && c.args.eq(&q),
        "C18.webauthn.verify.accepted_only_if_oracle_accepts_exactly_key_digest_signature"
    );
    kani::assert(!world().overflow, "MODEL-OVERFLOW: flag set");
}

macro_rules! webauthn_template {
    ($name:ident, $accepts:ident, $unw:expr, $len:expr, $build:expr) => {
        #[kani::proof]
        #[kani::stub(core::str::from_utf8, crate::verifiers::from_utf8_stub)]
        #[kani::unwind($unw)]
        pub fn $name() {
            let e = Env::default();
            let ty: [u8; 12] = kani::any();
            let ch: [u8; 43] = kani::any();
            let mut cd = [0u8; $len];
            let f: fn(&mut [u8], &[u8; 12], &[u8; 43]) -> usize = $build;
            let n = f(&mut cd, &ty, &ch);
            assert!(n == $len);
            let a = mk_assertion(&e, &cd);
            let r = webauthn::verify(&e, &a.payload, &a.pub_key, &a.sig);
            verify_post(&e, r, &a, &ty, &ch);
            witness!(true, "accepted");
        }
        /// well-formed assertion + accepting oracle => accepted
        #[kani::proof]
        #[kani::stub(core::str::from_utf8, crate::verifiers::from_utf8_stub)]
        #[kani::unwind($unw)]
        pub fn $accepts() {
            let e = Env::default();
            let ty: [u8; 12] = *b"webauthn.get";
            let p: [u8; 32] = kani::any();
            let ch = ref_b64_32(&p);
            let mut cd = [0u8; $len];
            let f: fn(&mut [u8], &[u8; 12], &[u8; 43]) -> usize = $build;
            let _ = f(&mut cd, &ty, &ch);
            let mut a = mk_assertion(&e, &cd);
            a.payload32 = p;
            a.payload = Bytes::from_array(&e, &p);
            kani::assume(flags_ok(a.auth[32]));
            model::preset_call::<()>(0, false, &());
            world().must_succeed = true;
            let r = webauthn::verify(&e, &a.payload, &a.pub_key, &a.sig);
            world().must_succeed = false;
            prop!(r, "C18.webauthn.verify.genuine_assertion_accepted");
            witness!(true, "accepted");
            kani::assert(!world().overflow, "MODEL-OVERFLOW: flag set");
        }
    };
}

/// `{"type":"<12>","challenge":"<43>"}`
fn tpl_type_challenge(cd: &mut [u8], ty: &[u8; 12], ch: &[u8; 43]) -> usize {
    let mut o = put(cd, 0, b"{\"type\":\"");
    o = put(cd, o, ty);
    o = put(cd, o, b"\",\"challenge\":\"");
    o = put(cd, o, ch);
    put(cd, o, b"\"}")
}
/// `{"challenge":"<43>","type":"<12>"}`
fn tpl_challenge_type(cd: &mut [u8], ty: &[u8; 12], ch: &[u8; 43]) -> usize {
    let mut o = put(cd, 0, b"{\"challenge\":\"");
    o = put(cd, o, ch);
    o = put(cd, o, b"\",\"type\":\"");
    o = put(cd, o, ty);
    put(cd, o, b"\"}")
}
/// `{"type":"<12>","challenge":"<43>","origin":"https://example.com"}`
fn tpl_with_origin(cd: &mut [u8], ty: &[u8; 12], ch: &[u8; 43]) -> usize {
    let mut o = put(cd, 0, b"{\"type\":\"");
    o = put(cd, o, ty);
    o = put(cd, o, b"\",\"challenge\":\"");
    o = put(cd, o, ch);
    put(cd, o, b"\",\"origin\":\"https://example.com\"}")
}
// SYMBOLIC field contents, everything symbolic (12 + 43 symbolic bytes between concrete structure). NOT REGISTERED:
// out of reach, see checks/reg_merkle.py (each symbolic byte may be a quote or a backslash, so after the first
// string value the parser's cursor is symbolic and every later loop iteration forks into back-slash counting).
webauthn_template!(webauthn_verify_tc, webauthn_verify_tc_accepts, 100, 81, tpl_type_challenge);

/// `{"type":"webauthn.get","challenge":"<43 SYMBOLIC bytes>"}`: the symbolic member is the LAST one, so the parser's
/// cursor is concrete until the string that may end anywhere (quotes, back-slashes, non-ASCII bytes included)
#[kani::proof]
#[kani::stub(core::str::from_utf8, crate::verifiers::from_utf8_stub)]
#[kani::unwind(60)]
pub fn webauthn_verify_symbolic_challenge() {
    let e = Env::default();
    let ty: [u8; 12] = *b"webauthn.get";
    let ch: [u8; 43] = kani::any();
    let mut cd = [0u8; 81];
    let n = tpl_type_challenge(&mut cd, &ty, &ch);
    assert!(n == 81);
    let a = mk_assertion(&e, &cd);
    let r = webauthn::verify(&e, &a.payload, &a.pub_key, &a.sig);
    verify_post(&e, r, &a, &ty, &ch);
    witness!(true, "accepted");
}
/// `{"challenge":"<base64url(doc_payload())>","type":"<12 SYMBOLIC bytes>"}`
#[kani::proof]
#[kani::stub(core::str::from_utf8, crate::verifiers::from_utf8_stub)]
#[kani::unwind(60)]
pub fn webauthn_verify_symbolic_type() {
    let e = Env::default();
    let ty: [u8; 12] = kani::any();
    let ch = ref_b64_32(&doc_payload());
    let mut cd = [0u8; 81];
    let n = tpl_challenge_type(&mut cd, &ty, &ch);
    assert!(n == 81);
    let a = mk_assertion(&e, &cd);
    let r = webauthn::verify(&e, &a.payload, &a.pub_key, &a.sig);
    verify_post(&e, r, &a, &ty, &ch);
    witness!(true, "accepted");
}

// ---------------------------------------------------------------- webauthn::verify on CONCRETE client-data documents
// The JSON text is concrete (so the real parser runs deterministically); payload, authenticator data, public
// key and signature are symbolic.
/// the fixed 32-byte payload whose base64url is the documents' challenge
pub fn doc_payload() -> [u8; 32] {
    let mut p = [0u8; 32];
    let mut k = 0;
    while k < 32 {
        p[k] = (k as u8).wrapping_mul(37).wrapping_add(11);
        k += 1;
    }
    p
}
pub const DOC_MAX: usize = 160;
/// the documents: (type, challenge = base64url(doc_payload()) possibly damaged) in several concrete shapes
pub fn doc(which: u8, cd: &mut [u8; DOC_MAX]) -> usize {
    let ch = ref_b64_32(&doc_payload());
    let get = b"webauthn.get";
    match which {
        // the two field orders
        0 => tpl_type_challenge(cd, get, &ch),
        1 => tpl_challenge_type(cd, get, &ch),
        // extra members (string, boolean, nested object), white space
        2 => {
            let mut o = put(cd, 0, b"{ \"type\" : \"webauthn.get\",\n \"challenge\":\"");
            o = put(cd, o, &ch);
            put(cd, o, b"\",\"origin\":\"https://example.com\",\"crossOrigin\":false,\"x\":{\"a\":[1,2]}}")
        }
        // wrong type
        3 => {
            let mut o = put(cd, 0, b"{\"type\":\"webauthn.create\",\"challenge\":\"");
            o = put(cd, o, &ch);
            put(cd, o, b"\"}")
        }
        // challenge of another payload (last character differs)
        4 => {
            let mut c2 = ch;
            c2[42] = if c2[42] == b'A' { b'E' } else { b'A' };
            tpl_type_challenge(cd, get, &c2)
        }
        // challenge with padding appended (44 characters)
        5 => {
            let mut o = put(cd, 0, b"{\"type\":\"webauthn.get\",\"challenge\":\"");
            o = put(cd, o, &ch);
            put(cd, o, b"=\"}")
        }
        // type member missing
        6 => {
            let mut o = put(cd, 0, b"{\"challenge\":\"");
            o = put(cd, o, &ch);
            put(cd, o, b"\"}")
        }
        // type given twice, the first one wrong
        _ => {
            let mut o = put(cd, 0, b"{\"type\":\"webauthn.create\",\"type\":\"webauthn.get\",\"challenge\":\"");
            o = put(cd, o, &ch);
            put(cd, o, b"\"}")
        }
    }
}
fn mk_doc_assertion(e: &Env, which: u8) -> Assertion {
    let mut cd = [0u8; DOC_MAX];
    let n = doc(which, &mut cd);
    mk_assertion(e, &cd[..n])
}
macro_rules! webauthn_doc_ok {
    ($name:ident, $accepts:ident, $which:expr) => {
        /// true => payload is the one named by the challenge, flags fine, oracle asked exactly (key, digest, signature)
        #[kani::proof]
        #[kani::stub(core::str::from_utf8, crate::verifiers::from_utf8_stub)]
        #[kani::unwind(200)]
        pub fn $name() {
            let e = Env::default();
            let a = mk_doc_assertion(&e, $which);
            let r = webauthn::verify(&e, &a.payload, &a.pub_key, &a.sig);
            prop!(r, "C18.webauthn.verify.returns_true_or_fails");
            let want = doc_payload();
            let mut ok = true;
            let mut k = 0;
            while k < 32 {
                ok &= a.payload32[k] == want[k];
                k += 1;
            }
            prop!(ok, "C18.webauthn.verify.challenge_is_base64url_of_payload");
            prop!(flags_ok(a.auth[32]), "C18.webauthn.verify.flags_up_uv_and_consistent_backup");
            let q = expected_query(&e, &a);
            let c = model::call_at(0);
            prop!(
                model::n_calls() == 1 && c.callee == CRYPTO && c.func == Symbol::of("secp256r1_verify") && !c.failed && c.args.eq(&q),
                "C18.webauthn.verify.accepted_only_if_oracle_accepts_exactly_key_digest_signature"
            );
            witness!(a.auth[32] == 0x05, "accepted_minimal_flags");
            witness!(a.auth[32] == 0x1d, "accepted_backed_up");
            kani::assert(!world().overflow, "MODEL-OVERFLOW: flag set");
        }
        /// genuine, well-formed assertion + accepting oracle => accepted
        #[kani::proof]
        #[kani::stub(core::str::from_utf8, crate::verifiers::from_utf8_stub)]
        #[kani::unwind(200)]
        pub fn $accepts() {
            let e = Env::default();
            let mut a = mk_doc_assertion(&e, $which);
            a.payload32 = doc_payload();
            a.payload = Bytes::from_array(&e, &a.payload32);
            kani::assume(flags_ok(a.auth[32]));
            model::preset_call::<()>(0, false, &());
            world().must_succeed = true;
            let r = webauthn::verify(&e, &a.payload, &a.pub_key, &a.sig);
            world().must_succeed = false;
            prop!(r, "C18.webauthn.verify.genuine_assertion_accepted");
            witness!(true, "accepted");
            kani::assert(!world().overflow, "MODEL-OVERFLOW: flag set");
        }
    };
}
macro_rules! webauthn_doc_bad {
    ($name:ident, $which:expr, $clause:literal) => {
        #[kani::proof]
        #[kani::stub(core::str::from_utf8, crate::verifiers::from_utf8_stub)]
        #[kani::unwind(200)]
        pub fn $name() {
            let e = Env::default();
            let a = mk_doc_assertion(&e, $which);
            witness!(true, "reached_call");
            let _ = webauthn::verify(&e, &a.payload, &a.pub_key, &a.sig);
            prop!(false, $clause);
        }
    };
}
webauthn_doc_ok!(webauthn_doc_type_challenge, webauthn_doc_type_challenge_accepts, 0);
webauthn_doc_ok!(webauthn_doc_challenge_type, webauthn_doc_challenge_type_accepts, 1);
webauthn_doc_ok!(webauthn_doc_extra_members, webauthn_doc_extra_members_accepts, 2);
webauthn_doc_bad!(webauthn_doc_wrong_type, 3, "C18.webauthn.verify.wrong_type_never_accepted");
webauthn_doc_bad!(webauthn_doc_padded_challenge, 5, "C18.webauthn.verify.padded_challenge_never_accepted");
webauthn_doc_bad!(webauthn_doc_missing_type, 6, "C18.webauthn.verify.missing_type_never_accepted");
webauthn_doc_bad!(webauthn_doc_duplicate_type, 7, "C18.webauthn.verify.duplicate_type_never_accepted");

/// document 4 names another payload: accepted only for THAT payload, never for doc_payload()
#[kani::proof]
#[kani::stub(core::str::from_utf8, crate::verifiers::from_utf8_stub)]
#[kani::unwind(200)]
pub fn webauthn_doc_other_challenge() {
    let e = Env::default();
    let a = mk_doc_assertion(&e, 4);
    let _ = webauthn::verify(&e, &a.payload, &a.pub_key, &a.sig);
    let want = doc_payload();
    let mut same = true;
    let mut k = 0;
    while k < 32 {
        same &= a.payload32[k] == want[k];
        k += 1;
    }
    prop!(!same, "C18.webauthn.verify.challenge_of_another_payload_rejected");
    witness!(true, "accepted_for_the_other_payload");
}

/// the oracle rejects => never accepted; authenticator data shorter than 37 bytes => never accepted
#[kani::proof]
#[kani::stub(core::str::from_utf8, crate::verifiers::from_utf8_stub)]
#[kani::unwind(200)]
pub fn webauthn_doc_oracle_rejects() {
    let e = Env::default();
    let a = mk_doc_assertion(&e, 0);
    model::preset_call::<()>(0, true, &());
    witness!(true, "reached_call");
    let _ = webauthn::verify(&e, &a.payload, &a.pub_key, &a.sig);
    prop!(false, "C18.webauthn.verify.invalid_signature_never_accepted");
}
#[kani::proof]
#[kani::stub(core::str::from_utf8, crate::verifiers::from_utf8_stub)]
#[kani::unwind(200)]
pub fn webauthn_doc_short_auth_data() {
    let e = Env::default();
    let mut a = mk_doc_assertion(&e, 0);
    let n: usize = kani::any();
    kani::assume(n < 37);
    a.sig.authenticator_data = Bytes::from_slice(&e, &a.auth[..n]);
    witness!(n == 36, "reached_call_36");
    let _ = webauthn::verify(&e, &a.payload, &a.pub_key, &a.sig);
    prop!(false, "C18.webauthn.verify.authenticator_data_below_37_bytes_never_accepted");
}
}
