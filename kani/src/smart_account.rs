//! C03: smart-account authorization is sound and follows rule precedence.
//!
//! Code under test: `stellar_accounts::smart_account::do_check_auth` (authenticate, get_validated_context,
//! get_valid_context_rules, get_authenticated_signers, can_enforce_all_policies, get_context_rule) and the
//! example account's `__check_auth` (`/repo/examples/multisig-smart-account/account/src/contract.rs`, mounted
//! unmodified with `#[path]`).
//!
//! Profiles (see checks/reg_smartaccount.py): `sa_auth` = cap2 + bytes32 + vw24 + valdigest + aw96,
//! `sa_auth3` = cap3 + bytes32 + vw24 + valdigest + aw96 + nc12 + nh12.
//!   bytes32: the 32-byte signature payload is handed to the verifier as `Bytes`; Bytes W = 5, Signer W = 7,
//!   Vec<Signer> W = 15 / 22 (<= VW 24), Meta W = 12, ContextRule W = 31 / 39, Context W = 21 / 26;
//!   `can_enforce(context, signers, rule, account)` = 68 / 88 argument words (<= AW 96);
//!   valdigest: `key_data.into_val()` / `sig_data.into_val()` (Bytes of 5 words > 4 payload words of a Val) are
//!   the injective oracle's digests (equal byte strings <-> equal Vals).
//!
//! PRE-STATE (built directly in storage). NR = CAP rule slots; rule j has a symbolic id (pairwise distinct),
//! a symbolic `kind`: 0 = stored but in no list that the call reads (a rule of some other type), 1 = listed in
//! `Ids(type of context 1)`, 2 = listed in `Ids(Default)`, 3 = listed in `Ids(type of context 2)` (two-context
//! harnesses, when the two contexts have different types). Registry invariant assumed (established by C20's
//! harnesses): every listed id has a `Meta` whose `context_type` is the type of its list, and an id is listed
//! once. The lists hold the listed ids in slot order (within one list a lower slot = an older rule; ids are
//! symbolic, so this is no restriction); "newest first" is therefore descending slot order, which is the reverse
//! list order the documentation prescribes ("iteration starts from the last-stored"). `Signers(id)` /
//! `Policies(id)` are present or absent (absent reads as empty, as coded), contents arbitrary within the
//! harness' bounds (duplicates allowed); `valid_until` arbitrary; ledger arbitrary.
//! Signers: `Delegated(any of 5 addresses)` or `External(any of 5 verifier addresses, key of 1 or 2 arbitrary
//! bytes)`; signature data 1 or 2 arbitrary bytes; `Signatures` = a sorted duplicate-free map (the host's map
//! invariant). Verifier and policy contracts are foreign: every answer arbitrary (or a failure) unless pinned.
//!
//! REFERENCE (`reference`): walks the foreign-call log in order. Phase 1: one `verify(payload, key, sig)` per
//! External signer in map order. Phase 2, per context in batch order: candidates = listed, unexpired rules, own
//! type newest-first then Default newest-first; a candidate WITHOUT policies is satisfied iff every one of its
//! signers is among the supplied signers; a candidate WITH policies is asked `can_enforce(context, rule.signers
//! ∩ supplied (rule order), rule, account)` policy by policy until one refuses; the first satisfied candidate is
//! chosen. Phase 3, per context in batch order: `enforce(same four arguments)` once per policy of the chosen
//! rule. Nothing else may be in the log.
use soroban_sdk::auth::{
    Context, ContractContext, ContractExecutable, CreateContractHostFnContext,
    CreateContractWithConstructorHostFnContext, CustomAccountInterface,
};
use soroban_sdk::crypto::Hash;
use soroban_sdk::model::{self, world, ArgBuf, AW, CAP, NADDR, NC};
use soroban_sdk::{Address, Arb, Bytes, BytesN, Env, Flat, IntoVal, Map, String, Symbol, Val, Vec};
use stellar_accounts::smart_account::{
    do_check_auth, ContextRule, ContextRuleType, Meta, Signatures, Signer, SmartAccountStorageKey as Key,
};

use crate::util::*;

#[path = "/repo/examples/multisig-smart-account/account/src/contract.rs"]
pub mod multisig_example;
use multisig_example::MultisigContract;

// ------------------------------------------------------------------------------------------ layout
pub const NR: usize = CAP;
const S_IDS_1: usize = 0; // Ids(type of context 1)
const S_IDS_D: usize = 1; // Ids(Default)
const S_RULE: usize = 2; // + 3 j: Meta(id_j), Signers(id_j), Policies(id_j)
const S_IDS_2: usize = S_RULE + 3 * NR; // Ids(type of context 2) when it differs
const DECLARED_1: usize = S_IDS_2;
const DECLARED_2: usize = S_IDS_2 + 1;

const TRUE_W: u64 = (model::TAG_BOOL << 56) | 1;
const F_VERIFY: u64 = Symbol::of("verify");
const F_CAN: u64 = Symbol::of("can_enforce");
const F_ENFORCE: u64 = Symbol::of("enforce");

// ------------------------------------------------------------------------------------------ universe
fn arb_small_bytes() -> Bytes {
    let x: u8 = kani::any();
    let y: u8 = kani::any();
    if kani::any() {
        Bytes::from_array(&Env, &[x])
    } else {
        Bytes::from_array(&Env, &[x, y])
    }
}
pub fn arb_signer() -> Signer {
    let a = Address::arb();
    if kani::any() {
        Signer::Delegated(a)
    } else {
        Signer::External(a, arb_small_bytes())
    }
}
fn arb_name() -> String {
    String::from(arb_small_bytes())
}
fn arb_rule_type() -> ContextRuleType {
    let k: u8 = kani::any();
    kani::assume(k < 3);
    if k == 0 {
        ContextRuleType::Default
    } else if k == 1 {
        ContextRuleType::CallContract(Address::arb())
    } else {
        ContextRuleType::CreateContract(BytesN::<32>::arb())
    }
}
fn arb_signers(max: u32) -> Vec<Signer> {
    let n: u32 = kani::any();
    kani::assume(n <= max && n as usize <= CAP);
    let mut v = Vec::new(&Env);
    let mut k = 0;
    while k < CAP {
        if (k as u32) < n {
            v.push_back(arb_signer());
        }
        k += 1;
    }
    v
}
fn arb_policies(max: u32) -> Vec<Address> {
    let n: u32 = kani::any();
    kani::assume(n <= max && n as usize <= CAP);
    let mut v = Vec::new(&Env);
    let mut k = 0;
    while k < CAP {
        if (k as u32) < n {
            v.push_back(Address::arb());
        }
        k += 1;
    }
    v
}
/// an arbitrary authorization context (all three variants) and the rule type the code derives from it
fn arb_context() -> (Context, ContextRuleType) {
    let k: u8 = kani::any();
    kani::assume(k < 3);
    if k == 0 {
        let c = Address::arb();
        (
            Context::Contract(ContractContext { contract: c.clone(), fn_name: Symbol::arb(), args: Vec::<Val>::arb() }),
            ContextRuleType::CallContract(c),
        )
    } else {
        let h = BytesN::<32>::arb();
        let salt = BytesN::<32>::arb();
        let cx = if k == 1 {
            Context::CreateContractHostFn(CreateContractHostFnContext { executable: ContractExecutable::Wasm(h.clone()), salt })
        } else {
            Context::CreateContractWithCtorHostFn(CreateContractWithConstructorHostFnContext {
                executable: ContractExecutable::Wasm(h.clone()),
                salt,
                constructor_args: Vec::<Val>::arb(),
            })
        };
        (cx, ContextRuleType::CreateContract(h))
    }
}
fn arb_argbuf() -> ArgBuf {
    let mut a = ArgBuf::new();
    a.n = kani::any();
    let mut i = 0;
    while i < AW {
        a.w[i] = kani::any();
        i += 1;
    }
    a
}

// ------------------------------------------------------------------------------------------ registry
#[derive(Clone)]
pub struct Rule {
    /// 0 unlisted, 1 Ids(type of context 1), 2 Ids(Default), 3 Ids(type of context 2)
    pub kind: u8,
    /// what `get_context_rule(id)` yields for this rule in the pre-state
    pub rule: ContextRule,
}
pub struct Scenario {
    pub payload: Hash<32>,
    pub keys: Vec<Signer>,
    pub sigs: Vec<Bytes>,
    pub account: Address,
    pub n_ctx: usize,
    pub ctx: [Context; 2],
    /// list kind of each context (1, or 3 for a second context of a different type)
    pub ctx_kind: [u8; 2],
    pub rules: [Rule; NR],
}

fn declare_rule(j: usize, t1: &ContextRuleType, t2: &ContextRuleType, max_kind: u8, max_sig: u32, max_pol: u32) -> Rule {
    let kind: u8 = kani::any();
    kani::assume(kind <= max_kind);
    let id: u32 = kani::any();
    let free = arb_rule_type();
    let context_type = if kind == 1 {
        t1.clone()
    } else if kind == 2 {
        ContextRuleType::Default
    } else if kind == 3 {
        t2.clone()
    } else {
        free
    };
    let name = arb_name();
    let valid_until: Option<u32> = Option::<u32>::arb();
    let meta = Meta { name: name.clone(), context_type: context_type.clone(), valid_until };
    // a listed rule has its Meta (registry invariant); an unlisted one may or may not be stored
    let meta_present: bool = kani::any();
    kani::assume(kind == 0 || meta_present);
    model::declare_val(S_RULE + 3 * j, 0, &Key::Meta(id), meta_present, &meta, kani::any());
    let sp: bool = kani::any();
    let stored_signers = arb_signers(max_sig);
    model::declare_val(S_RULE + 3 * j + 1, 0, &Key::Signers(id), sp, &stored_signers, kani::any());
    let pp: bool = kani::any();
    let stored_policies = arb_policies(max_pol);
    model::declare_val(S_RULE + 3 * j + 2, 0, &Key::Policies(id), pp, &stored_policies, kani::any());
    Rule {
        kind,
        rule: ContextRule {
            id,
            context_type,
            name,
            signers: if sp { stored_signers } else { Vec::new(&Env) },
            policies: if pp { stored_policies } else { Vec::new(&Env) },
            valid_until,
        },
    }
}
fn list_of(rules: &[Rule; NR], kind: u8) -> Vec<u32> {
    let mut v = Vec::new(&Env);
    let mut j = 0;
    while j < NR {
        if rules[j].kind == kind {
            v.push_back(rules[j].rule.id);
        }
        j += 1;
    }
    v
}
fn declare_list(slot: usize, ty: &ContextRuleType, ids: &Vec<u32>) {
    // an empty list is absent (never written) or stored empty (after the last removal)
    let present: bool = kani::any();
    kani::assume(present || ids.is_empty());
    model::declare_val(slot, 0, &Key::Ids(ty.clone()), present, ids, kani::any());
}
#[cfg(not(feature = "cap3"))]
fn mk_rules(t1: &ContextRuleType, t2: &ContextRuleType, mk: u8, ms: u32, mp: u32) -> [Rule; NR] {
    let r0 = declare_rule(0, t1, t2, mk, ms, mp);
    let r1 = declare_rule(1, t1, t2, mk, ms, mp);
    kani::assume(r0.rule.id != r1.rule.id);
    [r0, r1]
}
#[cfg(feature = "cap3")]
fn mk_rules(t1: &ContextRuleType, t2: &ContextRuleType, mk: u8, ms: u32, mp: u32) -> [Rule; NR] {
    let r0 = declare_rule(0, t1, t2, mk, ms, mp);
    let r1 = declare_rule(1, t1, t2, mk, ms, mp);
    let r2 = declare_rule(2, t1, t2, mk, ms, mp);
    kani::assume(r0.rule.id != r1.rule.id && r0.rule.id != r2.rule.id && r1.rule.id != r2.rule.id);
    [r0, r1, r2]
}

/// the whole symbolic scenario: ledger, authorization sets, registry, signatures, batch of contexts
pub fn scenario(n_ctx: usize, max_sig: u32, max_pol: u32, max_supplied: u32) -> Scenario {
    setup_world();
    let w = world();
    let mut i = 0;
    while i < NADDR {
        w.auth_args_set[i] = kani::any();
        w.auth_args[i] = arb_argbuf();
        i += 1;
    }
    let account = Address::from_id(w.contract);
    let (c1, t1) = arb_context();
    let (c2, t2x) = if n_ctx == 2 { arb_context() } else { (c1.clone(), t1.clone()) };
    // the second context has the same rule type as the first, or a different one with its own list
    let same = n_ctx == 1 || model_eq(&t1, &t2x);
    let t2 = t2x;
    let max_kind = if n_ctx == 2 && !same { 3 } else { 2 };
    let rules = mk_rules(&t1, &t2, max_kind, max_sig, max_pol);
    declare_list(S_IDS_1, &t1, &list_of(&rules, 1));
    declare_list(S_IDS_D, &ContextRuleType::Default, &list_of(&rules, 2));
    if n_ctx == 2 {
        if same {
            // a plug with a key the call never reads
            model::declare_val(S_IDS_2, 0, &Key::NextId, false, &0u32, 0);
        } else {
            declare_list(S_IDS_2, &t2, &list_of(&rules, 3));
        }
    }
    let keys = arb_signers(max_supplied);
    let mut sigs: Vec<Bytes> = Vec::new(&Env);
    let mut k = 0;
    while k < CAP {
        if (k as u32) < keys.len() {
            sigs.push_back(arb_small_bytes());
        }
        k += 1;
    }
    Scenario {
        payload: Hash::<32>::arb(),
        keys,
        sigs,
        account,
        n_ctx,
        ctx: [c1, c2],
        ctx_kind: [1, if same { 1 } else { 3 }],
        rules,
    }
}
fn model_eq<T: Flat>(a: &T, b: &T) -> bool {
    soroban_sdk::flat_eq(a, b)
}
fn signatures(sc: &Scenario) -> Signatures {
    Signatures(Map::assume_from_parts(sc.keys.clone(), sc.sigs.clone()))
}
fn contexts(sc: &Scenario) -> Vec<Context> {
    let mut v = Vec::new(&Env);
    v.push_back(sc.ctx[0].clone());
    if sc.n_ctx == 2 {
        v.push_back(sc.ctx[1].clone());
    }
    v
}

// ------------------------------------------------------------------------------------------ reference
/// `s` is one of the supplied signers (Rust equality of the library's own type)
fn named(v: &Vec<Signer>, s: &Signer) -> bool {
    let mut r = false;
    let mut k = 0;
    while k < CAP {
        if let Some(x) = v.get(k as u32) {
            if x == *s {
                r = true;
            }
        }
        k += 1;
    }
    r
}
/// the rule's signers that were supplied, in rule order
fn intersect(rule_signers: &Vec<Signer>, supplied: &Vec<Signer>) -> Vec<Signer> {
    let mut out = Vec::new(&Env);
    let mut k = 0;
    while k < CAP {
        if let Some(s) = rule_signers.get(k as u32) {
            if named(supplied, &s) {
                out.push_back(s);
            }
        }
        k += 1;
    }
    out
}
fn unexpired(r: &ContextRule) -> bool {
    match r.valid_until {
        None => true,
        Some(v) => v >= world().seq,
    }
}
/// the p-th logged foreign call is exactly (callee, func, args)
fn call_is(p: u32, callee: &Address, func: u64, args: &ArgBuf) -> bool {
    let w = world();
    let mut r = false;
    let mut i = 0;
    while i < NC {
        if i as u32 == p && p < w.n_calls {
            let c = &w.calls[i];
            r = c.callee == callee.id && c.func == func && c.args.eq(args);
        }
        i += 1;
    }
    r
}
/// the p-th foreign call returns normally with `true` (read from the log, or from the pinned answers)
fn answer_at(p: u32, pinned: bool) -> bool {
    let w = world();
    let mut r = false;
    let mut i = 0;
    while i < NC {
        if i as u32 == p {
            r = if pinned {
                w.preset[i] && !w.preset_failed[i] && w.preset_ret[i][0] == TRUE_W
            } else {
                p < w.n_calls && !w.calls[i].failed && w.calls[i].ret[0] == TRUE_W
            };
        }
        i += 1;
    }
    r
}
fn payload_args(sc: &Scenario) -> ArgBuf {
    let args: Vec<Val> = (sc.payload.clone(),).into_val(&Env);
    let mut a = ArgBuf::new();
    a.push(&args);
    a
}
fn granted(a: &Address, args: &ArgBuf) -> bool {
    let w = world();
    let mut r = false;
    let mut i = 0;
    while i < NADDR {
        if a.id == i as u32 {
            r = w.auth_args_set[i] && w.auth_args[i].eq(args);
        }
        i += 1;
    }
    r
}

pub struct Outcome {
    /// number of External signers supplied
    pub n_ext: u32,
    /// phase 1: the log starts with exactly the expected `verify` calls
    pub verify_trace: bool,
    /// every verifier answered true
    pub verified: bool,
    /// every Delegated signer authorized exactly (payload,) [and it was logged]
    pub delegated: bool,
    /// phase 2: the `can_enforce` calls are exactly the reference's
    pub query_trace: bool,
    /// every context has a chosen (= first satisfied) rule
    pub covered: bool,
    /// phase 3: the `enforce` calls are exactly the chosen rules' policies, and nothing follows
    pub enforce_trace: bool,
    /// slot of the chosen rule per context (NR = none)
    pub chosen: [u32; 2],
    /// the chosen rule was reached after an earlier candidate failed
    pub fell_through: [bool; 2],
}

/// `pinned`: answers come from the pinned presets (before the call; the log is not inspected);
/// otherwise the log of the finished call is matched against the reference.
pub fn reference(sc: &Scenario, pinned: bool) -> Outcome {
    let e = Env;
    let mut p: u32 = 0;
    // ---- phase 1
    let mut verify_trace = true;
    let mut verified = true;
    let mut delegated = true;
    let auth_expected = payload_args(sc);
    let payload_bytes = Bytes::from_array(&e, &sc.payload.to_bytes().to_array());
    let mut k = 0;
    while k < CAP {
        if let (Some(s), Some(sig)) = (sc.keys.get(k as u32), sc.sigs.get(k as u32)) {
            match s {
                Signer::External(v, key) => {
                    if !pinned {
                        let mut a = ArgBuf::new();
                        a.push(&payload_bytes);
                        let kv: Val = key.into_val(&e);
                        let sv: Val = sig.into_val(&e);
                        a.push(&kv);
                        a.push(&sv);
                        verify_trace &= call_is(p, &v, F_VERIFY, &a);
                    }
                    verified &= answer_at(p, pinned);
                    p += 1;
                }
                Signer::Delegated(a) => {
                    delegated &= granted(&a, &auth_expected);
                    if !pinned {
                        delegated &= model::auth_args_count(&a, &auth_expected) >= 1;
                    }
                }
            }
        }
        k += 1;
    }
    let n_ext = p;
    // ---- phase 2
    let mut query_trace = true;
    let mut covered = true;
    let mut chosen = [NR as u32; 2];
    let mut fell_through = [false; 2];
    // argument words of can_enforce / enforce per (context, rule)
    let mut args: [[ArgBuf; NR]; 2] = [[ArgBuf::new(); NR]; 2];
    let mut c = 0;
    while c < sc.n_ctx {
        let mut found = false;
        let mut failed_before = false;
        let mut pass = 0;
        while pass < 2 {
            let want_kind = if pass == 0 { sc.ctx_kind[c] } else { 2 };
            let mut jj = 0;
            while jj < NR {
                let j = NR - 1 - jj; // newest first
                let r = &sc.rules[j];
                if !found && r.kind == want_kind && unexpired(&r.rule) {
                    let inter = intersect(&r.rule.signers, &sc.keys);
                    let mut sat;
                    if r.rule.policies.is_empty() {
                        sat = inter.len() == r.rule.signers.len();
                    } else {
                        if !pinned {
                            let mut a = ArgBuf::new();
                            a.push(&sc.ctx[c]);
                            a.push(&inter);
                            a.push(&r.rule);
                            a.push(&sc.account);
                            args[c][j] = a;
                        }
                        sat = true;
                        let mut q = 0;
                        while q < CAP {
                            if let Some(pol) = r.rule.policies.get(q as u32) {
                                if sat {
                                    if !pinned {
                                        query_trace &= call_is(p, &pol, F_CAN, &args[c][j]);
                                    }
                                    sat = answer_at(p, pinned);
                                    p += 1;
                                }
                            }
                            q += 1;
                        }
                    }
                    if sat {
                        found = true;
                        chosen[c] = j as u32;
                        fell_through[c] = failed_before;
                    } else {
                        failed_before = true;
                    }
                }
                jj += 1;
            }
            pass += 1;
        }
        covered &= found;
        c += 1;
    }
    // ---- phase 3
    let mut enforce_trace = true;
    let mut c = 0;
    while c < sc.n_ctx {
        let mut j = 0;
        while j < NR {
            if chosen[c] == j as u32 {
                let r = &sc.rules[j];
                let mut q = 0;
                while q < CAP {
                    if let Some(pol) = r.rule.policies.get(q as u32) {
                        if !pinned {
                            enforce_trace &= call_is(p, &pol, F_ENFORCE, &args[c][j]);
                        }
                        p += 1;
                    }
                    q += 1;
                }
            }
            j += 1;
        }
        c += 1;
    }
    if !pinned {
        enforce_trace &= p == world().n_calls;
    }
    Outcome { n_ext, verify_trace, verified, delegated, query_trace, covered, enforce_trace, chosen, fell_through }
}

fn run(sc: &Scenario, via_example: bool) {
    let e = Env::default();
    let s = signatures(sc);
    let cx = contexts(sc);
    let r = if via_example {
        <MultisigContract as CustomAccountInterface>::__check_auth(e, sc.payload.clone(), s, cx)
    } else {
        do_check_auth(&e, &sc.payload, &s, &cx)
    };
    // `Err` is a refused authorization: no obligation
    kani::assume(r.is_ok());
}

/// post-conditions of an authorization check that returned Ok
fn soundness(sc: &Scenario, declared: usize) {
    let o = reference(sc, false);
    prop!(o.verify_trace, "C03.check_auth.each_external_signature_sent_to_its_verifier_exactly");
    prop!(o.verified, "C03.check_auth.every_verifier_answered_true");
    prop!(o.delegated, "C03.check_auth.delegated_signers_authorized_the_payload");
    prop!(o.query_trace, "C03.check_auth.rules_tried_in_precedence_order_with_exactly_the_rule_signers_supplied");
    prop!(o.covered, "C03.check_auth.every_context_covered_by_a_live_satisfied_rule");
    prop!(o.enforce_trace, "C03.check_auth.enforce_exactly_once_per_policy_of_the_chosen_rule");
    // storage is only read (TTL extensions aside): no event, no new key
    prop!(model::n_events() == 0, "C03.check_auth.no_event");
    witnesses(sc, &o);
    end_checks(declared);
}
fn witnesses(sc: &Scenario, o: &Outcome) {
    // properties of the rule chosen for context 1 (collected without symbolic indexing)
    let mut ch_kind = 0u8;
    let mut ch_pol = 0u32;
    let mut ch_sig = 0u32;
    let mut ch_inter = 0u32;
    let mut ch_until: Option<u32> = None;
    let mut j = 0;
    while j < NR {
        let r = &sc.rules[j];
        if o.chosen[0] == j as u32 {
            ch_kind = r.kind;
            ch_pol = r.rule.policies.len();
            ch_sig = r.rule.signers.len();
            ch_inter = intersect(&r.rule.signers, &sc.keys).len();
            ch_until = r.rule.valid_until;
        }
        j += 1;
    }
    witness!(ch_kind == 2, "default_rule_chosen");
    witness!(ch_kind == 1, "type_specific_rule_chosen");
    witness!(ch_pol >= 1, "rule_with_policy_chosen");
    witness!(ch_kind != 0 && ch_pol == 0 && ch_sig == 2, "two_signer_rule_without_policy_chosen");
    witness!(o.fell_through[0], "earlier_candidate_failed_first");
    witness!(ch_kind != 0 && ch_until == Some(world().seq), "rule_expiring_now_still_valid");
    witness!(ch_kind != 0 && sc.keys.len() == 2 && ch_inter == 1, "supplied_signer_outside_the_rule");
    witness!(o.n_ext >= 1, "external_signer_supplied");
    witness!(o.n_ext < sc.keys.len(), "delegated_signer_supplied");
    let newer = &sc.rules[NR - 1];
    witness!(o.chosen[0] == 0 && newer.kind == sc.rules[0].kind && !unexpired(&newer.rule), "expired_newer_rule_skipped");
}

/// everything pinned so that the reference accepts; then the call must return Ok
fn converse(sc: &Scenario) {
    // every foreign call returns normally; its boolean answer is arbitrary
    let mut i = 0;
    while i < NC {
        let b: bool = kani::any();
        model::preset_call::<bool>(i, false, &b);
        i += 1;
    }
    let o = reference(sc, true);
    kani::assume(o.verified && o.delegated && o.covered);
    // TTL extension of the entries read must be representable (otherwise the host traps)
    kani::assume(world().seq <= u32::MAX - 40 * 17280);
    world().must_succeed = true;
    let e = Env::default();
    let r = do_check_auth(&e, &sc.payload, &signatures(sc), &contexts(sc));
    prop!(r.is_ok(), "C03.check_auth.accepts_when_signatures_verify_and_a_satisfied_rule_exists");
    world().must_succeed = false;
    witness!(o.n_ext >= 1, "accepted_with_external_signer");
    witness!(o.chosen[0] == 0 && o.fell_through[0], "accepted_by_older_rule_after_refusal");
    witness!(sc.rules[NR - 1].kind == 2 && o.chosen[0] == (NR - 1) as u32, "accepted_by_default_rule");
}

// ------------------------------------------------------------------------------------------ harnesses
/// quick: 1 context, CAP rules, <= 2 signers per rule, <= 1 policy per rule, <= 2 signatures; through the example's __check_auth
#[kani::proof]
#[kani::unwind(98)]
pub fn check_auth_1ctx() {
    let sc = scenario(1, 2, 1, 2);
    run(&sc, true);
    soundness(&sc, DECLARED_1);
}
/// converse of `check_auth_1ctx` (library function directly)
#[kani::proof]
#[kani::unwind(98)]
pub fn check_auth_1ctx_accepts() {
    let sc = scenario(1, 2, 1, 2);
    converse(&sc);
}
/// thorough: as above with <= CAP signers, <= 2 policies per rule, <= CAP signatures
#[kani::proof]
#[kani::unwind(98)]
pub fn check_auth_1ctx_wide() {
    let sc = scenario(1, CAP as u32, 2, CAP as u32);
    run(&sc, false);
    soundness(&sc, DECLARED_1);
}
#[kani::proof]
#[kani::unwind(98)]
pub fn check_auth_1ctx_wide_accepts() {
    let sc = scenario(1, CAP as u32, 2, CAP as u32);
    converse(&sc);
}
/// thorough: a batch of 2 contexts (same or different rule types), <= 2 signers and <= 1 policy per rule
#[kani::proof]
#[kani::unwind(98)]
pub fn check_auth_2ctx() {
    let sc = scenario(2, 2, 1, 2);
    run(&sc, false);
    soundness(&sc, DECLARED_2);
    witness!(sc.ctx_kind[1] == 3, "contexts_of_different_types");
    witness!(sc.ctx_kind[1] == 1, "contexts_of_the_same_type");
}
#[kani::proof]
#[kani::unwind(98)]
pub fn check_auth_2ctx_accepts() {
    let sc = scenario(2, 2, 1, 2);
    converse(&sc);
}
/// thorough (profile sa_auth3, CAP = 3): 1 context, 3 rules, <= 3 signers and <= 2 policies per rule, <= 3 signatures
#[cfg(feature = "cap3")]
#[kani::proof]
#[kani::unwind(98)]
pub fn check_auth_3rules() {
    let sc = scenario(1, 3, 2, 3);
    run(&sc, false);
    soundness(&sc, DECLARED_1);
}
#[cfg(feature = "cap3")]
#[kani::proof]
#[kani::unwind(98)]
pub fn check_auth_3rules_accepts() {
    let sc = scenario(1, 3, 2, 3);
    converse(&sc);
}
