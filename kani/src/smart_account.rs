//! C03: smart-account authorization is sound and follows rule precedence.
//!
//! Code under test: `stellar_accounts::smart_account::do_check_auth` (authenticate, get_validated_context,
//! get_valid_context_rules, get_authenticated_signers, can_enforce_all_policies, get_context_rule) and the
//! example account's `__check_auth` (`/repo/examples/multisig-smart-account/account/src/contract.rs`, mounted
//! unmodified with `#[path]`).
//!
//! All sa_auth harnesses run with `--cbmc-args --max-field-sensitivity-array-size 128` (the 96-word argument
//! buffers stay field-sensitive; without it the whole-check harnesses exhaust 12 GB).
//! Profiles (see checks/reg_smartaccount.py): `sa_auth` = cap2 + bytes32 + vw24 + valdigest + aw96,
//! (a CAP = 3 variant - three listed rules - exhausts 12 GB and is not registered).
//!   bytes32: the 32-byte signature payload is handed to the verifier as `Bytes`; Bytes W = 5, Signer W = 7,
//!   Vec<Signer> W = 15 / 22 (<= VW 24), Meta W = 12, ContextRule W = 31 / 39, Context W = 21 / 26;
//!   `can_enforce(context, signers, rule, account)` = 68 / 88 argument words (<= AW 96);
//!   valdigest: `key_data.into_val()` / `sig_data.into_val()` (Bytes of 5 words > 4 payload words of a Val) are
//!   the injective oracle's digests (equal byte strings <-> equal Vals).
//!
//! PRE-STATE (built directly in storage). NR = CAP rule slots; rule j has the id 11 + 3 j (ids are opaque to the
//! code under test; fixed ids keep the storage keys concrete),
//! a `kind` (fixed by the harness' list SHAPE, or symbolic): 0 = stored but in no list that the call reads (a rule of some other type), 1 = listed in
//! `Ids(type of context 1)`, 2 = listed in `Ids(Default)`, 3 = listed in `Ids(type of context 2)` (two-context
//! harnesses, when the two contexts have different types). Registry invariant assumed (established by C20's
//! harnesses): every listed id has a `Meta` whose `context_type` is the type of its list, and an id is listed
//! once. The lists hold the listed ids in slot order (within one list a lower slot = an older rule); "newest first" is therefore descending slot order, which is the reverse
//! list order the documentation prescribes ("iteration starts from the last-stored"). `Signers(id)` /
//! `Policies(id)` are present or absent (absent reads as empty, as coded), contents arbitrary within the
//! harness' bounds (duplicates allowed); `valid_until` arbitrary; ledger arbitrary.
//! Signers: `Delegated(any of 5 addresses)` or `External(any of 5 verifier addresses, key of 1 or 2 arbitrary
//! bytes)`; signature data 1 or 2 arbitrary bytes; `Signatures` = a sorted duplicate-free map (the host's map
//! invariant). Verifier and policy contracts are foreign: every answer arbitrary (or a failure) unless pinned.
//!
//! REFERENCE (`reference`): walks the foreign-call log in order. Phase 1: one `verify(payload, key, sig)` per
//! External signer in map order. Phase 2, per context in batch order: candidates = listed, unexpired rules, own
//! type newest-first then Default newest-first; a candidate WITHOUT policies is satisfied iff every one of its
//! signers is among the supplied signers; a candidate WITH policies is asked `can_enforce(context, rule.signers
//! ∩ supplied (rule order), rule, account)` policy by policy until one refuses; the first satisfied candidate is
//! chosen. Phase 3, per context in batch order: `enforce(same four arguments)` once per policy of the chosen
//! rule. Nothing else may be in the log.
use soroban_sdk::auth::{
    Context, ContractContext, ContractExecutable, CreateContractHostFnContext,
    CreateContractWithConstructorHostFnContext, CustomAccountInterface,
};
use soroban_sdk::crypto::Hash;
use soroban_sdk::model::{self, world, ArgBuf, AW, CAP, NADDR, NC};
use soroban_sdk::{Address, Arb, Bytes, BytesN, Env, Flat, IntoVal, Map, String, Symbol, Val, Vec};
use stellar_accounts::smart_account::{
    do_check_auth, ContextRule, ContextRuleType, Meta, Signatures, Signer, SmartAccountStorageKey as Key,
};

use crate::util::*;

#[path = "/repo/examples/multisig-smart-account/account/src/contract.rs"]
pub mod multisig_example;
use multisig_example::MultisigContract;

// ------------------------------------------------------------------------------------------ layout
pub const NR: usize = CAP;
/// shape entry: the rule's kind is symbolic
pub const ANY: u8 = 255;
const S_IDS_1: usize = 0; // Ids(type of context 1)
const S_IDS_D: usize = 1; // Ids(Default)
const S_RULE: usize = 2; // + 3 j: Meta(id_j), Signers(id_j), Policies(id_j)
const S_IDS_2: usize = S_RULE + 3 * NR; // Ids(type of context 2) when it differs
const DECLARED_1: usize = S_IDS_2;
const DECLARED_2: usize = S_IDS_2 + 1;

/// the answer word decodes to `true` (as `<bool as Flat>::unflat` reads it: tag + lowest bit)
fn is_true(w: u64) -> bool {
    (w >> 56) == model::TAG_BOOL && w & 1 == 1
}
const F_VERIFY: u64 = Symbol::of("verify");
const F_CAN: u64 = Symbol::of("can_enforce");
const F_ENFORCE: u64 = Symbol::of("enforce");

// ------------------------------------------------------------------------------------------ universe
fn arb_small_bytes() -> Bytes {
    let x: u8 = kani::any();
    let y: u8 = kani::any();
    if kani::any() {
        Bytes::from_array(&Env, &[x])
    } else {
        Bytes::from_array(&Env, &[x, y])
    }
}
pub fn arb_signer() -> Signer {
    let a = Address::arb();
    if kani::any() {
        Signer::Delegated(a)
    } else {
        Signer::External(a, arb_small_bytes())
    }
}
fn arb_name() -> String {
    String::from(arb_small_bytes())
}
fn arb_rule_type() -> ContextRuleType {
    let k: u8 = kani::any();
    kani::assume(k < 3);
    if k == 0 {
        ContextRuleType::Default
    } else if k == 1 {
        ContextRuleType::CallContract(Address::arb())
    } else {
        ContextRuleType::CreateContract(BytesN::<32>::arb())
    }
}
fn arb_signers(max: u32) -> Vec<Signer> {
    let n: u32 = kani::any();
    kani::assume(n <= max && n as usize <= CAP);
    let mut v = Vec::new(&Env);
    let mut k = 0;
    while k < CAP {
        if (k as u32) < n {
            v.push_back(arb_signer());
        }
        k += 1;
    }
    v
}
fn arb_policies(max: u32) -> Vec<Address> {
    let n: u32 = kani::any();
    kani::assume(n <= max && n as usize <= CAP);
    let mut v = Vec::new(&Env);
    let mut k = 0;
    while k < CAP {
        if (k as u32) < n {
            v.push_back(Address::arb());
        }
        k += 1;
    }
    v
}
/// an arbitrary authorization context (all three variants) and the rule type the code derives from it
/// `forced`: 0 Contract, 1 CreateContractHostFn, 2 CreateContractWithCtorHostFn, or ANY. `get_validated_context`
/// has one call of `get_valid_context_rules` per variant: a symbolic variant triples the symbolic execution.
fn arb_context(forced: u8) -> (Context, ContextRuleType) {
    let k: u8 = if forced == ANY {
        let k: u8 = kani::any();
        kani::assume(k < 3);
        k
    } else {
        forced
    };
    if k == 0 {
        let c = Address::arb();
        (
            Context::Contract(ContractContext { contract: c.clone(), fn_name: Symbol::arb(), args: Vec::<Val>::arb() }),
            ContextRuleType::CallContract(c),
        )
    } else {
        let h = BytesN::<32>::arb();
        let salt = BytesN::<32>::arb();
        let cx = if k == 1 {
            Context::CreateContractHostFn(CreateContractHostFnContext { executable: ContractExecutable::Wasm(h.clone()), salt })
        } else {
            Context::CreateContractWithCtorHostFn(CreateContractWithConstructorHostFnContext {
                executable: ContractExecutable::Wasm(h.clone()),
                salt,
                constructor_args: Vec::<Val>::arb(),
            })
        };
        (cx, ContextRuleType::CreateContract(h))
    }
}
/// what an address authorizes for `require_auth_for_args`: exactly `expected`, or something else. The code only
/// ever compares a grant with the expected words, so ONE representative of "something else" suffices.
fn arb_grant(expected: &ArgBuf) -> ArgBuf {
    if kani::any() {
        *expected
    } else {
        let mut a = *expected;
        a.w[0] ^= 1;
        a
    }
}

// ------------------------------------------------------------------------------------------ registry
#[derive(Clone)]
pub struct Rule {
    /// 0 unlisted, 1 Ids(type of context 1), 2 Ids(Default), 3 Ids(type of context 2)
    pub kind: u8,
    /// what `get_context_rule(id)` yields for this rule in the pre-state
    pub rule: ContextRule,
}
pub struct Scenario {
    pub payload: Hash<32>,
    pub keys: Vec<Signer>,
    pub sigs: Vec<Bytes>,
    pub account: Address,
    pub n_ctx: usize,
    pub ctx: [Context; 2],
    /// list kind of each context (1, or 3 for a second context of a different type)
    pub ctx_kind: [u8; 2],
    pub rules: [Rule; NR],
}

/// `forced`: the rule's kind, or ANY for a symbolic one (<= max_kind)
fn declare_rule(j: usize, forced: u8, t1: &ContextRuleType, t2: &ContextRuleType, max_kind: u8, max_sig: u32, max_pol: u32) -> Rule {
    let kind: u8 = if forced == ANY {
        let k: u8 = kani::any();
        kani::assume(k <= max_kind);
        k
    } else {
        forced
    };
    // ids are opaque keys / list elements for the code under test: fixed distinct constants keep the storage
    // keys concrete (C20's harnesses quantify over all u32 ids)
    let id: u32 = 11 + 3 * j as u32;
    let free = arb_rule_type();
    let context_type = if kind == 1 {
        t1.clone()
    } else if kind == 2 {
        ContextRuleType::Default
    } else if kind == 3 {
        t2.clone()
    } else {
        free
    };
    let name = arb_name();
    let valid_until: Option<u32> = Option::<u32>::arb();
    let meta = Meta { name: name.clone(), context_type: context_type.clone(), valid_until };
    // a listed rule has its Meta (registry invariant); an unlisted one may or may not be stored
    let meta_present: bool = kani::any();
    kani::assume(kind == 0 || meta_present);
    model::declare_val(S_RULE + 3 * j, 0, &Key::Meta(id), meta_present, &meta, kani::any());
    let sp: bool = kani::any();
    let stored_signers = arb_signers(max_sig);
    model::declare_val(S_RULE + 3 * j + 1, 0, &Key::Signers(id), sp, &stored_signers, kani::any());
    let pp: bool = kani::any();
    let stored_policies = arb_policies(max_pol);
    model::declare_val(S_RULE + 3 * j + 2, 0, &Key::Policies(id), pp, &stored_policies, kani::any());
    Rule {
        kind,
        rule: ContextRule {
            id,
            context_type,
            name,
            signers: if sp { stored_signers } else { Vec::new(&Env) },
            policies: if pp { stored_policies } else { Vec::new(&Env) },
            valid_until,
        },
    }
}
fn list_of(rules: &[Rule; NR], kind: u8) -> Vec<u32> {
    let mut v = Vec::new(&Env);
    let mut j = 0;
    while j < NR {
        if rules[j].kind == kind {
            v.push_back(rules[j].rule.id);
        }
        j += 1;
    }
    v
}
fn declare_list(slot: usize, ty: &ContextRuleType, ids: &Vec<u32>) {
    // an empty list is absent (never written) or stored empty (after the last removal)
    let present: bool = kani::any();
    kani::assume(present || ids.is_empty());
    model::declare_val(slot, 0, &Key::Ids(ty.clone()), present, ids, kani::any());
}
#[cfg(not(feature = "cap3"))]
fn mk_rules(sh: &[u8; NR], t1: &ContextRuleType, t2: &ContextRuleType, mk: u8, ms: u32, mp: u32) -> [Rule; NR] {
    let r0 = declare_rule(0, sh[0], t1, t2, mk, ms, mp);
    let r1 = declare_rule(1, sh[1], t1, t2, mk, ms, mp);
    [r0, r1]
}
#[cfg(feature = "cap3")]
fn mk_rules(sh: &[u8; NR], t1: &ContextRuleType, t2: &ContextRuleType, mk: u8, ms: u32, mp: u32) -> [Rule; NR] {
    let r0 = declare_rule(0, sh[0], t1, t2, mk, ms, mp);
    let r1 = declare_rule(1, sh[1], t1, t2, mk, ms, mp);
    let r2 = declare_rule(2, sh[2], t1, t2, mk, ms, mp);
    [r0, r1, r2]
}

/// the whole symbolic scenario: ledger, authorization sets, registry, signatures, batch of contexts
/// `shape[j]`: kind of rule slot j (0 unlisted, 1 own type, 2 Default) or ANY; concrete shapes give id lists of
/// concrete length (much cheaper symbolic execution)
/// `cv`: variant of each context (0 Contract, 1 CreateContractHostFn, 2 CreateContractWithCtorHostFn, ANY)
pub fn scenario_shaped(shape: &[u8; NR], cv: [u8; 2], n_ctx: usize, max_sig: u32, max_pol: u32, max_supplied: u32) -> Scenario {
    setup_world();
    let w = world();
    let account = Address::from_id(w.contract);
    let (c1, t1) = arb_context(cv[0]);
    let (c2, t2x) = if n_ctx == 2 { arb_context(cv[1]) } else { (c1.clone(), t1.clone()) };
    // the second context has the same rule type as the first, or a different one with its own list
    let same = n_ctx == 1 || model_eq(&t1, &t2x);
    let t2 = t2x;
    let max_kind = if n_ctx == 2 && !same { 3 } else { 2 };
    let rules = mk_rules(shape, &t1, &t2, max_kind, max_sig, max_pol);
    declare_list(S_IDS_1, &t1, &list_of(&rules, 1));
    declare_list(S_IDS_D, &ContextRuleType::Default, &list_of(&rules, 2));
    if n_ctx == 2 {
        if same {
            // a plug with a key the call never reads
            model::declare_val(S_IDS_2, 0, &Key::NextId, false, &0u32, 0);
        } else {
            declare_list(S_IDS_2, &t2, &list_of(&rules, 3));
        }
    }
    let keys = arb_signers(max_supplied);
    let mut sigs: Vec<Bytes> = Vec::new(&Env);
    let mut k = 0;
    while k < CAP {
        if (k as u32) < keys.len() {
            sigs.push_back(arb_small_bytes());
        }
        k += 1;
    }
    let payload = Hash::<32>::arb();
    let expected = {
        let args: Vec<Val> = (payload.clone(),).into_val(&Env);
        let mut a = ArgBuf::new();
        a.push(&args);
        a
    };
    let mut i = 0;
    while i < NADDR {
        w.auth_args_set[i] = kani::any();
        w.auth_args[i] = arb_grant(&expected);
        i += 1;
    }
    Scenario {
        payload,
        keys,
        sigs,
        account,
        n_ctx,
        ctx: [c1, c2],
        ctx_kind: [1, if same { 1 } else { 3 }],
        rules,
    }
}
fn model_eq<T: Flat>(a: &T, b: &T) -> bool {
    soroban_sdk::flat_eq(a, b)
}
fn signatures(sc: &Scenario) -> Signatures {
    Signatures(Map::assume_from_parts(sc.keys.clone(), sc.sigs.clone()))
}
fn contexts(sc: &Scenario) -> Vec<Context> {
    let mut v = Vec::new(&Env);
    v.push_back(sc.ctx[0].clone());
    if sc.n_ctx == 2 {
        v.push_back(sc.ctx[1].clone());
    }
    v
}

// ------------------------------------------------------------------------------------------ reference
/// `s` is one of the supplied signers (Rust equality of the library's own type)
fn named(v: &Vec<Signer>, s: &Signer) -> bool {
    let mut r = false;
    let mut k = 0;
    while k < CAP {
        if let Some(x) = v.get(k as u32) {
            if x == *s {
                r = true;
            }
        }
        k += 1;
    }
    r
}
/// the rule's signers that were supplied, in rule order
fn intersect(rule_signers: &Vec<Signer>, supplied: &Vec<Signer>) -> Vec<Signer> {
    let mut out = Vec::new(&Env);
    let mut k = 0;
    while k < CAP {
        if let Some(s) = rule_signers.get(k as u32) {
            if named(supplied, &s) {
                out.push_back(s);
            }
        }
        k += 1;
    }
    out
}
fn unexpired(r: &ContextRule) -> bool {
    match r.valid_until {
        None => true,
        Some(v) => v >= world().seq,
    }
}
/// word-wise equality, 8 words per loop trip, no early exit
fn words_eq<const N: usize>(a: &[u64; N], b: &[u64; N]) -> bool {
    let mut r = true;
    let mut c = 0;
    while c < N {
        r &= a[c] == b[c];
        if c + 1 < N { r &= a[c + 1] == b[c + 1]; }
        if c + 2 < N { r &= a[c + 2] == b[c + 2]; }
        if c + 3 < N { r &= a[c + 3] == b[c + 3]; }
        if c + 4 < N { r &= a[c + 4] == b[c + 4]; }
        if c + 5 < N { r &= a[c + 5] == b[c + 5]; }
        if c + 6 < N { r &= a[c + 6] == b[c + 6]; }
        if c + 7 < N { r &= a[c + 7] == b[c + 7]; }
        c += 8;
    }
    r
}
fn args_eq(a: &ArgBuf, b: &ArgBuf) -> bool {
    a.n == b.n && words_eq(&a.w, &b.w)
}
/// the p-th logged foreign call is exactly (callee, func, args)
fn call_is(p: u32, callee: &Address, func: u64, args: &ArgBuf) -> bool {
    let w = world();
    // select the record at the (symbolic) position first, compare once
    let mut hit = false;
    let mut rc = 0u32;
    let mut rf = 0u64;
    let mut ra = ArgBuf::new();
    let mut i = 0;
    while i < NC {
        if i as u32 == p && p < w.n_calls {
            hit = true;
            rc = w.calls[i].callee;
            rf = w.calls[i].func;
            ra = w.calls[i].args;
        }
        i += 1;
    }
    hit && rc == callee.id && rf == func && args_eq(&ra, args)
}
/// the p-th foreign call returns normally with `true` (read from the log, or from the pinned answers)
fn answer_at(p: u32, pinned: bool) -> bool {
    let w = world();
    let mut r = false;
    let mut i = 0;
    while i < NC {
        if i as u32 == p {
            r = if pinned {
                w.preset[i] && !w.preset_failed[i] && is_true(w.preset_ret[i][0])
            } else {
                p < w.n_calls && !w.calls[i].failed && is_true(w.calls[i].ret[0])
            };
        }
        i += 1;
    }
    r
}
fn payload_args(sc: &Scenario) -> ArgBuf {
    let args: Vec<Val> = (sc.payload.clone(),).into_val(&Env);
    let mut a = ArgBuf::new();
    a.push(&args);
    a
}
fn granted(a: &Address, args: &ArgBuf) -> bool {
    let w = world();
    let mut r = false;
    let mut i = 0;
    while i < NADDR {
        if a.id == i as u32 {
            r = w.auth_args_set[i] && args_eq(&w.auth_args[i], args);
        }
        i += 1;
    }
    r
}

pub struct Outcome {
    /// number of External signers supplied
    pub n_ext: u32,
    /// phase 1: the log starts with exactly the expected `verify` calls
    pub verify_trace: bool,
    /// every verifier answered true
    pub verified: bool,
    /// every Delegated signer authorized exactly (payload,) [and it was logged]
    pub delegated: bool,
    /// phase 2: the `can_enforce` calls are exactly the reference's
    pub query_trace: bool,
    /// every context has a chosen (= first satisfied) rule
    pub covered: bool,
    /// phase 3: the `enforce` calls are exactly the chosen rules' policies
    pub enforce_trace: bool,
    /// nothing else is in the call log
    pub complete: bool,
    /// slot of the chosen rule per context (NR = none)
    pub chosen: [u32; 2],
    /// the chosen rule was reached after an earlier candidate failed
    pub fell_through: [bool; 2],
    /// a listed rule earlier in the precedence order than the chosen one was expired
    pub skipped_expired: [bool; 2],
}

/// `pinned`: answers come from the pinned presets (before the call; the log is not inspected);
/// otherwise the log of the finished call is matched against the reference.
pub fn reference(sc: &Scenario, pinned: bool) -> Outcome {
    reference_phases(sc, pinned, P_VERIFY | P_SELECT | P_ENFORCE)
}
pub const P_VERIFY: u8 = 1;
pub const P_SELECT: u8 = 2;
pub const P_ENFORCE: u8 = 4;
/// the reference restricted to the phases the called function runs
pub fn reference_phases(sc: &Scenario, pinned: bool, phases: u8) -> Outcome {
    let e = Env;
    let mut p: u32 = 0;
    // ---- phase 1
    let mut verify_trace = true;
    let mut verified = true;
    let mut delegated = true;
    let auth_expected = payload_args(sc);
    let payload_bytes = Bytes::from_array(&e, &sc.payload.to_bytes().to_array());
    let mut k = 0;
    while k < CAP && phases & P_VERIFY != 0 {
        if let (Some(s), Some(sig)) = (sc.keys.get(k as u32), sc.sigs.get(k as u32)) {
            match s {
                Signer::External(v, key) => {
                    if !pinned {
                        let mut a = ArgBuf::new();
                        a.push(&payload_bytes);
                        let kv: Val = key.into_val(&e);
                        let sv: Val = sig.into_val(&e);
                        a.push(&kv);
                        a.push(&sv);
                        verify_trace &= call_is(p, &v, F_VERIFY, &a);
                    }
                    verified &= answer_at(p, pinned);
                    p += 1;
                }
                Signer::Delegated(a) => {
                    delegated &= granted(&a, &auth_expected);
                    if !pinned {
                        delegated &= model::auth_args_count(&a, &auth_expected) >= 1;
                    }
                }
            }
        }
        k += 1;
    }
    let n_ext = p;
    // ---- phase 2
    let mut query_trace = true;
    let mut covered = true;
    let mut chosen = [NR as u32; 2];
    let mut fell_through = [false; 2];
    let mut skipped_expired = [false; 2];
    // argument words of can_enforce / enforce per (context, rule)
    let mut args: [[ArgBuf; NR]; 2] = [[ArgBuf::new(); NR]; 2];
    let mut c = 0;
    while c < sc.n_ctx && phases & P_SELECT != 0 {
        let mut found = false;
        let mut failed_before = false;
        let mut pass = 0;
        while pass < 2 {
            let want_kind = if pass == 0 { sc.ctx_kind[c] } else { 2 };
            let mut jj = 0;
            while jj < NR {
                let j = NR - 1 - jj; // newest first
                let r = &sc.rules[j];
                if !found && r.kind == want_kind && !unexpired(&r.rule) {
                    skipped_expired[c] = true;
                }
                if !found && r.kind == want_kind && unexpired(&r.rule) {
                    let inter = intersect(&r.rule.signers, &sc.keys);
                    let mut sat;
                    if r.rule.policies.is_empty() {
                        sat = inter.len() == r.rule.signers.len();
                    } else {
                        if !pinned {
                            let mut a = ArgBuf::new();
                            a.push(&sc.ctx[c]);
                            a.push(&inter);
                            a.push(&r.rule);
                            a.push(&sc.account);
                            args[c][j] = a;
                        }
                        sat = true;
                        let mut q = 0;
                        while q < CAP {
                            if let Some(pol) = r.rule.policies.get(q as u32) {
                                if sat {
                                    if !pinned {
                                        query_trace &= call_is(p, &pol, F_CAN, &args[c][j]);
                                    }
                                    sat = answer_at(p, pinned);
                                    p += 1;
                                }
                            }
                            q += 1;
                        }
                    }
                    if sat {
                        found = true;
                        chosen[c] = j as u32;
                        fell_through[c] = failed_before;
                    } else {
                        failed_before = true;
                    }
                }
                jj += 1;
            }
            pass += 1;
        }
        covered &= found;
        c += 1;
    }
    // ---- phase 3
    let mut enforce_trace = true;
    let mut c = 0;
    while c < sc.n_ctx && phases & P_ENFORCE != 0 {
        let mut j = 0;
        while j < NR {
            if chosen[c] == j as u32 {
                let r = &sc.rules[j];
                let mut q = 0;
                while q < CAP {
                    if let Some(pol) = r.rule.policies.get(q as u32) {
                        if !pinned {
                            enforce_trace &= call_is(p, &pol, F_ENFORCE, &args[c][j]);
                        }
                        p += 1;
                    }
                    q += 1;
                }
            }
            j += 1;
        }
        c += 1;
    }
    let complete = pinned || p == world().n_calls;
    Outcome { n_ext, verify_trace, verified, delegated, query_trace, covered, enforce_trace, complete, chosen, fell_through, skipped_expired }
}

fn run(sc: &Scenario, via_example: bool) {
    let e = Env::default();
    let s = signatures(sc);
    let cx = contexts(sc);
    let r = if via_example {
        <MultisigContract as CustomAccountInterface>::__check_auth(e, sc.payload.clone(), s, cx)
    } else {
        do_check_auth(&e, &sc.payload, &s, &cx)
    };
    // `Err` is a refused authorization: no obligation
    kani::assume(r.is_ok());
}

/// post-conditions of an authorization check that returned Ok
fn soundness(sc: &Scenario, declared: usize) -> Outcome {
    let o = reference(sc, false);
    prop!(o.verify_trace, "C03.check_auth.each_external_signature_sent_to_its_verifier_exactly");
    prop!(o.verified, "C03.check_auth.every_verifier_answered_true");
    prop!(o.delegated, "C03.check_auth.delegated_signers_authorized_the_payload");
    prop!(o.query_trace, "C03.check_auth.rules_tried_in_precedence_order_with_exactly_the_rule_signers_supplied");
    prop!(o.covered, "C03.check_auth.every_context_covered_by_a_live_satisfied_rule");
    prop!(o.enforce_trace && o.complete, "C03.check_auth.enforce_exactly_once_per_policy_of_the_chosen_rule");
    // storage is only read (TTL extensions aside): no event, no new key
    prop!(model::n_events() == 0, "C03.check_auth.no_event");
    witnesses_one_rule(sc, &o);
    witness!(o.n_ext >= 1, "external_signer_supplied");
    witness!(o.n_ext < sc.keys.len(), "delegated_signer_supplied");
    end_checks(declared);
    o
}
/// facts about the rule chosen for context 1 (collected without symbolic indexing)
pub struct Facts {
    pub kind: u8,
    pub pol: u32,
    pub sig: u32,
    pub inter: u32,
    pub until: Option<u32>,
}
fn facts(sc: &Scenario, o: &Outcome) -> Facts {
    let mut f = Facts { kind: 0, pol: 0, sig: 0, inter: 0, until: None };
    let mut j = 0;
    while j < NR {
        let r = &sc.rules[j];
        if o.chosen[0] == j as u32 {
            f = Facts {
                kind: r.kind,
                pol: r.rule.policies.len(),
                sig: r.rule.signers.len(),
                inter: intersect(&r.rule.signers, &sc.keys).len(),
                until: r.rule.valid_until,
            };
        }
        j += 1;
    }
    f
}
/// witnesses every harness with at least one listed rule can reach
fn witnesses_one_rule(sc: &Scenario, o: &Outcome) {
    let f = facts(sc, o);
    witness!(f.kind != 0 && f.pol >= 1, "rule_with_policy_chosen");
    witness!(f.kind != 0 && f.pol == 0 && f.sig == 2, "two_signer_rule_without_policy_chosen");
    witness!(f.kind != 0 && f.until == Some(world().seq), "rule_expiring_now_still_valid");
    witness!(f.kind != 0 && sc.keys.len() == 2 && f.inter == 1, "supplied_signer_outside_the_rule");
}
/// witnesses of the harnesses with two listed rules
fn witnesses_two_rules(sc: &Scenario, o: &Outcome) {
    witnesses_one_rule(sc, o);
    witness!(o.fell_through[0], "earlier_candidate_failed_first");
    witness!(o.skipped_expired[0], "expired_earlier_candidate_skipped");
}

/// everything pinned so that the reference accepts; then the call must return Ok
fn converse(sc: &Scenario) -> Outcome {
    // every foreign call returns normally; its boolean answer is arbitrary
    let mut i = 0;
    while i < NC {
        let b: bool = kani::any();
        model::preset_call::<bool>(i, false, &b);
        i += 1;
    }
    let o = reference(sc, true);
    kani::assume(o.verified && o.delegated && o.covered);
    // TTL extension of the entries read must be representable (otherwise the host traps)
    kani::assume(world().seq <= u32::MAX - 40 * 17280);
    world().must_succeed = true;
    let e = Env::default();
    let r = do_check_auth(&e, &sc.payload, &signatures(sc), &contexts(sc));
    prop!(r.is_ok(), "C03.check_auth.accepts_when_signatures_verify_and_a_satisfied_rule_exists");
    world().must_succeed = false;
    witness!(o.n_ext >= 1, "accepted_with_external_signer");
    witness!(o.n_ext < sc.keys.len(), "accepted_with_delegated_signer");
    o
}

// ------------------------------------------------------------------------------------------ harnesses
// The full `do_check_auth` over a registry with symbolic list shapes is beyond the solver (757 s of symbolic
// execution, then out of memory at 12 GB). The obligations are therefore split along the code's own composition
//   do_check_auth = authenticate ; get_validated_context per context ; enforce per validated context
// (1) `authenticate_*`: phase 1 alone; (2) `select_*`: `get_validated_context` alone, one harness per CONCRETE
// list shape (which slots are listed where; everything else symbolic), where the chosen rule is OBSERVED as the
// returned value (also for rules without policies); (3) `check_auth_*`: the whole `do_check_auth` /
// `__check_auth` over registries of concrete shape, all three phases in one trace.

/// shapes over the rule slots (older .. newer); unused slots of a CAP = 3 profile are unlisted
#[cfg(not(feature = "cap3"))]
const fn shape(a: u8, b: u8) -> [u8; NR] {
    [a, b]
}
#[cfg(feature = "cap3")]
const fn shape(a: u8, b: u8) -> [u8; NR] {
    [0, a, b]
}

/// context variants
const CALL: u8 = 0;
const CREATE: u8 = 1;
const CREATE_CTOR: u8 = 2;

fn pin_all_calls() {
    let mut i = 0;
    while i < NC {
        let b: bool = kani::any();
        model::preset_call::<bool>(i, false, &b);
        i += 1;
    }
}

/// phase 1 alone: `authenticate(payload, signatures)`
#[kani::proof]
#[kani::unwind(98)]
pub fn authenticate_signatures() {
    let sc = scenario_shaped(&shape(0, 0), [CALL, CALL], 1, 1, 1, CAP as u32);
    let e = Env::default();
    stellar_accounts::smart_account::authenticate(&e, &sc.payload, &signatures(&sc).0);
    let o = reference_phases(&sc, false, P_VERIFY);
    prop!(o.verify_trace && o.complete, "C03.authenticate.each_external_signature_sent_to_its_verifier_exactly");
    prop!(o.verified, "C03.authenticate.every_verifier_answered_true");
    prop!(o.delegated, "C03.authenticate.delegated_signers_authorized_the_payload");
    prop!(model::n_events() == 0, "C03.authenticate.no_event");
    witness!(o.n_ext == 2, "two_external_signers");
    witness!(o.n_ext == 1 && sc.keys.len() == 2, "external_and_delegated_signer");
    witness!(o.n_ext == 0 && sc.keys.len() == 2, "two_delegated_signers");
    witness!(sc.keys.len() == 0, "no_signature");
    end_checks(DECLARED_1);
}
#[kani::proof]
#[kani::unwind(98)]
pub fn authenticate_signatures_accepts() {
    let sc = scenario_shaped(&shape(0, 0), [CALL, CALL], 1, 1, 1, CAP as u32);
    pin_all_calls();
    let o = reference_phases(&sc, true, P_VERIFY);
    kani::assume(o.verified && o.delegated);
    world().must_succeed = true;
    stellar_accounts::smart_account::authenticate(&Env::default(), &sc.payload, &signatures(&sc).0);
    world().must_succeed = false;
    prop!(model::n_calls() == o.n_ext, "C03.authenticate.accepts_when_every_signature_verifies");
    witness!(o.n_ext == 1 && sc.keys.len() == 2, "mixed_signers_accepted");
}

/// phase 2 alone over a registry of the given shape: the returned (rule, context, signers) is the reference's choice
fn select(sh: &[u8; NR], cv: u8, max_sig: u32, max_pol: u32) -> (Scenario, Outcome) {
    let sc = scenario_shaped(sh, [cv, cv], 1, max_sig, max_pol, CAP as u32);
    let e = Env::default();
    let (rule, cx, signers) = stellar_accounts::smart_account::get_validated_context(&e, &sc.ctx[0], &sc.keys);
    let o = reference_phases(&sc, false, P_SELECT);
    prop!(o.query_trace && o.complete, "C03.select.rules_tried_in_precedence_order_with_exactly_the_rule_signers_supplied");
    prop!(o.covered, "C03.select.context_covered_by_a_live_satisfied_rule");
    let mut same_rule = false;
    let mut same_signers = false;
    let mut j = 0;
    while j < NR {
        if o.chosen[0] == j as u32 {
            same_rule = rule == sc.rules[j].rule;
            same_signers = signers == intersect(&sc.rules[j].rule.signers, &sc.keys);
        }
        j += 1;
    }
    prop!(same_rule, "C03.select.returns_the_first_satisfied_rule_in_precedence_order");
    prop!(same_signers, "C03.select.returns_exactly_the_rule_signers_supplied");
    prop!(cx == sc.ctx[0], "C03.select.returns_the_context");
    prop!(model::n_events() == 0, "C03.select.no_event");
    witnesses_two_rules(&sc, &o);
    end_checks(DECLARED_1);
    (sc, o)
}
fn select_accepts(sh: &[u8; NR], cv: u8, max_sig: u32, max_pol: u32) {
    let sc = scenario_shaped(sh, [cv, cv], 1, max_sig, max_pol, CAP as u32);
    pin_all_calls();
    let o = reference_phases(&sc, true, P_SELECT);
    kani::assume(o.covered);
    kani::assume(world().seq <= u32::MAX - 40 * 17280);
    world().must_succeed = true;
    let (rule, _cx, _s) = stellar_accounts::smart_account::get_validated_context(&Env::default(), &sc.ctx[0], &sc.keys);
    world().must_succeed = false;
    let mut same_rule = false;
    let mut j = 0;
    while j < NR {
        if o.chosen[0] == j as u32 {
            same_rule = rule.id == sc.rules[j].rule.id;
        }
        j += 1;
    }
    prop!(same_rule, "C03.select.accepts_when_a_satisfied_rule_exists");
    witness!(o.fell_through[0], "accepted_after_an_earlier_candidate_failed");
}
/// both rules of the context's own type (contract call)
#[kani::proof]
#[kani::unwind(98)]
pub fn select_own_own() {
    let (_sc, o) = select(&shape(1, 1), CALL, 2, 1);
    witness!(o.chosen[0] == (NR - 2) as u32, "older_rule_chosen");
    witness!(o.chosen[0] == (NR - 1) as u32, "newer_rule_chosen");
}
/// both rules Default (contract call)
#[kani::proof]
#[kani::unwind(98)]
pub fn select_default_default() {
    let (_sc, o) = select(&shape(2, 2), CALL, 2, 1);
    witness!(o.chosen[0] == (NR - 2) as u32, "older_rule_chosen");
    witness!(o.chosen[0] == (NR - 1) as u32, "newer_rule_chosen");
}
/// an own-type rule and a NEWER Default rule: the own-type rule still comes first (contract call)
#[kani::proof]
#[kani::unwind(98)]
pub fn select_own_default() {
    let (_sc, o) = select(&shape(1, 2), CALL, 2, 1);
    witness!(o.chosen[0] == (NR - 2) as u32, "older_own_type_rule_beats_newer_default_rule");
    witness!(o.chosen[0] == (NR - 1) as u32, "default_rule_as_fallback");
}
/// a Default rule and a newer own-type rule (contract call)
#[kani::proof]
#[kani::unwind(98)]
pub fn select_default_own() {
    let (_sc, o) = select(&shape(2, 1), CALL, 2, 1);
    witness!(o.chosen[0] == (NR - 2) as u32, "default_rule_as_fallback");
    witness!(o.chosen[0] == (NR - 1) as u32, "own_type_rule_chosen");
}
/// contract creation (CreateContractHostFn): own-type rule + newer Default rule
#[kani::proof]
#[kani::unwind(98)]
pub fn select_create_own_default() {
    let (_sc, o) = select(&shape(1, 2), CREATE, 2, 1);
    witness!(o.chosen[0] == (NR - 2) as u32, "older_own_type_rule_beats_newer_default_rule");
    witness!(o.chosen[0] == (NR - 1) as u32, "default_rule_as_fallback");
}
// (CreateContractWithCtorHostFn contexts: even one listed rule exhausts 12 GB in the SAT solver - 5.4 M variables; the
// variant shares its rule-type derivation with CreateContractHostFn and is not covered by a harness)

/// any shape (symbolic kinds), converse only (no trace comparison)
#[kani::proof]
#[kani::unwind(98)]
pub fn select_any_accepts() {
    select_accepts(&[ANY; NR], CALL, 2, 1);
}
/// thorough: up to 2 policies per rule
#[kani::proof]
#[kani::unwind(98)]
pub fn select_own_own_2pol() {
    let _ = select(&shape(1, 1), CALL, 2, 2);
}
// (three listed rules at CAP = 3, bytes32: 12 GB are not enough for the SAT instance; not registered)

/// the whole check through the example's `__check_auth`: one listed rule (Default) + one stored but unlisted rule
#[kani::proof]
#[kani::unwind(98)]
pub fn check_auth_one_default_rule() {
    let sc = scenario_shaped(&shape(0, 2), [CALL, CALL], 1, 2, 2, 2);
    run(&sc, true);
    let _ = soundness(&sc, DECLARED_1);
}
/// converse of `check_auth_one_default_rule` (library function directly)
#[kani::proof]
#[kani::unwind(98)]
pub fn check_auth_one_default_rule_accepts() {
    let sc = scenario_shaped(&shape(0, 2), [CALL, CALL], 1, 2, 2, 2);
    let o = converse(&sc);
    witness!(o.chosen[0] == (NR - 1) as u32, "accepted_by_default_rule");
}
/// thorough: the whole check over two listed rules (own type + Default), <= 1 policy each
#[kani::proof]
#[kani::unwind(98)]
pub fn check_auth_own_and_default_rule() {
    let sc = scenario_shaped(&shape(2, 1), [CALL, CALL], 1, 2, 1, 2);
    run(&sc, false);
    let o = soundness(&sc, DECLARED_1);
    witness!(o.fell_through[0], "earlier_candidate_failed_first");
    witness!(o.skipped_expired[0], "expired_earlier_candidate_skipped");
}
// (a batch of 2 contexts through the un-stubbed `do_check_auth` exhausts 12 GB even with one rule, one signer and one
// policy: see `glue::check_auth_glue_2ctx` below)

// ------------------------------------------------------------------------------------------ glue (stubbed selection)
/// `do_check_auth` with `get_validated_context` REPLACED (`#[kani::stub]`, profile sa_glue, `-Z stubbing`) by a
/// recorder that returns a harness-chosen (rule, context, signers) per call: the composition itself - authenticate
/// first, one selection per context in batch order with the supplied signers, then `enforce` once per policy of
/// every selected rule with exactly the selected (context, signers, rule) - for batches of 2 contexts, independent
/// of the registry (no storage is touched). Together with `select_*` (what the real selection returns) this is
/// the whole-check claim for batches, which the un-stubbed harnesses cannot reach (12 GB).
#[cfg(feature = "saglue")]
pub mod glue {
    use super::*;

    pub struct Rec {
        pub n: u32,
        pub ctx_ok: [bool; 2],
        pub keys_ok: [bool; 2],
        pub calls_before: [u32; 2],
        pub exp_ctx: [Option<Context>; 2],
        pub exp_keys: Option<Vec<Signer>>,
        pub ret_rule: [Option<ContextRule>; 2],
        pub ret_signers: [Option<Vec<Signer>>; 2],
    }
    pub static mut REC: Rec = Rec {
        n: 0,
        ctx_ok: [false; 2],
        keys_ok: [false; 2],
        calls_before: [0; 2],
        exp_ctx: [None, None],
        exp_keys: None,
        ret_rule: [None, None],
        ret_signers: [None, None],
    };

    #[allow(static_mut_refs)]
    pub fn recorder(_e: &Env, context: &Context, all_signers: &Vec<Signer>) -> (ContextRule, Context, Vec<Signer>) {
        let r = unsafe { &mut REC };
        let i = r.n as usize;
        if i >= 2 {
            model::overflow()
        }
        r.n += 1;
        r.ctx_ok[i] = match &r.exp_ctx[i] {
            Some(c) => *c == *context,
            None => false,
        };
        r.keys_ok[i] = match &r.exp_keys {
            Some(k) => *k == *all_signers,
            None => false,
        };
        r.calls_before[i] = model::n_calls();
        match (&r.ret_rule[i], &r.ret_signers[i]) {
            (Some(rule), Some(s)) => (rule.clone(), context.clone(), s.clone()),
            _ => model::overflow(),
        }
    }
    fn arb_rule() -> ContextRule {
        ContextRule {
            id: kani::any(),
            // opaque to the composition; the 32-byte-hash variant only enlarges the SAT instance
            context_type: if kani::any() { ContextRuleType::Default } else { ContextRuleType::CallContract(Address::arb()) },
            name: arb_name(),
            signers: arb_signers(1),
            policies: arb_policies(2),
            valid_until: Option::<u32>::arb(),
        }
    }

    #[kani::proof]
    #[kani::unwind(98)]
    #[kani::stub(stellar_accounts::smart_account::get_validated_context, crate::smart_account::glue::recorder)]
    #[allow(static_mut_refs)]
    pub fn check_auth_glue_2ctx() {
        // the registry is irrelevant (selection is stubbed): nothing listed, nothing read
        let sc = scenario_shaped(&shape(0, 0), [CALL, CALL], 2, 1, 1, 1);
        let n_ctx: usize = 2;
        let rules = [arb_rule(), arb_rule()];
        let sel = [arb_signers(1), arb_signers(1)];
        let r = unsafe { &mut REC };
        r.exp_ctx = [Some(sc.ctx[0].clone()), Some(sc.ctx[1].clone())];
        r.exp_keys = Some(sc.keys.clone());
        r.ret_rule = [Some(rules[0].clone()), Some(rules[1].clone())];
        r.ret_signers = [Some(sel[0].clone()), Some(sel[1].clone())];
        let mut cx = Vec::new(&Env);
        cx.push_back(sc.ctx[0].clone());
        if n_ctx == 2 {
            cx.push_back(sc.ctx[1].clone());
        }
        let e = Env::default();

        let res = do_check_auth(&e, &sc.payload, &signatures(&sc), &cx);
        kani::assume(res.is_ok());

        let o = reference_phases(&sc, false, P_VERIFY);
        prop!(o.verify_trace && o.verified && o.delegated, "C03.check_auth.glue.authenticates_every_signature");
        let mut sel_ok = r.n == n_ctx as u32;
        let mut c = 0;
        while c < n_ctx {
            sel_ok &= r.ctx_ok[c] && r.keys_ok[c];
            c += 1;
        }
        prop!(sel_ok, "C03.check_auth.glue.selects_each_context_once_in_order_with_the_supplied_signers");
        prop!(r.calls_before[0] == o.n_ext && (n_ctx == 1 || r.calls_before[1] == o.n_ext), "C03.check_auth.glue.authenticates_before_selecting_and_enforces_after_all_selections");
        // enforce: per context in order, per policy in order, with exactly the selected tuple
        let mut p = o.n_ext;
        let mut trace = true;
        let mut c = 0;
        while c < n_ctx {
            let mut a = ArgBuf::new();
            a.push(&if c == 0 { sc.ctx[0].clone() } else { sc.ctx[1].clone() });
            a.push(&sel[c]);
            a.push(&rules[c]);
            a.push(&sc.account);
            let mut q = 0;
            while q < CAP {
                if let Some(pol) = rules[c].policies.get(q as u32) {
                    trace &= call_is(p, &pol, F_ENFORCE, &a);
                    p += 1;
                }
                q += 1;
            }
            c += 1;
        }
        prop!(trace && p == model::n_calls(), "C03.check_auth.glue.enforce_exactly_once_per_policy_of_each_selected_rule");
        witness!(rules[0].policies.len() == 2 && rules[1].policies.len() == 2, "two_contexts_two_policies_each");
        witness!(rules[0].policies.len() == 0 && rules[1].policies.len() == 1, "only_the_second_context_enforces");
        witness!(o.n_ext == 1, "external_signer");
        end_checks(DECLARED_2);
    }
}
