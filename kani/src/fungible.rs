//! C01 / C02: fungible base token (stellar_tokens::fungible::Base), one inductive step from an
//! arbitrary stored pre-state.
use soroban_sdk::model::{self, world};
use soroban_sdk::{Address, Env, MuxedAddress};
use stellar_tokens::fungible::{
    AllowanceData, AllowanceKey, Approve, Base, FungibleStorageKey, Mint, Transfer,
};

use crate::util::*;

pub const NA: usize = 4; // tracked accounts: ids 0..NA
pub const S_SUPPLY: usize = NA;
pub const S_ALLOW: usize = NA + 1;
pub const DECLARED: usize = NA + 2;

pub struct Pre {
    pub bal: [i128; NA],
    pub supply: i128,
    pub rest: i128,
}

/// slots 0..NA: Balance(account i) present/absent with any non-negative value;
/// slot NA: TotalSupply; ghost `rest` = sum of all untracked balances.
/// Representation invariant I: all >= 0 and sum(tracked) + rest == supply (no overflow).
pub fn declare_balances() -> Pre {
    let seq = world().seq;
    let mut bal = [0i128; NA];
    let mut sum: i128 = 0;
    let mut i = 0;
    while i < NA {
        let present: bool = kani::any();
        let v: i128 = kani::any();
        kani::assume(v >= 0);
        let lu: u32 = kani::any();
        kani::assume(lu >= seq);
        model::declare_val(i, 0, &FungibleStorageKey::Balance(Address::from_id(i as u32)), present, &v, lu);
        bal[i] = if present { v } else { 0 };
        match sum.checked_add(bal[i]) {
            Some(s) => sum = s,
            None => kani::assume(false),
        }
        i += 1;
    }
    let rest: i128 = kani::any();
    kani::assume(rest >= 0);
    let supply = match sum.checked_add(rest) {
        Some(s) => s,
        None => {
            kani::assume(false);
            0
        }
    };
    let sp: bool = kani::any();
    kani::assume(sp || supply == 0);
    model::declare_val(S_SUPPLY, 2, &FungibleStorageKey::TotalSupply, sp, &supply, 0);
    Pre { bal, supply, rest }
}
pub fn bal_now(a: &Address) -> i128 {
    let mut r = 0;
    let mut i = 0;
    while i < NA {
        if a.id == i as u32 {
            let s = model::slot(i);
            r = if s.present { model::slot_val::<i128>(i) } else { 0 };
        }
        i += 1;
    }
    r
}
pub fn bal_pre(p: &Pre, a: &Address) -> i128 {
    let mut r = 0;
    let mut i = 0;
    while i < NA {
        if a.id == i as u32 {
            r = p.bal[i];
        }
        i += 1;
    }
    r
}
pub fn supply_now() -> i128 {
    let s = model::slot(S_SUPPLY);
    if s.present {
        model::slot_val::<i128>(S_SUPPLY)
    } else {
        0
    }
}

pub struct AllowPre {
    pub owner: Address,
    pub spender: Address,
    pub present: bool,
    pub data_amount: i128,
    pub data_live_until: u32,
    pub entry_live_until: u32,
}
/// slot S_ALLOW: Allowance(owner, spender) with symbolic contents and symbolic storage TTL
pub fn declare_allowance(owner: &Address, spender: &Address) -> AllowPre {
    let present: bool = kani::any();
    let amount: i128 = kani::any();
    kani::assume(amount >= 0);
    let lul: u32 = kani::any();
    let entry: u32 = kani::any();
    let key = FungibleStorageKey::Allowance(AllowanceKey { owner: owner.clone(), spender: spender.clone() });
    model::declare_val(S_ALLOW, 1, &key, present, &AllowanceData { amount, live_until_ledger: lul }, entry);
    AllowPre { owner: owner.clone(), spender: spender.clone(), present, data_amount: amount, data_live_until: lul, entry_live_until: entry }
}
/// what `allowance(owner, spender)` is worth in the pre-state, by definition
pub fn allowance_worth(a: &AllowPre) -> i128 {
    let seq = world().seq;
    if a.present && a.entry_live_until >= seq && a.data_live_until >= seq {
        a.data_amount
    } else {
        0
    }
}

#[kani::proof]
#[kani::unwind(18)]
pub fn c01_transfer() {
    setup_world();
    let e = Env::default();
    let pre = declare_balances();
    let from = addr_below(3);
    let to = addr_below(3);
    let by = addr_below(3);
    kani::assume(by != from && by != to);
    let mux: Option<u64> = kani::any();
    let amount: i128 = kani::any();
    let by_slot = model::slot(by.id as usize % NA);
    let to_m = MuxedAddress { addr: to.clone(), mux };

    Base::transfer(&e, &from, &to_m, amount);

    prop!(authorized(&from), "C02.transfer.from_authorized");
    prop!(amount >= 0, "C01.transfer.amount_nonneg");
    prop!(bal_pre(&pre, &from) >= amount, "C01.transfer.sufficient_balance");
    if from != to {
        prop!(bal_now(&from) == bal_pre(&pre, &from) - amount, "C01.transfer.from_debited_exactly");
        prop!(bal_now(&to) == bal_pre(&pre, &to) + amount, "C01.transfer.to_credited_exactly");
    } else {
        prop!(bal_now(&from) == bal_pre(&pre, &from), "C01.transfer.self_transfer_neutral");
    }
    prop!(bal_now(&from) >= 0 && bal_now(&to) >= 0, "C01.transfer.nonneg");
    prop!(bal_now(&by) == bal_pre(&pre, &by), "C01.transfer.bystander_unchanged");
    prop!(supply_now() == pre.supply, "C01.transfer.supply_unchanged");
    let ev = Transfer { from: from.clone(), to: to.clone(), to_muxed_id: mux, amount };
    prop!(model::n_events() == 1 && model::event_is(0, Transfer::EVENT_ID, &ev.event_words()), "C01.transfer.one_exact_event");
    witness!(amount > 0 && from != to, "transfer.moves");
    witness!(from == to && amount > 0, "transfer.self");
    let _ = by_slot;
    end_checks(DECLARED);
}

/// post-state worth of the declared allowance slot at the current ledger
pub fn allowance_worth_now() -> i128 {
    let seq = world().seq;
    let s = model::slot(S_ALLOW);
    if s.present && s.live_until >= seq {
        let d: AllowanceData = model::slot_val(S_ALLOW);
        if d.live_until_ledger >= seq {
            d.amount
        } else {
            0
        }
    } else {
        0
    }
}

fn spend_post(al: &AllowPre, spender: &Address, amount: i128, pre_slot: &model::Slot) {
    prop!(authorized(spender), "C02.spend.spender_authorized");
    prop!(amount >= 0, "C02.spend.amount_nonneg");
    prop!(allowance_worth(al) >= amount, "C02.spend.allowance_live_and_sufficient");
    prop!(allowance_worth_now() == allowance_worth(al) - amount, "C02.spend.allowance_drops_by_exactly_amount");
    if amount > 0 {
        let d: AllowanceData = model::slot_val(S_ALLOW);
        prop!(d.live_until_ledger == al.data_live_until, "C02.spend.expiry_kept");
    } else {
        prop!(model::slots_equal(&model::slot(S_ALLOW), pre_slot), "C02.spend.zero_amount_leaves_allowance_entry");
    }
}

#[kani::proof]
#[kani::unwind(18)]
pub fn c01_transfer_from() {
    setup_world();
    let e = Env::default();
    let pre = declare_balances();
    let spender = addr_below(4);
    let from = addr_below(4);
    let to = addr_below(4);
    let by = addr_below(4);
    kani::assume(by != from && by != to);
    let al = declare_allowance(&from, &spender);
    let pre_al_slot = model::slot(S_ALLOW);
    let amount: i128 = kani::any();

    Base::transfer_from(&e, &spender, &from, &to, amount);

    spend_post(&al, &spender, amount, &pre_al_slot);
    prop!(bal_pre(&pre, &from) >= amount, "C01.transfer_from.sufficient_balance");
    if from != to {
        prop!(bal_now(&from) == bal_pre(&pre, &from) - amount, "C01.transfer_from.from_debited_exactly");
        prop!(bal_now(&to) == bal_pre(&pre, &to) + amount, "C01.transfer_from.to_credited_exactly");
    } else {
        prop!(bal_now(&from) == bal_pre(&pre, &from), "C01.transfer_from.self_transfer_neutral");
    }
    prop!(bal_now(&by) == bal_pre(&pre, &by), "C01.transfer_from.bystander_unchanged");
    prop!(supply_now() == pre.supply, "C01.transfer_from.supply_unchanged");
    let ev = Transfer { from: from.clone(), to: to.clone(), to_muxed_id: None, amount };
    prop!(model::n_events() == 1 && model::event_is(0, Transfer::EVENT_ID, &ev.event_words()), "C01.transfer_from.one_exact_event");
    witness!(amount > 0 && from != to && spender != from, "transfer_from.moves");
    witness!(amount > 0 && allowance_worth_now() > 0, "transfer_from.partial_spend");
    end_checks(DECLARED);
}

#[kani::proof]
#[kani::unwind(18)]
pub fn c01_mint() {
    setup_world();
    let e = Env::default();
    let pre = declare_balances();
    let to = addr_below(3);
    let by = addr_below(3);
    kani::assume(by != to);
    let amount: i128 = kani::any();

    Base::mint(&e, &to, amount);

    prop!(amount >= 0, "C01.mint.amount_nonneg");
    prop!(pre.supply.checked_add(amount).is_some() && supply_now() == pre.supply + amount, "C01.mint.supply_plus_amount");
    prop!(bal_now(&to) == bal_pre(&pre, &to) + amount, "C01.mint.to_credited_exactly");
    prop!(bal_now(&by) == bal_pre(&pre, &by), "C01.mint.bystander_unchanged");
    let ev = Mint { to: to.clone(), amount };
    prop!(model::n_events() == 1 && model::event_is(0, Mint::EVENT_ID, &ev.event_words()), "C01.mint.one_exact_event");
    witness!(amount > 0, "mint.positive");
    end_checks(DECLARED);
}

#[kani::proof]
#[kani::unwind(18)]
pub fn c01_burn() {
    use stellar_tokens::fungible::burnable::Burn;
    setup_world();
    let e = Env::default();
    let pre = declare_balances();
    let from = addr_below(3);
    let by = addr_below(3);
    kani::assume(by != from);
    let amount: i128 = kani::any();

    Base::burn(&e, &from, amount);

    prop!(authorized(&from), "C02.burn.from_authorized");
    prop!(amount >= 0, "C01.burn.amount_nonneg");
    prop!(bal_pre(&pre, &from) >= amount, "C01.burn.sufficient_balance");
    prop!(bal_now(&from) == bal_pre(&pre, &from) - amount, "C01.burn.from_debited_exactly");
    prop!(supply_now() == pre.supply - amount && supply_now() >= 0, "C01.burn.supply_minus_amount");
    prop!(bal_now(&by) == bal_pre(&pre, &by), "C01.burn.bystander_unchanged");
    let ev = Burn { from: from.clone(), amount };
    prop!(model::n_events() == 1 && model::event_is(0, Burn::EVENT_ID, &ev.event_words()), "C01.burn.one_exact_event");
    witness!(amount > 0, "burn.positive");
    end_checks(DECLARED);
}

#[kani::proof]
#[kani::unwind(18)]
pub fn c01_burn_from() {
    use stellar_tokens::fungible::burnable::Burn;
    setup_world();
    let e = Env::default();
    let pre = declare_balances();
    let spender = addr_below(3);
    let from = addr_below(3);
    let by = addr_below(3);
    kani::assume(by != from);
    let al = declare_allowance(&from, &spender);
    let pre_al_slot = model::slot(S_ALLOW);
    let amount: i128 = kani::any();

    Base::burn_from(&e, &spender, &from, amount);

    spend_post(&al, &spender, amount, &pre_al_slot);
    prop!(bal_pre(&pre, &from) >= amount, "C01.burn_from.sufficient_balance");
    prop!(bal_now(&from) == bal_pre(&pre, &from) - amount, "C01.burn_from.from_debited_exactly");
    prop!(supply_now() == pre.supply - amount && supply_now() >= 0, "C01.burn_from.supply_minus_amount");
    prop!(bal_now(&by) == bal_pre(&pre, &by), "C01.burn_from.bystander_unchanged");
    let ev = Burn { from: from.clone(), amount };
    prop!(model::n_events() == 1 && model::event_is(0, Burn::EVENT_ID, &ev.event_words()), "C01.burn_from.one_exact_event");
    witness!(amount > 0 && spender != from, "burn_from.positive");
    end_checks(DECLARED);
}

/// approve, then read the allowance at an arbitrary later ledger
#[kani::proof]
#[kani::unwind(18)]
pub fn c02_approve_then_read() {
    setup_world();
    let e = Env::default();
    let owner = addr_below(3);
    let spender = addr_below(3);
    // only the allowance key is declared (at slot 0): any other write would be flagged
    let present: bool = kani::any();
    let a0: i128 = kani::any();
    kani::assume(a0 >= 0);
    let key = FungibleStorageKey::Allowance(AllowanceKey { owner: owner.clone(), spender: spender.clone() });
    model::declare_val(0, 1, &key, present, &AllowanceData { amount: a0, live_until_ledger: kani::any() }, kani::any());
    let amount: i128 = kani::any();
    let live_until: u32 = kani::any();
    let seq = world().seq;
    let max_live = e.ledger().max_live_until_ledger();

    Base::approve(&e, &owner, &spender, amount, live_until);

    prop!(authorized(&owner), "C02.approve.owner_authorized");
    prop!(amount >= 0, "C02.approve.amount_nonneg");
    prop!(live_until <= max_live && (amount == 0 || live_until >= seq), "C02.approve.expiry_in_range");
    let d: AllowanceData = model::slot_val(0);
    prop!(model::slot(0).present && d.amount == amount && d.live_until_ledger == live_until, "C02.approve.stored_exactly");
    let ev = Approve { owner: owner.clone(), spender: spender.clone(), amount, live_until_ledger: live_until };
    prop!(model::n_events() == 1 && model::event_is(0, Approve::EVENT_ID, &ev.event_words()), "C02.approve.one_exact_event");
    // time passes
    let seq2: u32 = kani::any();
    kani::assume(seq2 >= seq);
    world().seq = seq2;
    let r = Base::allowance(&e, &owner, &spender);
    prop!(r == 0 || r == amount, "C02.approve.never_more_than_approved");
    prop!(seq2 <= live_until || r == 0, "C02.approve.worth_zero_after_expiry");
    prop!(!(amount > 0 && seq2 <= live_until) || r == amount, "C02.approve.live_until_its_expiry");
    witness!(amount > 0 && seq2 > seq && seq2 <= live_until, "approve.read_later_live");
    witness!(amount > 0 && seq2 > live_until, "approve.read_later_expired");
    end_checks(1);
}
