//! C19: fee forwarding (`stellar_fee_abstraction`): `collect_fee_and_invoke` / `collect_fee` with both approval
//! strategies, the fee-token allow-list registry (swap-and-pop enumeration), `sweep_token`, the validation
//! helpers, and the two example forwarders (`examples/fee-forwarder-permissionless`, `-permissioned`, mounted
//! with `#[path]` and compiled with the real `stellar_macros`).
//!
//! Model profile `fee` = cap2 + valdigest + hw32 + ew32: `target_args` holds at most 2 `Val`s; the 6-tuple
//! the user signs and the nested `Vec<Val>` inside it are represented by the injective oracle's digest of their
//! flat words (equal tuples <-> equal digests), so "authorized exactly this tuple" is word equality.
//! The fee token is the stateful SEP-41 stub `soroban_sdk::token` (balances, allowances with expiration;
//! `approve` needs the owner's authorization and refuses a positive allowance expiring in the past).
use soroban_sdk::model::{self, world, ArgBuf, Slot, NADDR};
use soroban_sdk::token::{tok_allowance, tok_allowance_until, tok_balance, token_world};
use soroban_sdk::{Address, Arb, Env, Flat, IntoVal, Symbol, Val, Vec};
use stellar_access::access_control::AccessControlStorageKey as RoleKey;
use stellar_fee_abstraction::{
    collect_fee, collect_fee_and_invoke, is_allowed_fee_token, is_fee_token_allowlist_enabled, set_allowed_fee_token,
    sweep_token, validate_expiration_ledger, validate_fee_bounds, FeeAbstractionApproval, FeeAbstractionStorageKey as Key,
    FeeCollected, FeeTokenAllowlistUpdated, ForwardExecuted, TokensSwept,
};

use crate::util::*;

#[path = "/repo/examples/fee-forwarder-permissionless/src/contract.rs"]
pub mod permissionless_example;
#[path = "/repo/examples/fee-forwarder-permissioned/src/contract.rs"]
pub mod permissioned_example;

// ------------------------------------------------------------------------------------ shared pieces
/// arbitrary state of the fee token: non-negative balances and allowances, arbitrary expirations
pub fn arb_token_world() {
    let t = token_world();
    t.decimals = kani::any();
    let mut i = 0;
    while i < NADDR {
        let b: i128 = kani::any();
        kani::assume(b >= 0);
        t.bal[i] = b;
        let mut j = 0;
        while j < NADDR {
            let a: i128 = kani::any();
            kani::assume(a >= 0);
            t.allow[i][j] = a;
            t.allow_until[i][j] = kani::any();
            j += 1;
        }
        i += 1;
    }
}
fn arb_argbuf() -> ArgBuf {
    let mut a = ArgBuf::new();
    a.n = kani::any();
    let mut i = 0;
    while i < model::AW {
        a.w[i] = kani::any();
        i += 1;
    }
    a
}
/// `who` authorizes (for `require_auth_for_args`) exactly the argument words `granted`, if `set`
fn grant_args(who: &Address, set: bool, granted: &ArgBuf) {
    let w = world();
    let mut i = 0;
    while i < NADDR {
        if who.id == i as u32 {
            w.auth_args_set[i] = set;
            w.auth_args[i] = *granted;
        }
        i += 1;
    }
}
fn call_is(i: usize, callee: &Address, func: u64, args: &ArgBuf) -> bool {
    let c = model::call_at(i);
    (i as u32) < model::n_calls() && c.callee == callee.id && c.func == func && c.args.eq(args)
}
/// same key, presence and value (the TTL may have been extended)
fn same_entry(a: &Slot, b: &Slot) -> bool {
    let mut x = *a;
    x.live_until = b.live_until;
    model::slots_equal(&x, b)
}

// slots of the forwarding harnesses: only what `is_allowed_fee_token(fee_token)` can touch
const S_COUNT: usize = 0;
const S_TIDX: usize = 1;
const S_TOK: usize = 2;
const FWD_DECLARED: usize = 3;

pub struct ListPre {
    pub count: u32,
    pub member: bool,
    pub idx: u32,
}
/// The allow-list as far as `fee_token` is concerned: Count absent/any value; TokenIndex(fee_token) absent or
/// = idx with (representation invariant) idx < count and Token(idx) = fee_token. The list may hold any other tokens.
fn declare_list_for(fee_token: &Address) -> ListPre {
    let cp: bool = kani::any();
    let c: u32 = kani::any();
    model::declare_val(S_COUNT, 2, &Key::Count, cp, &c, 0);
    let count = if cp { c } else { 0 };
    let member: bool = kani::any();
    let idx: u32 = kani::any();
    kani::assume(!member || idx < count);
    model::declare_val(S_TIDX, 0, &Key::TokenIndex(fee_token.clone()), member, &idx, kani::any());
    let other = addr_below(NADDR as u32);
    let tp: bool = kani::any();
    kani::assume(!member || tp);
    kani::assume(member || other != *fee_token);
    let tv = if member { fee_token.clone() } else { other };
    model::declare_val(S_TOK, 0, &Key::Token(idx), tp, &tv, kani::any());
    ListPre { count, member, idx }
}

pub struct Fwd {
    pub fwd: Address,
    pub fee_token: Address,
    pub fee: i128,
    pub max_fee: i128,
    pub expiration: u32,
    pub target: Address,
    pub target_fn: Symbol,
    pub target_args: Vec<Val>,
    pub user: Address,
    pub recipient: Address,
    pub by: Address,
    pub list: ListPre,
    pub expected: ArgBuf,
    pub granted_set: bool,
    pub granted: ArgBuf,
    pub seq: u32,
    pub u0: i128,
    pub r0: i128,
    pub f0: i128,
    pub b0: i128,
    pub a0: i128,
    pub a_until0: u32,
    pub pre: [Slot; FWD_DECLARED],
}
/// the argument words the user has to sign, built the way the library builds them
fn signed_tuple(e: &Env, fee_token: &Address, max_fee: i128, expiration: u32, target: &Address, target_fn: &Symbol, target_args: &Vec<Val>) -> ArgBuf {
    let v: Vec<Val> = (fee_token.clone(), max_fee, expiration, target.clone(), target_fn.clone(), target_args.clone()).into_val(e);
    let mut a = ArgBuf::new();
    a.push(&v);
    a
}
/// symbolic call of a forwarder: every argument arbitrary, the user's `require_auth_for_args` grant ARBITRARY
/// (`granted`), arbitrary token state, arbitrary allow-list. `recipient_is`: None = arbitrary.
fn setup_forward(e: &Env, recipient_fixed: Option<Address>) -> Fwd {
    arb_token_world();
    let fwd = e.current_contract_address();
    let fee_token = addr_below(NADDR as u32);
    let user = addr_below(NADDR as u32);
    let recipient = match recipient_fixed {
        Some(a) => a,
        None => addr_below(NADDR as u32),
    };
    let target = addr_below(NADDR as u32);
    let by = addr_below(NADDR as u32);
    kani::assume(by != user && by != recipient);
    let target_fn = Symbol::arb();
    let target_args = <Vec<Val> as Arb>::arb();
    let fee: i128 = kani::any();
    let max_fee: i128 = kani::any();
    let expiration: u32 = kani::any();
    let list = declare_list_for(&fee_token);
    let expected = signed_tuple(e, &fee_token, max_fee, expiration, &target, &target_fn, &target_args);
    let granted_set: bool = kani::any();
    let granted = arb_argbuf();
    grant_args(&user, granted_set, &granted);
    Fwd {
        u0: tok_balance(&user),
        r0: tok_balance(&recipient),
        f0: tok_balance(&fwd),
        b0: tok_balance(&by),
        a0: tok_allowance(&user, &fwd),
        a_until0: tok_allowance_until(&user, &fwd),
        seq: world().seq,
        pre: [model::slot(0), model::slot(1), model::slot(2)],
        fwd,
        fee_token,
        fee,
        max_fee,
        expiration,
        target,
        target_fn,
        target_args,
        user,
        recipient,
        by,
        list,
        expected,
        granted_set,
        granted,
    }
}

/// post-conditions after a NORMAL return of a forward; `$eager`: the approval strategy used; `$ret`: the returned Val
macro_rules! forward_post {
    ($tag:literal, $f:ident, $eager:expr, $ret:ident) => {
        // ---- the user's authorization covers exactly (fee token, max fee, expiration, target, fn, args)
        prop!($f.granted_set && $f.granted.eq(&$f.expected), concat!("C19.", $tag, ".user_authorized_exactly_the_named_tuple"));
        prop!(model::auth_args_count(&$f.user, &$f.expected) == 1, concat!("C19.", $tag, ".require_auth_for_args_logged_word_exact"));
        // ---- bounds and parties
        prop!($f.fee > 0 && $f.fee <= $f.max_fee, concat!("C19.", $tag, ".fee_positive_and_at_most_max"));
        prop!($f.user != $f.fwd, concat!("C19.", $tag, ".user_is_not_the_forwarder"));
        prop!($f.list.count == 0 || $f.list.member, concat!("C19.", $tag, ".fee_token_allowed_or_list_empty"));
        // ---- fee movement on the token
        prop!($f.u0 >= $f.fee, concat!("C19.", $tag, ".user_had_the_fee"));
        if $f.user != $f.recipient {
            prop!(tok_balance(&$f.user) == $f.u0 - $f.fee, concat!("C19.", $tag, ".user_debited_exactly_fee"));
            prop!(tok_balance(&$f.recipient) == $f.r0 + $f.fee, concat!("C19.", $tag, ".recipient_credited_exactly_fee"));
        } else {
            prop!(tok_balance(&$f.user) == $f.u0, concat!("C19.", $tag, ".user_paying_itself_is_neutral"));
        }
        if $f.fwd != $f.recipient {
            prop!(tok_balance(&$f.fwd) == $f.f0, concat!("C19.", $tag, ".forwarder_balance_unchanged"));
        }
        prop!(tok_balance(&$f.by) == $f.b0, concat!("C19.", $tag, ".bystander_balance_unchanged"));
        // ---- allowance(user -> forwarder) and the token calls, as coded per strategy
        let mut approve_args = ArgBuf::new();
        approve_args.push(&$f.user);
        approve_args.push(&$f.fwd);
        approve_args.push(&$f.max_fee);
        approve_args.push(&$f.expiration);
        let mut pull_args = ArgBuf::new();
        pull_args.push(&$f.fwd);
        pull_args.push(&$f.user);
        pull_args.push(&$f.recipient);
        pull_args.push(&$f.fee);
        let mut target_args = ArgBuf::new();
        target_args.push(&$f.target_args);
        let approved = $eager || $f.a0 < $f.max_fee;
        let n_tok: usize = if approved { 2 } else { 1 };
        if approved {
            prop!(authorized(&$f.user), concat!("C19.", $tag, ".approve_needs_user_authorization"));
            prop!($f.expiration >= $f.seq, concat!("C19.", $tag, ".fresh_approval_expiration_not_in_past"));
            prop!(tok_allowance(&$f.user, &$f.fwd) == $f.max_fee - $f.fee, concat!("C19.", $tag, ".allowance_after_is_max_fee_minus_fee"));
            prop!(tok_allowance_until(&$f.user, &$f.fwd) == $f.expiration, concat!("C19.", $tag, ".allowance_expires_at_expiration_ledger"));
            prop!(call_is(0, &$f.fee_token, Symbol::of("approve"), &approve_args), concat!("C19.", $tag, ".approve_exactly_max_fee_to_forwarder"));
        } else {
            prop!($f.expiration >= $f.seq, concat!("C19.", $tag, ".lazy_kept_allowance_expiration_not_in_past"));
            prop!(tok_allowance(&$f.user, &$f.fwd) == $f.a0 - $f.fee, concat!("C19.", $tag, ".kept_allowance_drops_by_exactly_fee"));
            prop!(tok_allowance_until(&$f.user, &$f.fwd) == $f.a_until0, concat!("C19.", $tag, ".kept_allowance_expiry_unchanged"));
        }
        prop!(call_is(n_tok - 1, &$f.fee_token, Symbol::of("transfer_from"), &pull_args), concat!("C19.", $tag, ".one_exact_transfer_from_user_to_recipient"));
        // ---- the target call: exactly once, exactly (target, fn, args), result passed through
        prop!(model::n_calls() as usize == n_tok + 1, concat!("C19.", $tag, ".no_other_foreign_call"));
        prop!(call_is(n_tok, &$f.target, $f.target_fn.w, &target_args), concat!("C19.", $tag, ".target_invoked_with_exact_fn_and_args"));
        prop!(model::call_count(&$f.target, $f.target_fn.w, &target_args) == 1, concat!("C19.", $tag, ".target_invoked_exactly_once"));
        let rec = model::call_at(n_tok);
        let mut rw = [0u64; <Val as Flat>::W];
        $ret.put(&mut rw);
        let mut same = !rec.failed;
        let mut k = 0;
        while k < <Val as Flat>::W {
            same &= rw[k] == rec.ret[k];
            k += 1;
        }
        prop!(same, concat!("C19.", $tag, ".target_result_passed_through"));
        // ---- events
        let ev0 = FeeCollected { user: $f.user.clone(), recipient: $f.recipient.clone(), token: $f.fee_token.clone(), amount: $f.fee };
        let ev1 = ForwardExecuted { user: $f.user.clone(), target_contract: $f.target.clone(), target_fn: $f.target_fn.clone(), target_args: $f.target_args.clone() };
        prop!(
            model::n_events() == 2 && model::event_is(0, FeeCollected::EVENT_ID, &ev0.event_words()) && model::event_is(1, ForwardExecuted::EVENT_ID, &ev1.event_words()),
            concat!("C19.", $tag, ".fee_collected_then_forward_executed_events")
        );
        // ---- the allow-list is only read
        prop!(
            same_entry(&$f.pre[0], &model::slot(0)) && same_entry(&$f.pre[1], &model::slot(1)) && same_entry(&$f.pre[2], &model::slot(2)),
            concat!("C19.", $tag, ".allow_list_untouched")
        );
    };
}

// ------------------------------------------------------------------------------------ collect_fee_and_invoke
#[kani::proof]
#[kani::unwind(34)]
pub fn forward_eager() {
    setup_world();
    let e = Env::default();
    let f = setup_forward(&e, None);
    let ret = collect_fee_and_invoke(&e, &f.fee_token, f.fee, f.max_fee, f.expiration, &f.target, &f.target_fn, &f.target_args, &f.user, &f.recipient, FeeAbstractionApproval::Eager);
    forward_post!("forward_eager", f, true, ret);
    witness!(f.fee < f.max_fee && f.user != f.recipient && f.recipient != f.fwd, "eager.partial_fee_to_third_party");
    witness!(f.recipient == f.fwd, "eager.forwarder_collects");
    witness!(f.recipient == f.user, "eager.user_is_recipient");
    witness!(f.a0 > f.max_fee, "eager.overwrites_larger_allowance");
    witness!(f.list.count == 0, "eager.list_disabled");
    witness!(f.list.count > 1 && f.list.member, "eager.listed_token");
    witness!(f.target_args.len() == 2, "eager.two_target_args");
    witness!(f.expiration == f.seq, "eager.expires_now");
    end_checks(FWD_DECLARED);
}

/// Lazy, existing allowance below the maximum: a fresh approval of exactly `max_fee_amount`
#[kani::proof]
#[kani::unwind(34)]
pub fn forward_lazy_topup() {
    setup_world();
    let e = Env::default();
    let f = setup_forward(&e, None);
    kani::assume(f.a0 < f.max_fee);
    let ret = collect_fee_and_invoke(&e, &f.fee_token, f.fee, f.max_fee, f.expiration, &f.target, &f.target_fn, &f.target_args, &f.user, &f.recipient, FeeAbstractionApproval::Lazy);
    forward_post!("forward_lazy", f, false, ret);
    witness!(f.a0 > 0, "lazy.tops_up_insufficient_allowance");
    witness!(f.a0 == 0 && f.a_until0 < f.seq, "lazy.replaces_expired_allowance");
    witness!(f.recipient == f.fwd, "lazy.topup.forwarder_collects");
    witness!(f.list.count > 0 && f.list.member, "lazy.topup.listed_token");
    end_checks(FWD_DECLARED);
}

/// Lazy, existing live allowance >= the maximum: kept as it is, spent by exactly the fee, no plain user authorization needed
#[kani::proof]
#[kani::unwind(34)]
pub fn forward_lazy_kept() {
    setup_world();
    let e = Env::default();
    let f = setup_forward(&e, None);
    kani::assume(f.a0 >= f.max_fee);
    let ret = collect_fee_and_invoke(&e, &f.fee_token, f.fee, f.max_fee, f.expiration, &f.target, &f.target_fn, &f.target_args, &f.user, &f.recipient, FeeAbstractionApproval::Lazy);
    forward_post!("forward_lazy", f, false, ret);
    witness!(f.a0 == f.max_fee, "lazy.keeps_equal_allowance");
    witness!(f.a0 > f.max_fee && !authorized(&f.user), "lazy.keeps_larger_allowance_without_plain_user_auth");
    witness!(f.a_until0 != f.expiration, "lazy.kept_allowance_other_expiry");
    witness!(f.recipient == f.fwd, "lazy.kept.forwarder_collects");
    witness!(f.list.count == 0, "lazy.kept.list_disabled");
    end_checks(FWD_DECLARED);
}

/// The user signed a tuple that differs from the call in exactly one (symbolically chosen) field: never accepted.
#[kani::proof]
#[kani::unwind(34)]
pub fn forward_other_tuple_refused() {
    setup_world();
    let e = Env::default();
    let f = setup_forward(&e, None);
    let field: u8 = kani::any();
    kani::assume(field < 6);
    let fee_token2 = if field == 0 { addr_below(NADDR as u32) } else { f.fee_token.clone() };
    let max_fee2: i128 = if field == 1 { kani::any() } else { f.max_fee };
    let expiration2: u32 = if field == 2 { kani::any() } else { f.expiration };
    let target2 = if field == 3 { addr_below(NADDR as u32) } else { f.target.clone() };
    let target_fn2 = if field == 4 { Symbol::arb() } else { f.target_fn.clone() };
    let target_args2 = if field == 5 { <Vec<Val> as Arb>::arb() } else { f.target_args.clone() };
    kani::assume(
        fee_token2 != f.fee_token || max_fee2 != f.max_fee || expiration2 != f.expiration || target2 != f.target || target_fn2 != f.target_fn || target_args2 != f.target_args,
    );
    let signed = signed_tuple(&e, &fee_token2, max_fee2, expiration2, &target2, &target_fn2, &target_args2);
    grant_args(&f.user, true, &signed);
    let approval = <FeeAbstractionApproval as Arb>::arb();
    witness!(field == 5 && target_args2.len() == f.target_args.len(), "other_tuple.same_length_args_differ");
    let _ = collect_fee_and_invoke(&e, &f.fee_token, f.fee, f.max_fee, f.expiration, &f.target, &f.target_fn, &f.target_args, &f.user, &f.recipient, approval);
    prop!(false, "C19.forward.tuple_differing_in_one_field_never_accepted");
}

/// a failing target fails the whole invocation (the host then rolls the fee back)
#[kani::proof]
#[kani::unwind(34)]
pub fn forward_failing_target() {
    setup_world();
    let e = Env::default();
    let f = setup_forward(&e, None);
    grant_args(&f.user, true, &f.expected);
    // Eager: calls 0 (approve), 1 (transfer_from), 2 (target)
    model::preset_call::<Val>(2, true, &Val::VOID);
    witness!(f.fee > 0 && f.fee <= f.max_fee && f.user != f.fwd, "failing_target.reaches_the_call");
    let _ = collect_fee_and_invoke(&e, &f.fee_token, f.fee, f.max_fee, f.expiration, &f.target, &f.target_fn, &f.target_args, &f.user, &f.recipient, FeeAbstractionApproval::Eager);
    prop!(false, "C19.forward.failing_target_fails_the_whole_call");
}

// ------------------------------------------------------------------------------------ collect_fee alone
/// `collect_fee` itself asks for no authorization (documented: the caller must) but keeps every bound
#[kani::proof]
#[kani::unwind(34)]
pub fn collect_fee_step() {
    setup_world();
    let e = Env::default();
    let f = setup_forward(&e, None);
    let approval = <FeeAbstractionApproval as Arb>::arb();
    let eager = matches!(approval, FeeAbstractionApproval::Eager);
    collect_fee(&e, &f.fee_token, f.fee, f.max_fee, f.expiration, &f.user, &f.recipient, approval);
    prop!(f.fee > 0 && f.fee <= f.max_fee, "C19.collect_fee.fee_positive_and_at_most_max");
    prop!(f.user != f.fwd, "C19.collect_fee.user_is_not_the_forwarder");
    prop!(f.list.count == 0 || f.list.member, "C19.collect_fee.fee_token_allowed_or_list_empty");
    prop!(f.expiration >= f.seq, "C19.collect_fee.expiration_not_in_past");
    if f.user != f.recipient {
        prop!(tok_balance(&f.user) == f.u0 - f.fee && tok_balance(&f.recipient) == f.r0 + f.fee, "C19.collect_fee.exactly_fee_moves_user_to_recipient");
    }
    let approved = eager || f.a0 < f.max_fee;
    prop!(tok_allowance(&f.user, &f.fwd) == (if approved { f.max_fee } else { f.a0 }) - f.fee, "C19.collect_fee.allowance_after_as_coded");
    prop!(world().n_auth == 0, "C19.collect_fee.asks_no_authorization_itself");
    let ev0 = FeeCollected { user: f.user.clone(), recipient: f.recipient.clone(), token: f.fee_token.clone(), amount: f.fee };
    prop!(model::n_events() == 1 && model::event_is(0, FeeCollected::EVENT_ID, &ev0.event_words()), "C19.collect_fee.one_exact_event");
    witness!(eager && f.user != f.recipient, "collect_fee.eager");
    witness!(!eager && !approved, "collect_fee.lazy_kept");
    end_checks(FWD_DECLARED);
}

// ------------------------------------------------------------------------------------ validation helpers
#[kani::proof]
#[kani::unwind(34)]
pub fn validators() {
    setup_world();
    let e = Env::default();
    let fee: i128 = kani::any();
    let max_fee: i128 = kani::any();
    let exp: u32 = kani::any();
    let which: bool = kani::any();
    if which {
        validate_fee_bounds(&e, fee, max_fee);
        prop!(fee > 0 && fee <= max_fee, "C19.validate_fee_bounds.accepts_only_0_lt_fee_le_max");
    } else {
        validate_expiration_ledger(&e, exp);
        prop!(exp >= world().seq, "C19.validate_expiration_ledger.accepts_only_not_past");
    }
    witness!(which && fee == max_fee, "validators.fee_equals_max");
    witness!(!which && exp == world().seq, "validators.expires_now");
    prop!(model::n_events() == 0 && model::n_calls() == 0 && world().n_auth == 0, "C19.validators.pure");
    end_checks(0);
}
/// converse: every in-range input is accepted
#[kani::proof]
#[kani::unwind(34)]
pub fn validators_accept() {
    setup_world();
    let e = Env::default();
    let fee: i128 = kani::any();
    let max_fee: i128 = kani::any();
    let exp: u32 = kani::any();
    kani::assume(fee > 0 && fee <= max_fee && exp >= world().seq);
    world().must_succeed = true;
    validate_fee_bounds(&e, fee, max_fee);
    validate_expiration_ledger(&e, exp);
    witness!(fee == 1 && max_fee == i128::MAX, "validators_accept.extremes");
    end_checks(0);
}

// ------------------------------------------------------------------------------------ sweep_token
#[kani::proof]
#[kani::unwind(34)]
pub fn sweep() {
    setup_world();
    let e = Env::default();
    arb_token_world();
    let fwd = e.current_contract_address();
    let token = addr_below(NADDR as u32);
    let recipient = addr_below(NADDR as u32);
    let by = addr_below(NADDR as u32);
    kani::assume(by != fwd && by != recipient);
    let f0 = tok_balance(&fwd);
    let r0 = tok_balance(&recipient);
    let b0 = tok_balance(&by);

    let swept = sweep_token(&e, &token, &recipient);

    prop!(swept == f0 && f0 != 0, "C19.sweep.returns_whole_nonzero_balance");
    if recipient != fwd {
        prop!(tok_balance(&fwd) == 0 && tok_balance(&recipient) == r0 + f0, "C19.sweep.whole_balance_moves_to_recipient");
    } else {
        prop!(tok_balance(&fwd) == f0, "C19.sweep.to_itself_is_neutral");
    }
    prop!(tok_balance(&by) == b0, "C19.sweep.bystander_unchanged");
    let mut a = ArgBuf::new();
    a.push(&fwd);
    a.push(&recipient);
    a.push(&f0);
    prop!(model::n_calls() == 1 && call_is(0, &token, Symbol::of("transfer"), &a), "C19.sweep.one_exact_transfer");
    let ev = TokensSwept { token: token.clone(), recipient: recipient.clone(), amount: f0 };
    prop!(model::n_events() == 1 && model::event_is(0, TokensSwept::EVENT_ID, &ev.event_words()), "C19.sweep.one_exact_event");
    witness!(recipient != fwd && f0 > 1, "sweep.moves");
    end_checks(0);
}

// ------------------------------------------------------------------------------------ allow-list registry
// universe: 3 tokens (addresses 0..2). Slots: 0 Count, 1..=3 Token(0..2), 4..=6 TokenIndex(address 0..2).
pub const NT: usize = 3;
const L_COUNT: usize = 0;
const L_TOK: usize = 1;
const L_IDX: usize = 1 + NT;
pub const LIST_DECLARED: usize = 1 + 2 * NT;

pub struct Reg {
    pub count: u32,
    /// tok[i] = the token at enumeration position i (meaningful for i < count)
    pub tok: [u32; NT],
}
/// ARBITRARY registry satisfying the representation invariant I:
///   count <= 3; Token(i) present for exactly i < count, holding pairwise distinct tokens;
///   TokenIndex(t) present iff t is enumerated, and then holds its position (Token / TokenIndex mutually inverse).
/// `Count` may be absent when 0 (never written) or present with 0 (after the last removal).
pub fn declare_registry() -> Reg {
    let count: u32 = kani::any();
    kani::assume(count as usize <= NT);
    let cp: bool = kani::any();
    kani::assume(cp || count == 0);
    model::declare_val(L_COUNT, 2, &Key::Count, cp, &count, 0);
    // a symbolic permutation of the 3 tokens = symbolic enumeration order
    let tok: [u32; NT] = [kani::any(), kani::any(), kani::any()];
    kani::assume(tok[0] < NT as u32 && tok[1] < NT as u32 && tok[2] < NT as u32);
    kani::assume(tok[0] != tok[1] && tok[0] != tok[2] && tok[1] != tok[2]);
    let mut i = 0;
    while i < NT {
        model::declare_val(L_TOK + i, 0, &Key::Token(i as u32), (i as u32) < count, &Address::from_id(tok[i]), kani::any());
        i += 1;
    }
    let mut t = 0;
    while t < NT {
        // position of token t in the permutation
        let mut pos = 0u32;
        let mut i = 0;
        while i < NT {
            if tok[i] == t as u32 {
                pos = i as u32;
            }
            i += 1;
        }
        model::declare_val(L_IDX + t, 0, &Key::TokenIndex(Address::from_id(t as u32)), pos < count, &pos, kani::any());
        t += 1;
    }
    Reg { count, tok }
}
fn member_pre(r: &Reg, t: &Address) -> bool {
    let mut m = false;
    let mut i = 0;
    while i < NT {
        if (i as u32) < r.count && r.tok[i] == t.id {
            m = true;
        }
        i += 1;
    }
    m
}
fn count_now() -> u32 {
    if model::slot(L_COUNT).present {
        model::slot_val::<u32>(L_COUNT)
    } else {
        0
    }
}
fn member_now(t: &Address) -> bool {
    let mut m = false;
    let mut i = 0;
    while i < NT {
        if t.id == i as u32 {
            m = model::slot(L_IDX + i).present;
        }
        i += 1;
    }
    m
}
/// (present, value) of Token(j) now
fn token_at_now(j: u32) -> (bool, Address) {
    let mut p = false;
    let mut a = Address::from_id(0);
    let mut i = 0;
    while i < NT {
        if j == i as u32 {
            p = model::slot(L_TOK + i).present;
            a = model::slot_val::<Address>(L_TOK + i);
        }
        i += 1;
    }
    (p, a)
}
/// (present, value) of TokenIndex(t) now
fn index_of_now(t: &Address) -> (bool, u32) {
    let mut p = false;
    let mut v = 0;
    let mut i = 0;
    while i < NT {
        if t.id == i as u32 {
            p = model::slot(L_IDX + i).present;
            v = model::slot_val::<u32>(L_IDX + i);
        }
        i += 1;
    }
    (p, v)
}
/// the representation invariant I on the CURRENT state, through one symbolic position and one symbolic token
macro_rules! registry_invariant {
    ($tag:literal) => {
        let c = count_now();
        prop!(c as usize <= NT, concat!("C19.allowlist.", $tag, ".inv.count_within_universe"));
        let j: u32 = kani::any();
        kani::assume((j as usize) < NT);
        let (tp, ta) = token_at_now(j);
        if j < c {
            prop!(tp && (ta.id as usize) < NT, concat!("C19.allowlist.", $tag, ".inv.every_position_below_count_holds_a_token"));
            let (ip, iv) = index_of_now(&ta);
            prop!(ip && iv == j, concat!("C19.allowlist.", $tag, ".inv.token_index_of_token_at_j_is_j"));
        } else {
            prop!(!tp, concat!("C19.allowlist.", $tag, ".inv.no_entry_at_or_above_count"));
        }
        let t = addr_below(NT as u32);
        let (ip, iv) = index_of_now(&t);
        if ip {
            prop!(iv < c, concat!("C19.allowlist.", $tag, ".inv.stored_index_below_count"));
            let (tp2, ta2) = token_at_now(iv);
            prop!(tp2 && ta2 == t, concat!("C19.allowlist.", $tag, ".inv.token_at_index_of_t_is_t"));
        }
    };
}

#[kani::proof]
#[kani::unwind(34)]
pub fn allow_step() {
    setup_world();
    let e = Env::default();
    let r = declare_registry();
    let token = addr_below(NT as u32);
    let other = addr_below(NT as u32);
    kani::assume(other != token);
    let other_member = member_pre(&r, &other);
    let other_idx = index_of_now(&other).1;

    set_allowed_fee_token(&e, &token, true);

    prop!(!member_pre(&r, &token), "C19.allowlist.allow.refused_when_already_allowed");
    prop!(count_now() == r.count + 1 && model::slot(L_COUNT).present, "C19.allowlist.allow.count_plus_one");
    prop!(member_now(&token), "C19.allowlist.allow.token_becomes_member");
    prop!(index_of_now(&token).1 == r.count, "C19.allowlist.allow.appended_at_the_end");
    prop!(member_now(&other) == other_member, "C19.allowlist.allow.other_membership_unchanged");
    prop!(!other_member || index_of_now(&other).1 == other_idx, "C19.allowlist.allow.other_position_unchanged");
    registry_invariant!("allow");
    let ev = FeeTokenAllowlistUpdated { token: token.clone(), allowed: true };
    prop!(model::n_events() == 1 && model::event_is(0, FeeTokenAllowlistUpdated::EVENT_ID, &ev.event_words()), "C19.allowlist.allow.one_exact_event");
    prop!(world().n_auth == 0 && model::n_calls() == 0, "C19.allowlist.allow.no_auth_no_calls_as_documented");
    witness!(r.count == 0, "allow.first_token_enables_the_list");
    witness!(r.count == 2, "allow.third_token");
    end_checks(LIST_DECLARED);
}

#[kani::proof]
#[kani::unwind(34)]
pub fn disallow_step() {
    setup_world();
    let e = Env::default();
    let r = declare_registry();
    let token = addr_below(NT as u32);
    let other = addr_below(NT as u32);
    kani::assume(other != token);
    let other_member = member_pre(&r, &other);
    let removed_pos = index_of_now(&token).1;

    set_allowed_fee_token(&e, &token, false);

    prop!(member_pre(&r, &token), "C19.allowlist.disallow.refused_when_not_allowed");
    prop!(r.count >= 1 && count_now() == r.count - 1 && model::slot(L_COUNT).present, "C19.allowlist.disallow.count_minus_one");
    prop!(!member_now(&token), "C19.allowlist.disallow.token_no_longer_member");
    prop!(member_now(&other) == other_member, "C19.allowlist.disallow.other_membership_unchanged");
    registry_invariant!("disallow");
    let ev = FeeTokenAllowlistUpdated { token: token.clone(), allowed: false };
    prop!(model::n_events() == 1 && model::event_is(0, FeeTokenAllowlistUpdated::EVENT_ID, &ev.event_words()), "C19.allowlist.disallow.one_exact_event");
    prop!(world().n_auth == 0 && model::n_calls() == 0, "C19.allowlist.disallow.no_auth_no_calls_as_documented");
    witness!(r.count == 3 && removed_pos == 0, "disallow.swap_branch_first_of_three");
    witness!(r.count == 3 && removed_pos == 1, "disallow.swap_branch_middle");
    witness!(r.count == 3 && removed_pos == 2, "disallow.pop_branch_last");
    witness!(r.count == 1, "disallow.last_token_disables_the_list");
    end_checks(LIST_DECLARED);
}

/// is_allowed_fee_token <=> count == 0 \/ member; it never changes membership
#[kani::proof]
#[kani::unwind(34)]
pub fn is_allowed_query() {
    setup_world();
    let e = Env::default();
    let r = declare_registry();
    let token = addr_below(NADDR as u32); // also tokens outside the enumerable universe (ids 3, 4): never members
    let pre: [Slot; LIST_DECLARED] = [model::slot(0), model::slot(1), model::slot(2), model::slot(3), model::slot(4), model::slot(5), model::slot(6)];

    let enabled = is_fee_token_allowlist_enabled(&e);
    let ok = is_allowed_fee_token(&e, &token);

    prop!(enabled == (r.count > 0), "C19.allowlist.enabled_iff_count_positive");
    prop!(ok == (r.count == 0 || member_pre(&r, &token)), "C19.allowlist.is_allowed_iff_list_empty_or_member");
    let j: usize = kani::any();
    kani::assume(j < LIST_DECLARED);
    let mut same = true;
    let mut i = 0;
    while i < LIST_DECLARED {
        if i == j {
            same = same_entry(&pre[i], &model::slot(i));
        }
        i += 1;
    }
    prop!(same, "C19.allowlist.query_changes_no_entry");
    prop!(model::n_events() == 0 && model::n_calls() == 0 && world().n_auth == 0, "C19.allowlist.query_pure");
    witness!(r.count > 0 && ok, "is_allowed.member_of_enabled_list");
    witness!(r.count > 0 && !ok && token.id < NT as u32, "is_allowed.non_member_refused");
    witness!(r.count == 0 && ok, "is_allowed.disabled_list_allows_all");
    end_checks(LIST_DECLARED);
}

/// allow then disallow the same token from the EMPTY registry (base case of the induction + round trip)
#[kani::proof]
#[kani::unwind(34)]
pub fn allowlist_from_empty() {
    setup_world();
    let e = Env::default();
    let a = addr_below(NT as u32);
    let b = addr_below(NT as u32);
    kani::assume(a != b);
    prop!(is_allowed_fee_token(&e, &a) && !is_fee_token_allowlist_enabled(&e), "C19.allowlist.empty.every_token_allowed");
    set_allowed_fee_token(&e, &a, true);
    prop!(is_allowed_fee_token(&e, &a) && !is_allowed_fee_token(&e, &b), "C19.allowlist.one.only_the_allowed_token");
    set_allowed_fee_token(&e, &b, true);
    prop!(is_allowed_fee_token(&e, &a) && is_allowed_fee_token(&e, &b), "C19.allowlist.two.both_allowed");
    set_allowed_fee_token(&e, &a, false);
    prop!(!is_allowed_fee_token(&e, &a) && is_allowed_fee_token(&e, &b), "C19.allowlist.removed_first.only_second_left");
    set_allowed_fee_token(&e, &b, false);
    prop!(is_allowed_fee_token(&e, &a) && is_allowed_fee_token(&e, &b) && !is_fee_token_allowlist_enabled(&e), "C19.allowlist.emptied.list_disabled_again");
    witness!(true, "from_empty.whole_history_runs");
    kani::assert(!world().overflow, "MODEL-OVERFLOW: flag set");
}

// ------------------------------------------------------------------------------------ example forwarders
use permissioned_example::FeeForwarder as Permissioned;
use permissionless_example::FeeForwarder as Permissionless;

/// examples/fee-forwarder-permissionless: anyone may relay (with their own authorization); the relayer collects; Eager
#[kani::proof]
#[kani::unwind(34)]
pub fn permissionless_forward() {
    setup_world();
    let e = Env::default();
    let relayer = addr_below(NADDR as u32);
    let f = setup_forward(&e, Some(relayer.clone()));
    let ret = Permissionless::forward(
        &e, f.fee_token.clone(), f.fee, f.max_fee, f.expiration, f.target.clone(), f.target_fn.clone(), f.target_args.clone(), f.user.clone(), relayer.clone(),
    );
    prop!(authorized(&relayer) && model::auth_count(&relayer) >= 1, "C19.permissionless.relayer_authorized");
    forward_post!("permissionless", f, true, ret);
    witness!(relayer != f.user && relayer != f.fwd && f.fee < f.max_fee, "permissionless.third_party_relayer");
    end_checks(FWD_DECLARED);
}

const S_ROLE: usize = FWD_DECLARED;
/// examples/fee-forwarder-permissioned: only an authorized "executor" relays; the forwarder itself collects; Lazy
#[kani::proof]
#[kani::unwind(34)]
pub fn permissioned_forward() {
    setup_world();
    let e = Env::default();
    let relayer = addr_below(NADDR as u32);
    let f = setup_forward(&e, Some(e.current_contract_address()));
    let hp: bool = kani::any();
    let hi: u32 = kani::any();
    model::declare_val(S_ROLE, 0, &RoleKey::HasRole(relayer.clone(), Symbol::new(&e, "executor")), hp, &hi, kani::any());
    let ret = Permissioned::forward(
        &e, f.fee_token.clone(), f.fee, f.max_fee, f.expiration, f.target.clone(), f.target_fn.clone(), f.target_args.clone(), f.user.clone(), relayer.clone(),
    );
    prop!(hp, "C19.permissioned.relayer_holds_executor_role");
    prop!(authorized(&relayer) && model::auth_count(&relayer) >= 1, "C19.permissioned.relayer_authorized");
    forward_post!("permissioned", f, false, ret);
    prop!(tok_balance(&f.fwd) == f.f0 + f.fee, "C19.permissioned.forwarder_collects_exactly_fee");
    witness!(relayer != f.user && f.a0 >= f.max_fee, "permissioned.kept_allowance");
    witness!(f.a0 < f.max_fee, "permissioned.fresh_approval");
    end_checks(FWD_DECLARED + 1);
}

/// the manager-only entry points of the permissioned example (enable / disable / sweep)
#[kani::proof]
#[kani::unwind(34)]
pub fn permissioned_manager_gates() {
    setup_world();
    let e = Env::default();
    arb_token_world();
    let r = declare_registry();
    let operator = addr_below(NADDR as u32);
    let token = addr_below(NT as u32);
    let recipient = addr_below(NADDR as u32);
    let hp: bool = kani::any();
    let hi: u32 = kani::any();
    model::declare_val(LIST_DECLARED, 0, &RoleKey::HasRole(operator.clone(), Symbol::new(&e, "manager")), hp, &hi, kani::any());
    // holding the executor role instead does not help
    let xp: bool = kani::any();
    model::declare_val(LIST_DECLARED + 1, 0, &RoleKey::HasRole(operator.clone(), Symbol::new(&e, "executor")), xp, &hi, kani::any());
    let which: u8 = kani::any();
    kani::assume(which < 3);
    let was_member = member_pre(&r, &token);
    match which {
        0 => Permissioned::enable_fee_token(&e, token.clone(), operator.clone()),
        1 => Permissioned::disable_fee_token(&e, token.clone(), operator.clone()),
        _ => {
            let _ = Permissioned::sweep_tokens(&e, token.clone(), recipient.clone(), operator.clone());
        }
    }
    prop!(hp, "C19.permissioned.manager_entry_points_need_manager_role");
    prop!(authorized(&operator) && model::auth_count(&operator) >= 1, "C19.permissioned.manager_entry_points_need_operator_auth");
    if which == 0 {
        prop!(!was_member && member_now(&token), "C19.permissioned.enable_allows_the_token");
    }
    if which == 1 {
        prop!(was_member && !member_now(&token), "C19.permissioned.disable_disallows_the_token");
    }
    witness!(which == 0 && xp, "manager_gates.enable");
    witness!(which == 1, "manager_gates.disable");
    witness!(which == 2 && !xp, "manager_gates.sweep");
    end_checks(LIST_DECLARED + 2);
}
