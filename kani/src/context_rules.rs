//! C20 (smart-account part): the context-rule registry behaves as the map  id -> (meta, signer list, policy list)
//! plus the per-type id lists, the rule count, the monotone id counter and the set of rule fingerprints.
//!
//! Code under test: `stellar_accounts::smart_account::{add_context_rule, remove_context_rule, add_signer,
//! remove_signer, add_policy, remove_policy, update_context_rule_name, update_context_rule_valid_until,
//! get_context_rule, get_context_rules, get_context_rules_count}` (with compute_fingerprint,
//! validate_and_set_fingerprint, remove_fingerprint, validate_signers_and_policies), every mutating function
//! through the entry point of the example account (`examples/multisig-smart-account`, mounted in
//! `smart_account.rs`), which is where the account's own authorization is required.
//!
//! Profile `sa_rules` = cap3 + vw24 + hw32 + nh12 + xdrdigest + aw40 + ew32 (BYTES_CAP = 16):
//!   Signer W = 5, Vec<Signer> W = 16, Meta W = 10, ContextRule W = 31 (event ContextRuleAdded 31 <= EW 32,
//!   install(param, rule, account) = 37 <= AW 40). `to_xdr` is the 4-byte handle of the injective oracle
//!   (feature xdrdigest), so a fingerprint is sha256-oracle(handle(type) ++ handle(sorted signers) ++
//!   handle(sorted policies)): equal (type, signer SET, policy SET) <-> equal fingerprint.
//!
//! One inductive step per harness from an ARBITRARY stored state. Representation invariant I of the registry
//! (each harness assumes the part it needs and proves it for the entries it writes):
//!   (a) every id in a list `Ids(T)` is below `NextId`; nothing is stored under ids >= NextId is NOT needed;
//!   (b) `Count` >= 1 while a rule is stored;
//!   (c) a stored rule has Meta, Signers and Policies entries; its signers are pairwise different, its policies
//!       too, and it has at least one signer or policy;
//!   (d) a stored rule's id occurs exactly once in `Ids(meta.context_type)`.
//! The fingerprint reference `ref_fp` is written here independently (own stable insertion sort by the flat order).
use soroban_sdk::model::{self, world, ArgBuf, Slot, CAP, EW};
use soroban_sdk::xdr::ToXdr;
use soroban_sdk::{flat_eq, flat_lt, Address, Arb, Bytes, BytesN, Env, Flat, Map, String, Symbol, Val, Vec};
use stellar_accounts::smart_account::{
    self as sa, ContextRule, ContextRuleAdded, ContextRuleRemoved, ContextRuleType, ContextRuleUpdated, Meta,
    PolicyAdded, PolicyRemoved, Signer, SignerAdded, SignerRemoved, SmartAccount, SmartAccountStorageKey as Key,
    MAX_CONTEXT_RULES, MAX_POLICIES, MAX_SIGNERS,
};

use crate::smart_account::{arb_signer, multisig_example::MultisigContract as Acct};
use crate::util::*;

const F_INSTALL: u64 = Symbol::of("install");
const F_UNINSTALL: u64 = Symbol::of("uninstall");

// ------------------------------------------------------------------------------------------ helpers
fn words_eq<const N: usize>(a: &[u64; N], b: &[u64; N]) -> bool {
    let mut r = true;
    let mut c = 0;
    while c < N {
        r &= a[c] == b[c];
        if c + 1 < N { r &= a[c + 1] == b[c + 1]; }
        if c + 2 < N { r &= a[c + 2] == b[c + 2]; }
        if c + 3 < N { r &= a[c + 3] == b[c + 3]; }
        if c + 4 < N { r &= a[c + 4] == b[c + 4]; }
        if c + 5 < N { r &= a[c + 5] == b[c + 5]; }
        if c + 6 < N { r &= a[c + 6] == b[c + 6]; }
        if c + 7 < N { r &= a[c + 7] == b[c + 7]; }
        c += 8;
    }
    r
}
/// same key, presence and value words (the TTL may have been extended by a read)
fn same_entry(a: &Slot, b: &Slot) -> bool {
    a.claimed == b.claimed && a.present == b.present && a.dur == b.dur && words_eq(&a.key, &b.key) && words_eq(&a.val, &b.val)
}
/// slot i holds exactly `v`
fn holds<V: Flat>(i: usize, v: &V) -> bool {
    let s = model::slot(i);
    s.present && words_eq(&s.val, &model::val_of(v))
}
fn one_event(id: u64, words: &[u64; EW]) -> bool {
    let w = world();
    w.n_events == 1 && w.events[0].id == id && words_eq(&w.events[0].w, words)
}
fn call_is(i: usize, callee: &Address, func: u64, args: &ArgBuf) -> bool {
    let c = model::call_at(i);
    (i as u32) < model::n_calls() && c.callee == callee.id && c.func == func && c.args.eq(args)
}
fn arb_small_bytes() -> Bytes {
    let x: u8 = kani::any();
    let y: u8 = kani::any();
    if kani::any() {
        Bytes::from_array(&Env, &[x])
    } else {
        Bytes::from_array(&Env, &[x, y])
    }
}
fn arb_name() -> String {
    String::from(arb_small_bytes())
}
fn arb_rule_type() -> ContextRuleType {
    let k: u8 = kani::any();
    kani::assume(k < 3);
    if k == 0 {
        ContextRuleType::Default
    } else if k == 1 {
        ContextRuleType::CallContract(Address::arb())
    } else {
        ContextRuleType::CreateContract(BytesN::<32>::arb())
    }
}
fn arb_signers(max: usize) -> Vec<Signer> {
    let n: u32 = kani::any();
    kani::assume(n as usize <= max && n as usize <= CAP);
    let mut v = Vec::new(&Env);
    let mut k = 0;
    while k < CAP {
        if (k as u32) < n {
            v.push_back(arb_signer());
        }
        k += 1;
    }
    v
}
fn arb_addrs(max: usize) -> Vec<Address> {
    let n: u32 = kani::any();
    kani::assume(n as usize <= max && n as usize <= CAP);
    let mut v = Vec::new(&Env);
    let mut k = 0;
    while k < CAP {
        if (k as u32) < n {
            v.push_back(Address::arb());
        }
        k += 1;
    }
    v
}
fn arb_ids(max: usize) -> Vec<u32> {
    let n: u32 = kani::any();
    kani::assume(n as usize <= max && n as usize <= CAP);
    let mut v = Vec::new(&Env);
    let mut k = 0;
    while k < CAP {
        if (k as u32) < n {
            v.push_back(kani::any());
        }
        k += 1;
    }
    v
}
/// number of positions of `v` holding `x`
fn occurrences<T: Flat + Clone>(v: &Vec<T>, x: &T) -> u32 {
    let mut n = 0;
    let mut k = 0;
    while k < CAP {
        if let Some(y) = v.get(k as u32) {
            if flat_eq(&y, x) {
                n += 1;
            }
        }
        k += 1;
    }
    n
}
fn pairwise_distinct<T: Flat + Clone>(v: &Vec<T>) -> bool {
    let mut r = true;
    let mut k = 0;
    while k < CAP {
        if let Some(y) = v.get(k as u32) {
            r &= occurrences(v, &y) == 1;
        }
        k += 1;
    }
    r
}
/// `v` with `x` appended
fn appended<T: Flat + Clone>(v: &Vec<T>, x: &T) -> Vec<T> {
    let mut o = v.clone();
    o.push_back(x.clone());
    o
}
/// `v` without its (only) occurrence of `x`, order kept; written with its own loop
fn without<T: Flat + Clone>(v: &Vec<T>, x: &T) -> Vec<T> {
    let mut o = Vec::new(&Env);
    let mut k = 0;
    while k < CAP {
        if let Some(y) = v.get(k as u32) {
            if !flat_eq(&y, x) {
                o.push_back(y);
            }
        }
        k += 1;
    }
    o
}
/// stable insertion sort by the flat order (the model's total order on values)
fn sorted<T: Flat + Clone>(v: &Vec<T>) -> Vec<T> {
    let mut out: Vec<T> = Vec::new(&Env);
    let mut k = 0;
    while k < CAP {
        if let Some(x) = v.get(k as u32) {
            let mut pos = 0u32;
            let mut q = 0;
            while q < CAP {
                if let Some(y) = out.get(q as u32) {
                    if !flat_lt(&x, &y) {
                        pos += 1;
                    }
                }
                q += 1;
            }
            out.insert(pos, x);
        }
        k += 1;
    }
    out
}
/// the fingerprint of (type, signer set, policy set) as the library defines it
fn ref_fp(ty: &ContextRuleType, signers: &Vec<Signer>, policies: &Vec<Address>) -> BytesN<32> {
    let e = Env;
    let mut d = ty.clone().to_xdr(&e);
    d.append(&sorted(signers).to_xdr(&e));
    d.append(&sorted(policies).to_xdr(&e));
    e.crypto().sha256(&d).to_bytes()
}
fn account() -> Address {
    Address::from_id(world().contract)
}
/// every stored entry that a call reads gets its TTL extended: keep `sequence + extension` representable
fn ttl_representable() {
    kani::assume(world().seq <= u32::MAX - 40 * 17280);
}
fn pin_all_calls_return() {
    let mut i = 0;
    while i < model::NC {
        model::preset_call::<()>(i, false, &());
        i += 1;
    }
}

// ------------------------------------------------------------------------------------------ one stored rule
const S_META: usize = 0;
const S_SIGNERS: usize = 1;
const S_POLICIES: usize = 2;
const S_FP_OLD: usize = 3;
const S_FP_NEW: usize = 4;

pub struct RulePre {
    pub id: u32,
    pub present: bool,
    pub rule: ContextRule,
    pub fp: BytesN<32>,
    pub fp_present: bool,
}
/// slots 0..=3: Meta(id), Signers(id), Policies(id) of one rule (stored or not) satisfying I(c), and the
/// fingerprint entry of its current (type, signers, policies)
fn declare_rule(max_signers: usize, max_policies: usize) -> RulePre {
    let id: u32 = kani::any();
    let present: bool = kani::any();
    let ty = arb_rule_type();
    let name = arb_name();
    let valid_until = Option::<u32>::arb();
    let signers = arb_signers(max_signers);
    let policies = arb_addrs(max_policies);
    kani::assume(pairwise_distinct(&signers) && pairwise_distinct(&policies));
    kani::assume(!(signers.is_empty() && policies.is_empty()));
    let meta = Meta { name: name.clone(), context_type: ty.clone(), valid_until };
    model::declare_val(S_META, 0, &Key::Meta(id), present, &meta, kani::any());
    model::declare_val(S_SIGNERS, 0, &Key::Signers(id), present, &signers, kani::any());
    model::declare_val(S_POLICIES, 0, &Key::Policies(id), present, &policies, kani::any());
    let fp = ref_fp(&ty, &signers, &policies);
    let fp_present: bool = kani::any();
    model::declare_val(S_FP_OLD, 0, &Key::Fingerprint(fp.clone()), fp_present, &true, kani::any());
    RulePre { id, present, rule: ContextRule { id, context_type: ty, name, signers, policies, valid_until }, fp, fp_present }
}
/// slot S_FP_NEW: the fingerprint entry of the rule's NEXT (type, signers, policies): present iff some other
/// stored rule already has it
fn declare_new_fp(ty: &ContextRuleType, signers: &Vec<Signer>, policies: &Vec<Address>) -> (BytesN<32>, bool) {
    let fp = ref_fp(ty, signers, policies);
    let dup: bool = kani::any();
    model::declare_val(S_FP_NEW, 0, &Key::Fingerprint(fp.clone()), dup, &true, kani::any());
    (fp, dup)
}

// ------------------------------------------------------------------------------------------ add_context_rule
const A_NEXT: usize = 0;
const A_COUNT: usize = 1;
const A_IDS: usize = 2;
const A_FP: usize = 3;
const A_META: usize = 4;
const A_SIGNERS: usize = 5;
const A_POLICIES: usize = 6;
const A_DECLARED: usize = 7;

struct AddPre {
    ty: ContextRuleType,
    name: String,
    valid_until: Option<u32>,
    signers: Vec<Signer>,
    policies: Map<Address, Val>,
    next: u32,
    count: u32,
    ids: Vec<u32>,
    dup: bool,
}
fn add_rule_setup() -> AddPre {
    setup_world();
    let ty = arb_rule_type();
    let name = arb_name();
    let valid_until = Option::<u32>::arb();
    let signers = arb_signers(CAP);
    let policies: Map<Address, Val> = Map::arb();
    let np: bool = kani::any();
    let n: u32 = kani::any();
    model::declare_val(A_NEXT, 2, &Key::NextId, np, &n, 0);
    let next = if np { n } else { 0 };
    let cp: bool = kani::any();
    let c: u32 = kani::any();
    model::declare_val(A_COUNT, 2, &Key::Count, cp, &c, 0);
    let count = if cp { c } else { 0 };
    // the list of this type: fewer than CAP ids (room for one more in the model), all below NextId (I(a))
    let ids = arb_ids(CAP - 1);
    let mut k = 0;
    while k < CAP {
        if let Some(x) = ids.get(k as u32) {
            kani::assume(x < next);
        }
        k += 1;
    }
    let lp: bool = kani::any();
    kani::assume(lp || ids.is_empty());
    model::declare_val(A_IDS, 0, &Key::Ids(ty.clone()), lp, &ids, kani::any());
    let fp = ref_fp(&ty, &signers, &policies.keys());
    let dup: bool = kani::any();
    model::declare_val(A_FP, 0, &Key::Fingerprint(fp), dup, &true, kani::any());
    // whatever is stored under the next id is overwritten
    model::declare(A_META, 0, &Key::Meta(next), kani::any(), arb_words(), kani::any());
    model::declare(A_SIGNERS, 0, &Key::Signers(next), kani::any(), arb_words(), kani::any());
    model::declare(A_POLICIES, 0, &Key::Policies(next), kani::any(), arb_words(), kani::any());
    AddPre { ty, name, valid_until, signers, policies, next, count, ids, dup }
}

#[kani::proof]
#[kani::unwind(42)]
pub fn add_rule() {
    let a = add_rule_setup();
    let e = Env::default();
    let seq = world().seq;

    let got = <Acct as SmartAccount>::add_context_rule(&e, a.ty.clone(), a.name.clone(), a.valid_until, a.signers.clone(), a.policies.clone());

    let pol = a.policies.keys();
    let want = ContextRule { id: a.next, context_type: a.ty.clone(), name: a.name.clone(), signers: a.signers.clone(), policies: pol.clone(), valid_until: a.valid_until };
    prop!(authorized(&account()) && model::auth_count(&account()) >= 1, "C20.ctxrules.add_rule.requires_account_authorization");
    prop!(got.id == a.next, "C20.ctxrules.add_rule.id_is_previous_next_id");
    prop!(holds(A_NEXT, &(a.next + 1)), "C20.ctxrules.add_rule.next_id_incremented");
    prop!(a.count < MAX_CONTEXT_RULES, "C20.ctxrules.add_rule.refused_at_max_context_rules");
    prop!(holds(A_COUNT, &(a.count + 1)), "C20.ctxrules.add_rule.count_incremented");
    prop!(holds(A_IDS, &appended(&a.ids, &a.next)), "C20.ctxrules.add_rule.id_appended_to_the_list_of_its_type");
    prop!(holds(A_META, &Meta { name: a.name.clone(), context_type: a.ty.clone(), valid_until: a.valid_until }), "C20.ctxrules.add_rule.meta_stored_exactly");
    prop!(holds(A_SIGNERS, &a.signers), "C20.ctxrules.add_rule.signers_stored_exactly");
    prop!(holds(A_POLICIES, &pol), "C20.ctxrules.add_rule.policies_stored_exactly");
    prop!(!a.dup, "C20.ctxrules.add_rule.duplicate_fingerprint_refused");
    prop!(holds(A_FP, &true), "C20.ctxrules.add_rule.fingerprint_recorded");
    prop!(pairwise_distinct(&a.signers), "C20.ctxrules.add_rule.duplicate_signer_refused");
    prop!(!(a.signers.is_empty() && pol.is_empty()), "C20.ctxrules.add_rule.needs_a_signer_or_a_policy");
    prop!(a.signers.len() <= MAX_SIGNERS && pol.len() <= MAX_POLICIES, "C20.ctxrules.add_rule.within_signer_and_policy_maxima");
    prop!(match a.valid_until { None => true, Some(v) => v >= seq }, "C20.ctxrules.add_rule.expiry_not_in_the_past");
    prop!(got == want, "C20.ctxrules.add_rule.returns_the_stored_rule");
    // every policy installed once, in map order, with (its parameter, the new rule, the account); nothing else called
    let mut trace = model::n_calls() == pol.len();
    let mut k = 0;
    while k < CAP {
        if let (Some(p), Some(param)) = (pol.get(k as u32), a.policies.values().get(k as u32)) {
            let mut args = ArgBuf::new();
            args.push(&param);
            args.push(&want);
            args.push(&account());
            trace &= call_is(k, &p, F_INSTALL, &args) && !model::call_at(k).failed;
        }
        k += 1;
    }
    prop!(trace, "C20.ctxrules.add_rule.each_policy_installed_once");
    let ev = ContextRuleAdded { context_rule_id: a.next, name: a.name.clone(), context_type: a.ty.clone(), valid_until: a.valid_until, signers: a.signers.clone(), policies: pol.clone() };
    prop!(one_event(ContextRuleAdded::EVENT_ID, &ev.event_words()), "C20.ctxrules.add_rule.event");
    witness!(a.next > 0 && a.ids.len() == 2, "third_rule_of_its_type");
    witness!(a.count == MAX_CONTEXT_RULES - 1, "fifteenth_rule");
    witness!(a.signers.len() == 3 && pol.len() == 0, "three_signers_no_policy");
    witness!(a.signers.len() == 0 && pol.len() == 2, "policies_only");
    witness!(a.signers.len() == 2 && pol.len() == 1 && a.valid_until == Some(seq), "mixed_rule_expiring_now");
    end_checks(A_DECLARED);
    // getters agree
    prop!(sa::get_context_rules_count(&e) == a.count + 1, "C20.ctxrules.add_rule.count_getter_agrees");
    prop!(sa::get_context_rule(&e, a.next) == want, "C20.ctxrules.add_rule.rule_getter_agrees");
}

/// converse: a fresh, well-formed rule below the maximum is accepted
#[kani::proof]
#[kani::unwind(42)]
pub fn add_rule_accepts() {
    let a = add_rule_setup();
    let e = Env::default();
    kani::assume(authorized(&account()));
    kani::assume(a.count < MAX_CONTEXT_RULES && a.next < u32::MAX);
    kani::assume(!a.dup && pairwise_distinct(&a.signers));
    kani::assume(!(a.signers.is_empty() && a.policies.is_empty()));
    kani::assume(match a.valid_until { None => true, Some(v) => v >= world().seq });
    pin_all_calls_return();
    world().must_succeed = true;
    let got = <Acct as SmartAccount>::add_context_rule(&e, a.ty.clone(), a.name.clone(), a.valid_until, a.signers.clone(), a.policies.clone());
    world().must_succeed = false;
    prop!(got.id == a.next, "C20.ctxrules.add_rule.accepted_when_fresh_and_well_formed");
    witness!(a.count == MAX_CONTEXT_RULES - 1, "fifteenth_rule_accepted");
    witness!(a.signers.len() == 3, "three_signers_accepted");
}

// ------------------------------------------------------------------------------------------ remove_context_rule
const R_IDS: usize = 4;
const R_COUNT: usize = 5;
const R_NEXT: usize = 6;
const R_OTHER_FP: usize = 7;
const R_DECLARED: usize = 8;

struct RemovePre {
    r: RulePre,
    others: Vec<u32>,
    count_present: bool,
    count: u32,
    next: Slot,
    other_fp: Slot,
}
fn remove_rule_setup() -> RemovePre {
    setup_world();
    let r = declare_rule(2, 2);
    // I(d): the id occurs exactly once in the list of the rule's type
    let others = arb_ids(CAP - 1);
    kani::assume(pairwise_distinct(&others) && occurrences(&others, &r.id) == 0);
    let pos: u32 = kani::any();
    kani::assume(pos <= others.len());
    let mut ids = others.clone();
    ids.insert(pos, r.id);
    model::declare_val(R_IDS, 0, &Key::Ids(r.rule.context_type.clone()), true, &ids, kani::any());
    let count_present: bool = kani::any();
    let count: u32 = kani::any();
    model::declare_val(R_COUNT, 2, &Key::Count, count_present, &count, 0);
    let nx: u32 = kani::any();
    model::declare_val(R_NEXT, 2, &Key::NextId, kani::any(), &nx, 0);
    // the fingerprint of some other rule
    let h = BytesN::<32>::arb();
    kani::assume(h != r.fp);
    model::declare_val(R_OTHER_FP, 0, &Key::Fingerprint(h), kani::any(), &true, kani::any());
    RemovePre { r, others, count_present, count, next: model::slot(R_NEXT), other_fp: model::slot(R_OTHER_FP) }
}

#[kani::proof]
#[kani::unwind(42)]
pub fn remove_rule() {
    let p = remove_rule_setup();
    let e = Env::default();
    let id = p.r.id;

    <Acct as SmartAccount>::remove_context_rule(&e, id);

    prop!(authorized(&account()) && model::auth_count(&account()) >= 1, "C20.ctxrules.remove_rule.requires_account_authorization");
    prop!(p.r.present, "C20.ctxrules.remove_rule.unknown_rule_refused");
    prop!(!model::slot(S_META).present && !model::slot(S_SIGNERS).present && !model::slot(S_POLICIES).present, "C20.ctxrules.remove_rule.rule_entries_removed");
    prop!(!model::slot(S_FP_OLD).present, "C20.ctxrules.remove_rule.fingerprint_removed");
    prop!(holds(R_IDS, &p.others), "C20.ctxrules.remove_rule.exactly_its_id_leaves_the_list");
    prop!(p.count_present && p.count >= 1 && holds(R_COUNT, &(p.count - 1)), "C20.ctxrules.remove_rule.count_decremented");
    prop!(model::slots_equal(&p.next, &model::slot(R_NEXT)), "C20.ctxrules.remove_rule.next_id_untouched_ids_never_reused");
    prop!(model::slots_equal(&p.other_fp, &model::slot(R_OTHER_FP)), "C20.ctxrules.remove_rule.other_fingerprints_untouched");
    // uninstall attempted once per policy, in order, with (the removed rule, the account); a failing policy does not block
    let mut trace = model::n_calls() == p.r.rule.policies.len();
    let mut args = ArgBuf::new();
    args.push(&p.r.rule);
    args.push(&account());
    let mut k = 0;
    while k < CAP {
        if let Some(pol) = p.r.rule.policies.get(k as u32) {
            trace &= call_is(k, &pol, F_UNINSTALL, &args);
        }
        k += 1;
    }
    prop!(trace, "C20.ctxrules.remove_rule.uninstall_attempted_once_per_policy");
    prop!(one_event(ContextRuleRemoved::EVENT_ID, &ContextRuleRemoved { context_rule_id: id }.event_words()), "C20.ctxrules.remove_rule.event");
    witness!(p.others.len() == 2 && p.others.get(0).unwrap() < id && id < p.others.get(1).unwrap(), "removed_from_the_middle");
    witness!(p.others.len() == 0, "removed_the_only_rule_of_its_type");
    witness!(p.r.rule.policies.len() == 2 && model::call_at(0).failed, "uninstall_failure_tolerated");
    witness!(p.count == 1, "last_rule_removed");
    end_checks(R_DECLARED);
    // the removed id answers "not found"
    let _ = sa::get_context_rule(&e, id);
    prop!(false, "C20.ctxrules.remove_rule.removed_rule_not_found");
}
#[kani::proof]
#[kani::unwind(42)]
pub fn remove_rule_accepts() {
    let p = remove_rule_setup();
    let e = Env::default();
    kani::assume(authorized(&account()) && p.r.present && p.count_present && p.count >= 1);
    ttl_representable();
    world().must_succeed = true;
    <Acct as SmartAccount>::remove_context_rule(&e, p.r.id);
    world().must_succeed = false;
    prop!(!model::slot(S_META).present, "C20.ctxrules.remove_rule.stored_rule_is_removable");
    witness!(p.r.rule.policies.len() == 2, "two_policies");
}

// ------------------------------------------------------------------------------------------ signers
const E_DECLARED: usize = 5;

#[kani::proof]
#[kani::unwind(42)]
pub fn add_signer() {
    setup_world();
    let e = Env::default();
    let r = declare_rule(CAP - 1, 2);
    let s = arb_signer();
    let after = appended(&r.rule.signers, &s);
    let (_fp_new, dup) = declare_new_fp(&r.rule.context_type, &after, &r.rule.policies);
    let meta0 = model::slot(S_META);
    let pol0 = model::slot(S_POLICIES);

    <Acct as SmartAccount>::add_signer(&e, r.id, s.clone());

    prop!(authorized(&account()) && model::auth_count(&account()) >= 1, "C20.ctxrules.add_signer.requires_account_authorization");
    prop!(r.present, "C20.ctxrules.add_signer.unknown_rule_refused");
    prop!(occurrences(&r.rule.signers, &s) == 0, "C20.ctxrules.add_signer.duplicate_signer_refused");
    prop!(after.len() <= MAX_SIGNERS, "C20.ctxrules.add_signer.within_max_signers");
    prop!(holds(S_SIGNERS, &after), "C20.ctxrules.add_signer.signer_appended_exactly");
    prop!(!dup, "C20.ctxrules.add_signer.duplicate_fingerprint_refused");
    prop!(holds(S_FP_NEW, &true), "C20.ctxrules.add_signer.new_fingerprint_recorded");
    prop!(!model::slot(S_FP_OLD).present, "C20.ctxrules.add_signer.old_fingerprint_removed");
    prop!(same_entry(&meta0, &model::slot(S_META)) && same_entry(&pol0, &model::slot(S_POLICIES)), "C20.ctxrules.add_signer.meta_and_policies_untouched");
    prop!(model::n_calls() == 0, "C20.ctxrules.add_signer.no_foreign_call");
    prop!(one_event(SignerAdded::EVENT_ID, &SignerAdded { context_rule_id: r.id, signer: s.clone() }.event_words()), "C20.ctxrules.add_signer.event");
    witness!(r.rule.signers.len() == 2, "third_signer");
    witness!(r.rule.signers.len() == 0 && r.rule.policies.len() == 2, "first_signer_of_a_policy_rule");
    witness!(!r.fp_present, "old_fingerprint_missing");
    end_checks(E_DECLARED);
    prop!(sa::get_context_rule(&e, r.id).signers == after, "C20.ctxrules.add_signer.getter_agrees");
}
#[kani::proof]
#[kani::unwind(42)]
pub fn add_signer_accepts() {
    setup_world();
    let e = Env::default();
    let r = declare_rule(CAP - 1, 2);
    let s = arb_signer();
    let after = appended(&r.rule.signers, &s);
    let (_fp_new, dup) = declare_new_fp(&r.rule.context_type, &after, &r.rule.policies);
    kani::assume(authorized(&account()) && r.present && !dup && occurrences(&r.rule.signers, &s) == 0);
    ttl_representable();
    world().must_succeed = true;
    <Acct as SmartAccount>::add_signer(&e, r.id, s.clone());
    world().must_succeed = false;
    prop!(holds(S_SIGNERS, &after), "C20.ctxrules.add_signer.new_signer_accepted");
    witness!(r.rule.signers.len() == 2, "third_signer_accepted");
}

#[kani::proof]
#[kani::unwind(42)]
pub fn remove_signer() {
    setup_world();
    let e = Env::default();
    let r = declare_rule(CAP, 2);
    let s = arb_signer();
    let after = without(&r.rule.signers, &s);
    let (_fp_new, dup) = declare_new_fp(&r.rule.context_type, &after, &r.rule.policies);
    let meta0 = model::slot(S_META);
    let pol0 = model::slot(S_POLICIES);
    // a signer absent from the rule leaves the fingerprint unchanged: the two fingerprint slots would be one key
    let member = occurrences(&r.rule.signers, &s) == 1;
    if !member {
        model::declare_val(S_FP_NEW, 0, &Key::NextId, false, &0u32, 0);
    }

    <Acct as SmartAccount>::remove_signer(&e, r.id, s.clone());

    prop!(authorized(&account()) && model::auth_count(&account()) >= 1, "C20.ctxrules.remove_signer.requires_account_authorization");
    prop!(r.present, "C20.ctxrules.remove_signer.unknown_rule_refused");
    prop!(member, "C20.ctxrules.remove_signer.absent_signer_refused");
    prop!(!(after.is_empty() && r.rule.policies.is_empty()), "C20.ctxrules.remove_signer.last_signer_needs_a_policy");
    prop!(holds(S_SIGNERS, &after), "C20.ctxrules.remove_signer.exactly_that_signer_removed");
    prop!(!dup, "C20.ctxrules.remove_signer.duplicate_fingerprint_refused");
    prop!(holds(S_FP_NEW, &true), "C20.ctxrules.remove_signer.new_fingerprint_recorded");
    prop!(!model::slot(S_FP_OLD).present, "C20.ctxrules.remove_signer.old_fingerprint_removed");
    prop!(same_entry(&meta0, &model::slot(S_META)) && same_entry(&pol0, &model::slot(S_POLICIES)), "C20.ctxrules.remove_signer.meta_and_policies_untouched");
    prop!(model::n_calls() == 0, "C20.ctxrules.remove_signer.no_foreign_call");
    prop!(one_event(SignerRemoved::EVENT_ID, &SignerRemoved { context_rule_id: r.id, signer: s.clone() }.event_words()), "C20.ctxrules.remove_signer.event");
    witness!(r.rule.signers.len() == 3 && flat_eq(&r.rule.signers.get(1).unwrap(), &s), "middle_signer_removed");
    witness!(r.rule.signers.len() == 1 && r.rule.policies.len() == 1, "last_signer_removed_policy_remains");
    end_checks(E_DECLARED);
    prop!(sa::get_context_rule(&e, r.id).signers == after, "C20.ctxrules.remove_signer.getter_agrees");
}
#[kani::proof]
#[kani::unwind(42)]
pub fn remove_signer_accepts() {
    setup_world();
    let e = Env::default();
    let r = declare_rule(CAP, 2);
    let s = arb_signer();
    let after = without(&r.rule.signers, &s);
    let (_fp_new, dup) = declare_new_fp(&r.rule.context_type, &after, &r.rule.policies);
    kani::assume(authorized(&account()) && r.present && !dup && occurrences(&r.rule.signers, &s) == 1);
    kani::assume(!(after.is_empty() && r.rule.policies.is_empty()));
    ttl_representable();
    world().must_succeed = true;
    <Acct as SmartAccount>::remove_signer(&e, r.id, s.clone());
    world().must_succeed = false;
    prop!(holds(S_SIGNERS, &after), "C20.ctxrules.remove_signer.member_signer_removable");
    witness!(r.rule.signers.len() == 3, "one_of_three_removed");
}

// ------------------------------------------------------------------------------------------ policies
#[kani::proof]
#[kani::unwind(42)]
pub fn add_policy() {
    setup_world();
    let e = Env::default();
    let r = declare_rule(2, CAP - 1);
    let pol = Address::arb();
    let param = Val::arb();
    let after = appended(&r.rule.policies, &pol);
    let (_fp_new, dup) = declare_new_fp(&r.rule.context_type, &r.rule.signers, &after);
    let meta0 = model::slot(S_META);
    let sig0 = model::slot(S_SIGNERS);

    <Acct as SmartAccount>::add_policy(&e, r.id, pol.clone(), param);

    prop!(authorized(&account()) && model::auth_count(&account()) >= 1, "C20.ctxrules.add_policy.requires_account_authorization");
    prop!(r.present, "C20.ctxrules.add_policy.unknown_rule_refused");
    prop!(occurrences(&r.rule.policies, &pol) == 0, "C20.ctxrules.add_policy.duplicate_policy_refused");
    prop!(after.len() <= MAX_POLICIES, "C20.ctxrules.add_policy.within_max_policies");
    prop!(holds(S_POLICIES, &after), "C20.ctxrules.add_policy.policy_appended_exactly");
    prop!(!dup, "C20.ctxrules.add_policy.duplicate_fingerprint_refused");
    prop!(holds(S_FP_NEW, &true), "C20.ctxrules.add_policy.new_fingerprint_recorded");
    prop!(!model::slot(S_FP_OLD).present, "C20.ctxrules.add_policy.old_fingerprint_removed");
    prop!(same_entry(&meta0, &model::slot(S_META)) && same_entry(&sig0, &model::slot(S_SIGNERS)), "C20.ctxrules.add_policy.meta_and_signers_untouched");
    let mut args = ArgBuf::new();
    args.push(&param);
    args.push(&r.rule);
    args.push(&account());
    prop!(model::n_calls() == 1 && call_is(0, &pol, F_INSTALL, &args) && !model::call_at(0).failed, "C20.ctxrules.add_policy.policy_installed_once");
    prop!(one_event(PolicyAdded::EVENT_ID, &PolicyAdded { context_rule_id: r.id, policy: pol.clone(), install_param: param }.event_words()), "C20.ctxrules.add_policy.event");
    witness!(r.rule.policies.len() == 2, "third_policy");
    witness!(r.rule.signers.len() == 2 && r.rule.policies.len() == 0, "first_policy_of_a_signer_rule");
    end_checks(E_DECLARED);
    prop!(sa::get_context_rule(&e, r.id).policies == after, "C20.ctxrules.add_policy.getter_agrees");
}
#[kani::proof]
#[kani::unwind(42)]
pub fn add_policy_accepts() {
    setup_world();
    let e = Env::default();
    let r = declare_rule(2, CAP - 1);
    let pol = Address::arb();
    let param = Val::arb();
    let after = appended(&r.rule.policies, &pol);
    let (_fp_new, dup) = declare_new_fp(&r.rule.context_type, &r.rule.signers, &after);
    kani::assume(authorized(&account()) && r.present && !dup && occurrences(&r.rule.policies, &pol) == 0);
    ttl_representable();
    pin_all_calls_return();
    world().must_succeed = true;
    <Acct as SmartAccount>::add_policy(&e, r.id, pol.clone(), param);
    world().must_succeed = false;
    prop!(holds(S_POLICIES, &after), "C20.ctxrules.add_policy.new_policy_accepted");
    witness!(r.rule.policies.len() == 2, "third_policy_accepted");
}

#[kani::proof]
#[kani::unwind(42)]
pub fn remove_policy() {
    setup_world();
    let e = Env::default();
    let r = declare_rule(2, CAP);
    let pol = Address::arb();
    let after = without(&r.rule.policies, &pol);
    let (_fp_new, dup) = declare_new_fp(&r.rule.context_type, &r.rule.signers, &after);
    let meta0 = model::slot(S_META);
    let sig0 = model::slot(S_SIGNERS);
    let member = occurrences(&r.rule.policies, &pol) == 1;
    if !member {
        model::declare_val(S_FP_NEW, 0, &Key::NextId, false, &0u32, 0);
    }

    <Acct as SmartAccount>::remove_policy(&e, r.id, pol.clone());

    prop!(authorized(&account()) && model::auth_count(&account()) >= 1, "C20.ctxrules.remove_policy.requires_account_authorization");
    prop!(r.present, "C20.ctxrules.remove_policy.unknown_rule_refused");
    prop!(member, "C20.ctxrules.remove_policy.absent_policy_refused");
    prop!(!(after.is_empty() && r.rule.signers.is_empty()), "C20.ctxrules.remove_policy.last_policy_needs_a_signer");
    prop!(holds(S_POLICIES, &after), "C20.ctxrules.remove_policy.exactly_that_policy_removed");
    prop!(!dup, "C20.ctxrules.remove_policy.duplicate_fingerprint_refused");
    prop!(holds(S_FP_NEW, &true), "C20.ctxrules.remove_policy.new_fingerprint_recorded");
    prop!(!model::slot(S_FP_OLD).present, "C20.ctxrules.remove_policy.old_fingerprint_removed");
    prop!(same_entry(&meta0, &model::slot(S_META)) && same_entry(&sig0, &model::slot(S_SIGNERS)), "C20.ctxrules.remove_policy.meta_and_signers_untouched");
    let mut args = ArgBuf::new();
    args.push(&r.rule);
    args.push(&account());
    prop!(model::n_calls() == 1 && call_is(0, &pol, F_UNINSTALL, &args), "C20.ctxrules.remove_policy.uninstall_attempted_once");
    prop!(one_event(PolicyRemoved::EVENT_ID, &PolicyRemoved { context_rule_id: r.id, policy: pol.clone() }.event_words()), "C20.ctxrules.remove_policy.event");
    witness!(r.rule.policies.len() == 3 && r.rule.policies.get(1).unwrap() == pol, "middle_policy_removed");
    witness!(r.rule.policies.len() == 1 && r.rule.signers.len() == 1, "last_policy_removed_signer_remains");
    witness!(model::call_at(0).failed, "uninstall_failure_tolerated");
    end_checks(E_DECLARED);
    prop!(sa::get_context_rule(&e, r.id).policies == after, "C20.ctxrules.remove_policy.getter_agrees");
}
#[kani::proof]
#[kani::unwind(42)]
pub fn remove_policy_accepts() {
    setup_world();
    let e = Env::default();
    let r = declare_rule(2, CAP);
    let pol = Address::arb();
    let after = without(&r.rule.policies, &pol);
    let (_fp_new, dup) = declare_new_fp(&r.rule.context_type, &r.rule.signers, &after);
    kani::assume(authorized(&account()) && r.present && !dup && occurrences(&r.rule.policies, &pol) == 1);
    kani::assume(!(after.is_empty() && r.rule.signers.is_empty()));
    ttl_representable();
    world().must_succeed = true;
    <Acct as SmartAccount>::remove_policy(&e, r.id, pol.clone());
    world().must_succeed = false;
    prop!(holds(S_POLICIES, &after), "C20.ctxrules.remove_policy.member_policy_removable");
    witness!(r.rule.policies.len() == 3, "one_of_three_removed");
}

// ------------------------------------------------------------------------------------------ meta updates
#[kani::proof]
#[kani::unwind(42)]
pub fn update_name() {
    setup_world();
    let e = Env::default();
    let r = declare_rule(2, 2);
    let name = arb_name();
    let sig0 = model::slot(S_SIGNERS);
    let pol0 = model::slot(S_POLICIES);
    let fp0 = model::slot(S_FP_OLD);

    let got = <Acct as SmartAccount>::update_context_rule_name(&e, r.id, name.clone());

    let mut want = r.rule.clone();
    want.name = name.clone();
    prop!(authorized(&account()) && model::auth_count(&account()) >= 1, "C20.ctxrules.update_name.requires_account_authorization");
    prop!(r.present, "C20.ctxrules.update_name.unknown_rule_refused");
    prop!(holds(S_META, &Meta { name: name.clone(), context_type: r.rule.context_type.clone(), valid_until: r.rule.valid_until }), "C20.ctxrules.update_name.only_the_name_changes");
    prop!(same_entry(&sig0, &model::slot(S_SIGNERS)) && same_entry(&pol0, &model::slot(S_POLICIES)) && model::slots_equal(&fp0, &model::slot(S_FP_OLD)), "C20.ctxrules.update_name.lists_and_fingerprint_untouched");
    prop!(got == want, "C20.ctxrules.update_name.returns_the_updated_rule");
    let ev = ContextRuleUpdated { context_rule_id: r.id, name: name.clone(), context_type: r.rule.context_type.clone(), valid_until: r.rule.valid_until };
    prop!(one_event(ContextRuleUpdated::EVENT_ID, &ev.event_words()) && model::n_calls() == 0, "C20.ctxrules.update_name.event");
    witness!(true, "update_name_returns");
    end_checks(4);
}
#[kani::proof]
#[kani::unwind(42)]
pub fn update_valid_until() {
    setup_world();
    let e = Env::default();
    let r = declare_rule(2, 2);
    let vu = Option::<u32>::arb();
    let sig0 = model::slot(S_SIGNERS);
    let pol0 = model::slot(S_POLICIES);
    let fp0 = model::slot(S_FP_OLD);
    let seq = world().seq;

    let got = <Acct as SmartAccount>::update_context_rule_valid_until(&e, r.id, vu);

    let mut want = r.rule.clone();
    want.valid_until = vu;
    prop!(authorized(&account()) && model::auth_count(&account()) >= 1, "C20.ctxrules.update_valid_until.requires_account_authorization");
    prop!(r.present, "C20.ctxrules.update_valid_until.unknown_rule_refused");
    prop!(match vu { None => true, Some(v) => v >= seq }, "C20.ctxrules.update_valid_until.expiry_not_in_the_past");
    prop!(holds(S_META, &Meta { name: r.rule.name.clone(), context_type: r.rule.context_type.clone(), valid_until: vu }), "C20.ctxrules.update_valid_until.only_the_expiry_changes");
    prop!(same_entry(&sig0, &model::slot(S_SIGNERS)) && same_entry(&pol0, &model::slot(S_POLICIES)) && model::slots_equal(&fp0, &model::slot(S_FP_OLD)), "C20.ctxrules.update_valid_until.lists_and_fingerprint_untouched");
    prop!(got == want, "C20.ctxrules.update_valid_until.returns_the_updated_rule");
    let ev = ContextRuleUpdated { context_rule_id: r.id, name: r.rule.name.clone(), context_type: r.rule.context_type.clone(), valid_until: vu };
    prop!(one_event(ContextRuleUpdated::EVENT_ID, &ev.event_words()) && model::n_calls() == 0, "C20.ctxrules.update_valid_until.event");
    witness!(vu == Some(seq), "expiry_set_to_now");
    witness!(vu.is_none() && r.rule.valid_until.is_some(), "expiry_cleared");
    end_checks(4);
}

// ------------------------------------------------------------------------------------------ getters
/// `get_context_rules(type)` lists exactly the rules whose ids are in `Ids(type)`, in list order (expired ones too);
/// `get_context_rules_count` is the stored count (0 when absent)
#[kani::proof]
#[kani::unwind(42)]
pub fn getters() {
    setup_world();
    let e = Env::default();
    let ty = arb_rule_type();
    let n: u32 = kani::any();
    kani::assume(n <= 2);
    let id0: u32 = kani::any();
    let id1: u32 = kani::any();
    kani::assume(id0 != id1);
    let mut ids = Vec::new(&e);
    if n >= 1 {
        ids.push_back(id0);
    }
    if n >= 2 {
        ids.push_back(id1);
    }
    let lp: bool = kani::any();
    kani::assume(lp || n == 0);
    model::declare_val(0, 0, &Key::Ids(ty.clone()), lp, &ids, kani::any());
    let m0 = Meta { name: arb_name(), context_type: ty.clone(), valid_until: Option::<u32>::arb() };
    let m1 = Meta { name: arb_name(), context_type: ty.clone(), valid_until: Option::<u32>::arb() };
    let s0 = arb_signers(2);
    let s1 = arb_signers(2);
    let p0 = arb_addrs(2);
    let p1 = arb_addrs(2);
    model::declare_val(1, 0, &Key::Meta(id0), true, &m0, kani::any());
    model::declare_val(2, 0, &Key::Signers(id0), true, &s0, kani::any());
    model::declare_val(3, 0, &Key::Policies(id0), true, &p0, kani::any());
    model::declare_val(4, 0, &Key::Meta(id1), true, &m1, kani::any());
    model::declare_val(5, 0, &Key::Signers(id1), true, &s1, kani::any());
    model::declare_val(6, 0, &Key::Policies(id1), true, &p1, kani::any());
    let cp: bool = kani::any();
    let c: u32 = kani::any();
    model::declare_val(7, 2, &Key::Count, cp, &c, 0);

    let got = sa::get_context_rules(&e, &ty);
    let cnt = sa::get_context_rules_count(&e);

    let r0 = ContextRule { id: id0, context_type: ty.clone(), name: m0.name.clone(), signers: s0, policies: p0, valid_until: m0.valid_until };
    let r1 = ContextRule { id: id1, context_type: ty.clone(), name: m1.name.clone(), signers: s1, policies: p1, valid_until: m1.valid_until };
    prop!(got.len() == n, "C20.ctxrules.getters.one_rule_per_listed_id");
    if n >= 1 {
        prop!(got.get(0).unwrap() == r0, "C20.ctxrules.getters.rules_in_list_order");
    }
    if n >= 2 {
        prop!(got.get(1).unwrap() == r1, "C20.ctxrules.getters.rules_in_list_order");
    }
    prop!(cnt == if cp { c } else { 0 }, "C20.ctxrules.getters.count_is_the_stored_count");
    prop!(model::n_events() == 0 && model::n_calls() == 0, "C20.ctxrules.getters.read_only");
    witness!(n == 2 && m0.valid_until.is_some() && m0.valid_until.unwrap() < world().seq, "expired_rule_listed");
    witness!(n == 0 && !lp, "no_list_stored");
    end_checks(8);
}
